#!/bin/sh
# authoring tool: all 20 checks on the cached facts of the clean tree; prints only failures, and compares the set of
# obligation keys (rule/instance) with regress_keys.txt so that an edit that silently drops an obligation is noticed
# (./regress.sh --update rewrites the list after a deliberate change)
cd /verif
bad=0
facts=/tmp/cleanfacts
tmp=$(mktemp)
for i in 01 02 03 04 05 06 07 08 09 10 11 12 13 14 15 16 17 18 19 20; do
  out=$(GMV_NO_EVIDENCE=1 GMV_LIST=all ./check C$i --facts $facts 2>&1)
  if [ $? -ne 0 ]; then bad=1; echo "$out" | grep -E "VIOLATED|LOST|Trace|Error|^C" | head -5; fi
  echo "$out" | sed -n 's/^  \[[A-Z-]*\] \([^ ]*\): .*/C'$i' \1/p' | sort -u >> $tmp
done
if [ "$1" = "--update" ]; then cp $tmp regress_keys.txt; echo "regress: key list updated ($(wc -l < regress_keys.txt) keys)"; fi
if ! diff -q $tmp regress_keys.txt >/dev/null 2>&1; then
  echo "regress: obligation keys differ from regress_keys.txt:"; diff regress_keys.txt $tmp | head -20; bad=1
fi
rm -f $tmp
[ $bad -eq 0 ] && echo "regress: all 20 pass, $(wc -l < regress_keys.txt) obligation keys unchanged"
exit $bad
