#!/bin/sh
# authoring tool: all 20 checks on the cached facts of the clean tree; prints only failures
cd /verif
bad=0
for i in 01 02 03 04 05 06 07 08 09 10 11 12 13 14 15 16 17 18 19 20; do
  out=$(GMV_NO_EVIDENCE=1 ./check C$i --facts ${1:-/tmp/cleanfacts} 2>&1)
  if [ $? -ne 0 ]; then bad=1; echo "$out" | grep -E "VIOLATED|LOST|Trace|Error|^C" | head -5; fi
done
[ $bad -eq 0 ] && echo "regress: all 20 pass"
exit $bad
