#!/usr/bin/env python3
"""Run behaviour-preserving changes (from /tmp/benign/<Cxx>/<i>/patch.diff) through all checks: every report is a
FALSE ALARM candidate.  usage: benignrun.py [Cxx ...]   (authoring tool; mutates /repo's working tree, restores it)"""
import glob, os, re, subprocess, sys, json
props = sys.argv[1:] or sorted(os.path.basename(d) for d in glob.glob('/tmp/benign/C??'))
out = {}
if os.path.exists('/tmp/benign/results.json'):
    out = json.load(open('/tmp/benign/results.json'))
for p in props:
    for d in sorted(glob.glob('/tmp/benign/%s/[0-9]' % p)):
        pf = d + '/patch.diff'
        if not os.path.exists(pf) or not open(pf).read().strip():
            continue
        k = '%s/%s' % (p, os.path.basename(d))
        r = subprocess.run(['/verif/seedrun.py', pf], stdout=subprocess.PIPE, stderr=subprocess.STDOUT, text=True)
        m = re.findall(r'^CAUGHT-BY: (.*) \(mode', r.stdout, re.M)
        alarms = [l.strip() for l in r.stdout.splitlines() if l.startswith('    ')]
        out[k] = {'alarmed': (m[0] if m else 'PATCH-FAILED'), 'reports': alarms[:12]}
        print(k, '->', out[k]['alarmed'], flush=True)
        for a in alarms[:8]:
            print('      ', a[:230], flush=True)
        json.dump(out, open('/tmp/benign/results.json', 'w'), indent=1)
