// gmv-driver: MIR fact extractor for the gm-rs static checks.
//
// This is a *translator*, not a checker: it runs as RUSTC_WORKSPACE_WRAPPER
// under `cargo +nightly check`, lets rustc analyse the crate with the real
// build flags, and dumps one JSON file per workspace crate describing
//   * every const/static with the raw bytes of its evaluated initialiser,
//   * every ADT (fields, visibility, Freeze),
//   * every function body (optimized MIR at mir-opt-level 0) in structured form
//     with callees resolved through `Instance::try_resolve`.
// All rules live in /verif/gmv (Python).
#![feature(rustc_private)]
#![allow(clippy::all)]

extern crate rustc_abi;
extern crate rustc_driver;
extern crate rustc_hir;
extern crate rustc_interface;
extern crate rustc_middle;
extern crate rustc_span;

use rustc_driver::{Callbacks, Compilation};
use rustc_hir::def::DefKind;
use rustc_hir::def_id::{DefId, LOCAL_CRATE};
use rustc_hir::definitions::DefPathData;
use rustc_middle::mir::interpret::{GlobalAlloc, Scalar};
use rustc_middle::mir::{
    self, AggregateKind, BasicBlockData, Body, Const, ConstValue, Operand, Place, ProjectionElem,
    Rvalue, StatementKind, TerminatorKind, VarDebugInfoContents,
};
use rustc_middle::ty::print::{with_no_trimmed_paths, PrintTraitRefExt};
use rustc_middle::ty::{self, Instance, Ty, TyCtxt, TypingEnv};
use rustc_span::Span;
use std::fmt::Write as _;

// ---------------------------------------------------------------- JSON tree
enum J {
    Null,
    Bool(bool),
    Int(i128),
    Str(String),
    Arr(Vec<J>),
    Obj(Vec<(&'static str, J)>),
}

fn jesc(s: &str, out: &mut String) {
    out.push('"');
    for c in s.chars() {
        match c {
            '"' => out.push_str("\\\""),
            '\\' => out.push_str("\\\\"),
            '\n' => out.push_str("\\n"),
            '\r' => out.push_str("\\r"),
            '\t' => out.push_str("\\t"),
            c if (c as u32) < 0x20 => {
                let _ = write!(out, "\\u{:04x}", c as u32);
            }
            c => out.push(c),
        }
    }
    out.push('"');
}

impl J {
    fn write(&self, out: &mut String) {
        match self {
            J::Null => out.push_str("null"),
            J::Bool(b) => out.push_str(if *b { "true" } else { "false" }),
            J::Int(i) => {
                let _ = write!(out, "{}", i);
            }
            J::Str(s) => jesc(s, out),
            J::Arr(v) => {
                out.push('[');
                for (i, x) in v.iter().enumerate() {
                    if i > 0 {
                        out.push(',');
                    }
                    x.write(out);
                }
                out.push(']');
            }
            J::Obj(v) => {
                out.push('{');
                for (i, (k, x)) in v.iter().enumerate() {
                    if i > 0 {
                        out.push(',');
                    }
                    jesc(k, out);
                    out.push(':');
                    x.write(out);
                }
                out.push('}');
            }
        }
    }
}

fn s<T: Into<String>>(x: T) -> J {
    J::Str(x.into())
}
fn hex(bytes: &[u8]) -> J {
    let mut o = String::with_capacity(bytes.len() * 2);
    for b in bytes {
        let _ = write!(o, "{:02x}", b);
    }
    J::Str(o)
}

// ---------------------------------------------------------------- names
fn qname(tcx: TyCtxt<'_>, did: DefId) -> String {
    if did.is_crate_root() {
        return tcx.crate_name(did.krate).to_string();
    }
    let parent = tcx.parent(did);
    let key = tcx.def_key(did);
    let base = qname(tcx, parent);
    let dis = key.disambiguated_data.disambiguator;
    let comp = match key.disambiguated_data.data {
        DefPathData::Impl => {
            let d = with_no_trimmed_paths!(match tcx.impl_opt_trait_ref(did) {
                Some(tr) => {
                    let tr = tr.instantiate_identity().skip_norm_wip();
                    format!("<impl {} for {}>", tr.print_only_trait_path(), tr.self_ty())
                }
                None => format!(
                    "<impl {}>",
                    tcx.type_of(did).instantiate_identity().skip_norm_wip()
                ),
            });
            d
        }
        DefPathData::Closure => format!("{{closure#{}}}", dis),
        DefPathData::Ctor => "{ctor}".to_string(),
        DefPathData::AnonConst => format!("{{const#{}}}", dis),
        ref other => match other.get_opt_name() {
            Some(n) => {
                if dis != 0 {
                    format!("{}#{}", n, dis)
                } else {
                    n.to_string()
                }
            }
            None => format!("{{{:?}#{}}}", other, dis),
        },
    };
    format!("{}::{}", base, comp)
}

fn tystr(ty: Ty<'_>) -> String {
    with_no_trimmed_paths!(format!("{}", ty))
}

struct Cx<'tcx> {
    tcx: TyCtxt<'tcx>,
}

impl<'tcx> Cx<'tcx> {
    fn span(&self, sp: Span) -> J {
        let sm = self.tcx.sess.source_map();
        let orig = sp;
        // report the call-site of macro expansions so lines point into repo code
        let sp = sp.source_callsite();
        let lo = sm.lookup_char_pos(sp.lo());
        let file = match &lo.file.name {
            rustc_span::FileName::Real(r) => match r.local_path() {
                Some(p) => p.display().to_string(),
                None => format!("{:?}", r),
            },
            other => format!("{:?}", other),
        };
        J::Obj(vec![
            ("file", s(file)),
            ("line", J::Int(lo.line as i128)),
            ("col", J::Int(lo.col.0 as i128 + 1)),
            ("exp", J::Bool(orig.from_expansion())),
        ])
    }

    // ------------------------------------------------------------ layout
    fn layout(&self, ty: Ty<'tcx>, depth: usize) -> J {
        let tcx = self.tcx;
        let env = TypingEnv::fully_monomorphized();
        let lay = match tcx.layout_of(env.as_query_input(ty)) {
            Ok(l) => l,
            Err(_) => return J::Obj(vec![("k", s("unknown")), ("ty", s(tystr(ty)))]),
        };
        let size = lay.size.bytes() as i128;
        if depth > 8 {
            return J::Obj(vec![("k", s("deep")), ("ty", s(tystr(ty))), ("size", J::Int(size))]);
        }
        match ty.kind() {
            ty::Bool | ty::Char | ty::Int(_) | ty::Uint(_) | ty::Float(_) => {
                J::Obj(vec![("k", s("scalar")), ("ty", s(tystr(ty))), ("size", J::Int(size))])
            }
            ty::Array(elem, _n) => {
                let el = match tcx.layout_of(env.as_query_input(*elem)) {
                    Ok(l) => l.size.bytes() as i128,
                    Err(_) => 0,
                };
                let count = if el > 0 { size / el } else { 0 };
                J::Obj(vec![
                    ("k", s("array")),
                    ("ty", s(tystr(ty))),
                    ("size", J::Int(size)),
                    ("count", J::Int(count)),
                    ("stride", J::Int(el)),
                    ("elem", self.layout(*elem, depth + 1)),
                ])
            }
            ty::Tuple(tys) => {
                let mut fs = vec![];
                for (i, t) in tys.iter().enumerate() {
                    let off = lay.fields.offset(i).bytes() as i128;
                    fs.push(J::Obj(vec![
                        ("name", s(format!("{}", i))),
                        ("off", J::Int(off)),
                        ("lay", self.layout(t, depth + 1)),
                    ]));
                }
                J::Obj(vec![("k", s("struct")), ("ty", s(tystr(ty))), ("size", J::Int(size)), ("fields", J::Arr(fs))])
            }
            ty::Adt(adt, args) if adt.is_struct() => {
                let mut fs = vec![];
                for (i, f) in adt.non_enum_variant().fields.iter().enumerate() {
                    let off = lay.fields.offset(i).bytes() as i128;
                    let fty = f.ty(tcx, args);
                    fs.push(J::Obj(vec![
                        ("name", s(f.name.to_string())),
                        ("off", J::Int(off)),
                        ("lay", self.layout(fty, depth + 1)),
                    ]));
                }
                J::Obj(vec![("k", s("struct")), ("ty", s(tystr(ty))), ("size", J::Int(size)), ("fields", J::Arr(fs))])
            }
            _ => J::Obj(vec![("k", s("opaque")), ("ty", s(tystr(ty))), ("size", J::Int(size))]),
        }
    }

    fn alloc_bytes(&self, alloc: &rustc_middle::mir::interpret::Allocation, off: u64, size: u64) -> Option<Vec<u8>> {
        let total = alloc.size().bytes();
        if off + size > total {
            return None;
        }
        let r = (off as usize)..((off + size) as usize);
        Some(alloc.inspect_with_uninit_and_ptr_outside_interpreter(r).to_vec())
    }

    fn type_size(&self, ty: Ty<'tcx>) -> Option<u64> {
        let env = TypingEnv::fully_monomorphized();
        self.tcx.layout_of(env.as_query_input(ty)).ok().map(|l| l.size.bytes())
    }

    // ------------------------------------------------------------ constants
    fn const_value(&self, cv: ConstValue, ty: Ty<'tcx>) -> J {
        let tcx = self.tcx;
        match cv {
            ConstValue::ZeroSized => {
                if let ty::FnDef(did, args) = ty.kind() {
                    return J::Obj(vec![
                        ("k", s("fn")),
                        ("fn", s(qname(tcx, *did))),
                        ("generic", s(with_no_trimmed_paths!(format!("{:?}", args)))),
                    ]);
                }
                J::Obj(vec![("k", s("zst")), ("ty", s(tystr(ty)))])
            }
            ConstValue::Scalar(Scalar::Int(i)) => {
                let bits = i.to_bits_unchecked();
                let size = i.size().bytes();
                // signed interpretation for signed ints
                let mut fields = vec![
                    ("k", s("int")),
                    ("ty", s(tystr(ty))),
                    ("bits", s(format!("{}", bits))),
                    ("size", J::Int(size as i128)),
                ];
                if let ty::Int(_) = ty.kind() {
                    let shift = 128 - size * 8;
                    let sv = if size == 0 { 0 } else { ((bits << shift) as i128) >> shift };
                    fields.push(("signed", s(format!("{}", sv))));
                }
                J::Obj(fields)
            }
            ConstValue::Scalar(Scalar::Ptr(ptr, _)) => {
                let (prov, off) = ptr.into_raw_parts();
                let aid = prov.alloc_id();
                match tcx.global_alloc(aid) {
                    GlobalAlloc::Static(did) => J::Obj(vec![
                        ("k", s("static_ref")),
                        ("static", s(qname(tcx, did))),
                        ("off", J::Int(off.bytes() as i128)),
                        ("ty", s(tystr(ty))),
                    ]),
                    GlobalAlloc::Memory(alloc) => {
                        // pointee size if this is a thin reference to a sized type
                        let pointee = match ty.kind() {
                            ty::Ref(_, t, _) => Some(*t),
                            ty::RawPtr(t, _) => Some(*t),
                            _ => None,
                        };
                        let a = alloc.inner();
                        let size = pointee
                            .and_then(|t| self.type_size(t))
                            .unwrap_or(a.size().bytes().saturating_sub(off.bytes()));
                        let mut f = vec![("k", s("mem_ref")), ("ty", s(tystr(ty)))];
                        if a.provenance().ptrs().is_empty() {
                            if let Some(b) = self.alloc_bytes(a, off.bytes(), size) {
                                f.push(("bytes", hex(&b)));
                            }
                        } else {
                            f.push(("has_ptrs", J::Bool(true)));
                        }
                        if let Some(t) = pointee {
                            f.push(("pointee", s(tystr(t))));
                        }
                        J::Obj(f)
                    }
                    GlobalAlloc::Function { instance } => J::Obj(vec![
                        ("k", s("fn_ptr")),
                        ("fn", s(qname(tcx, instance.def_id()))),
                    ]),
                    other => J::Obj(vec![("k", s("ptr_other")), ("dbg", s(format!("{:?}", other)))]),
                }
            }
            ConstValue::Slice { alloc_id, meta } => {
                let mut f = vec![("k", s("slice")), ("ty", s(tystr(ty))), ("len", J::Int(meta as i128))];
                if let GlobalAlloc::Memory(alloc) = tcx.global_alloc(alloc_id) {
                    let a = alloc.inner();
                    // element size: 1 for str/[u8]; otherwise derive from alloc size
                    let esz = match ty.builtin_deref(true).map(|t| t.kind()) {
                        Some(ty::Str) => 1,
                        Some(ty::Slice(e)) => self.type_size(*e).unwrap_or(1),
                        _ => 1,
                    };
                    if let Some(b) = self.alloc_bytes(a, 0, meta * esz) {
                        f.push(("bytes", hex(&b)));
                    }
                }
                J::Obj(f)
            }
            ConstValue::Indirect { alloc_id, offset } => {
                let mut f = vec![("k", s("bytes")), ("ty", s(tystr(ty)))];
                if let GlobalAlloc::Memory(alloc) = tcx.global_alloc(alloc_id) {
                    let a = alloc.inner();
                    if let Some(sz) = self.type_size(ty) {
                        if a.provenance().ptrs().is_empty() {
                            if let Some(b) = self.alloc_bytes(a, offset.bytes(), sz) {
                                f.push(("bytes", hex(&b)));
                            }
                        } else {
                            f.push(("has_ptrs", J::Bool(true)));
                        }
                    }
                }
                J::Obj(f)
            }
        }
    }

    fn mir_const(&self, c: &Const<'tcx>, owner: DefId, sp: Span) -> J {
        let tcx = self.tcx;
        let env = TypingEnv::post_analysis(tcx, owner);
        let ty = c.ty();
        let mut extra: Vec<(&'static str, J)> = vec![];
        if let Const::Unevaluated(uv, _) = c {
            match uv.promoted {
                Some(p) => extra.push(("promoted", J::Int(p.as_u32() as i128))),
                None => extra.push(("item", s(qname(tcx, uv.def)))),
            }
        }
        let val = match c.eval(tcx, env, sp) {
            Ok(cv) => self.const_value(cv, ty),
            Err(_) => J::Obj(vec![("k", s("uneval")), ("ty", s(tystr(ty)))]),
        };
        match val {
            J::Obj(mut v) => {
                v.extend(extra);
                J::Obj(v)
            }
            other => other,
        }
    }

    // ------------------------------------------------------------ places / operands
    fn place(&self, p: &Place<'tcx>, body: &Body<'tcx>) -> J {
        let mut projs = vec![];
        let mut cur = mir::PlaceTy::from_ty(body.local_decls[p.local].ty);
        for elem in p.projection.iter() {
            let j = match elem {
                ProjectionElem::Deref => s("deref"),
                ProjectionElem::Field(f, ty) => {
                    // field name if the base is a struct/enum variant
                    let mut name = format!("{}", f.as_u32());
                    if let ty::Adt(adt, _) = cur.ty.kind() {
                        let vi = cur.variant_index.unwrap_or(rustc_abi::FIRST_VARIANT);
                        if (vi.as_usize()) < adt.variants().len() {
                            let v = adt.variant(vi);
                            if f.as_usize() < v.fields.len() {
                                name = v.fields[f].name.to_string();
                            }
                        }
                    }
                    J::Obj(vec![
                        ("f", J::Int(f.as_u32() as i128)),
                        ("name", s(name)),
                        ("ty", s(tystr(ty))),
                    ])
                }
                ProjectionElem::Index(l) => J::Obj(vec![("idx", J::Int(l.as_u32() as i128))]),
                ProjectionElem::ConstantIndex { offset, min_length, from_end } => J::Obj(vec![
                    ("cidx", J::Int(offset as i128)),
                    ("min_len", J::Int(min_length as i128)),
                    ("from_end", J::Bool(from_end)),
                ]),
                ProjectionElem::Subslice { from, to, from_end } => J::Obj(vec![
                    ("sub_from", J::Int(from as i128)),
                    ("sub_to", J::Int(to as i128)),
                    ("from_end", J::Bool(from_end)),
                ]),
                ProjectionElem::Downcast(name, vi) => J::Obj(vec![
                    ("downcast", J::Int(vi.as_u32() as i128)),
                    ("vname", s(name.map(|n| n.to_string()).unwrap_or_default())),
                ]),
                other => J::Obj(vec![("other", s(format!("{:?}", other)))]),
            };
            projs.push(j);
            cur = cur.projection_ty(self.tcx, elem);
        }
        J::Obj(vec![("l", J::Int(p.local.as_u32() as i128)), ("p", J::Arr(projs))])
    }

    fn operand(&self, o: &Operand<'tcx>, body: &Body<'tcx>, owner: DefId) -> J {
        match o {
            Operand::Copy(p) => J::Obj(vec![("k", s("copy")), ("pl", self.place(p, body))]),
            Operand::Move(p) => J::Obj(vec![("k", s("move")), ("pl", self.place(p, body))]),
            Operand::Constant(c) => J::Obj(vec![("k", s("const")), ("c", self.mir_const(&c.const_, owner, c.span))]),
            other => J::Obj(vec![("k", s("other")), ("dbg", s(format!("{:?}", other)))]),
        }
    }

    fn rvalue(&self, rv: &Rvalue<'tcx>, body: &Body<'tcx>, owner: DefId) -> J {
        let tcx = self.tcx;
        match rv {
            Rvalue::Use(o, ..) => J::Obj(vec![("k", s("use")), ("op", self.operand(o, body, owner))]),
            Rvalue::Repeat(o, n) => J::Obj(vec![
                ("k", s("repeat")),
                ("op", self.operand(o, body, owner)),
                ("count", s(format!("{}", n))),
            ]),
            Rvalue::Ref(_, bk, p) => J::Obj(vec![
                ("k", s("ref")),
                ("mut", J::Bool(matches!(bk, mir::BorrowKind::Mut { .. }))),
                ("pl", self.place(p, body)),
            ]),
            Rvalue::RawPtr(k, p) => J::Obj(vec![
                ("k", s("rawptr")),
                ("kind", s(format!("{:?}", k))),
                ("pl", self.place(p, body)),
            ]),
            Rvalue::Cast(kind, o, ty) => J::Obj(vec![
                ("k", s("cast")),
                ("kind", s(format!("{:?}", kind))),
                ("op", self.operand(o, body, owner)),
                ("ty", s(tystr(*ty))),
                ("from_ty", s(tystr(o.ty(&body.local_decls, tcx)))),
            ]),
            Rvalue::BinaryOp(op, ab) => J::Obj(vec![
                ("k", s("binop")),
                ("op", s(format!("{:?}", op))),
                ("a", self.operand(&ab.0, body, owner)),
                ("b", self.operand(&ab.1, body, owner)),
                ("ty", s(tystr(ab.0.ty(&body.local_decls, tcx)))),
            ]),
            Rvalue::UnaryOp(op, o) => J::Obj(vec![
                ("k", s("unop")),
                ("op", s(format!("{:?}", op))),
                ("a", self.operand(o, body, owner)),
                ("ty", s(tystr(o.ty(&body.local_decls, tcx)))),
            ]),
            Rvalue::Discriminant(p) => J::Obj(vec![("k", s("discr")), ("pl", self.place(p, body))]),
            Rvalue::Aggregate(kind, ops) => {
                let mut f = vec![("k", s("aggr"))];
                match &**kind {
                    AggregateKind::Array(t) => {
                        f.push(("akind", s("array")));
                        f.push(("ety", s(tystr(*t))));
                    }
                    AggregateKind::Tuple => f.push(("akind", s("tuple"))),
                    AggregateKind::Adt(did, vi, _, _, _) => {
                        f.push(("akind", s("adt")));
                        f.push(("adt", s(qname(tcx, *did))));
                        let adt = tcx.adt_def(*did);
                        f.push(("variant", s(adt.variant(*vi).name.to_string())));
                        f.push(("vidx", J::Int(vi.as_u32() as i128)));
                        let names: Vec<J> =
                            adt.variant(*vi).fields.iter().map(|fd| s(fd.name.to_string())).collect();
                        f.push(("fnames", J::Arr(names)));
                    }
                    AggregateKind::Closure(did, _) => {
                        f.push(("akind", s("closure")));
                        f.push(("closure", s(qname(tcx, *did))));
                    }
                    other => {
                        f.push(("akind", s("other")));
                        f.push(("dbg", s(format!("{:?}", other))));
                    }
                }
                f.push(("ops", J::Arr(ops.iter().map(|o| self.operand(o, body, owner)).collect())));
                J::Obj(f)
            }
            Rvalue::CopyForDeref(p) => J::Obj(vec![
                ("k", s("use")),
                ("op", J::Obj(vec![("k", s("copy")), ("pl", self.place(p, body))])),
            ]),
            other => J::Obj(vec![("k", s("other")), ("dbg", s(format!("{:?}", other)))]),
        }
    }

    fn callee(&self, func: &Operand<'tcx>, body: &Body<'tcx>, owner: DefId) -> J {
        let tcx = self.tcx;
        let fty = func.ty(&body.local_decls, tcx);
        if let ty::FnDef(did, args) = fty.kind() {
            let env = TypingEnv::post_analysis(tcx, owner);
            let raw = qname(tcx, *did);
            let mut resolved = raw.clone();
            let mut rdid = *did;
            let mut rargs = *args;
            if let Ok(Some(inst)) = Instance::try_resolve(tcx, env, *did, args) {
                rdid = inst.def_id();
                rargs = inst.args;
                resolved = qname(tcx, rdid);
            }
            return J::Obj(vec![
                ("k", s("def")),
                ("name", s(resolved)),
                ("raw", s(raw)),
                ("generic", s(with_no_trimmed_paths!(format!("{:?}", rargs)))),
                ("krate", s(tcx.crate_name(rdid.krate).to_string())),
                ("local", J::Bool(rdid.is_local())),
            ]);
        }
        J::Obj(vec![
            ("k", s("indirect")),
            ("op", self.operand(func, body, owner)),
            ("ty", s(tystr(fty))),
        ])
    }

    fn block(&self, bb: &BasicBlockData<'tcx>, body: &Body<'tcx>, owner: DefId) -> J {
        let mut stmts = vec![];
        for st in &bb.statements {
            match &st.kind {
                StatementKind::Assign(b) => {
                    let (pl, rv) = &**b;
                    stmts.push(J::Obj(vec![
                        ("k", s("assign")),
                        ("lhs", self.place(pl, body)),
                        ("rv", self.rvalue(rv, body, owner)),
                        ("span", self.span(st.source_info.span)),
                    ]));
                }
                StatementKind::SetDiscriminant { place, variant_index } => {
                    stmts.push(J::Obj(vec![
                        ("k", s("setdiscr")),
                        ("lhs", self.place(place, body)),
                        ("variant", J::Int(variant_index.as_u32() as i128)),
                    ]));
                }
                StatementKind::Intrinsic(i) => {
                    stmts.push(J::Obj(vec![("k", s("intrinsic")), ("dbg", s(format!("{:?}", i)))]));
                }
                _ => {}
            }
        }
        let term = bb.terminator();
        let sp = self.span(term.source_info.span);
        let t = match &term.kind {
            TerminatorKind::Goto { target } => {
                J::Obj(vec![("k", s("goto")), ("target", J::Int(target.as_u32() as i128))])
            }
            TerminatorKind::SwitchInt { discr, targets } => {
                let mut ts = vec![];
                for (v, bb) in targets.iter() {
                    ts.push(J::Arr(vec![s(format!("{}", v)), J::Int(bb.as_u32() as i128)]));
                }
                J::Obj(vec![
                    ("k", s("switch")),
                    ("op", self.operand(discr, body, owner)),
                    ("ty", s(tystr(discr.ty(&body.local_decls, self.tcx)))),
                    ("targets", J::Arr(ts)),
                    ("otherwise", J::Int(targets.otherwise().as_u32() as i128)),
                    ("span", sp),
                ])
            }
            TerminatorKind::Return => J::Obj(vec![("k", s("return")), ("span", sp)]),
            TerminatorKind::Unreachable => J::Obj(vec![("k", s("unreachable"))]),
            TerminatorKind::UnwindResume => J::Obj(vec![("k", s("resume"))]),
            TerminatorKind::UnwindTerminate(_) => J::Obj(vec![("k", s("abort"))]),
            TerminatorKind::Drop { place, target, .. } => J::Obj(vec![
                ("k", s("drop")),
                ("pl", self.place(place, body)),
                ("target", J::Int(target.as_u32() as i128)),
            ]),
            TerminatorKind::Call { func, args, destination, target, .. } => {
                let a: Vec<J> = args.iter().map(|a| self.operand(&a.node, body, owner)).collect();
                J::Obj(vec![
                    ("k", s("call")),
                    ("fn", self.callee(func, body, owner)),
                    ("args", J::Arr(a)),
                    ("dest", self.place(destination, body)),
                    ("target", match target {
                        Some(t) => J::Int(t.as_u32() as i128),
                        None => J::Null,
                    }),
                    ("span", sp),
                ])
            }
            TerminatorKind::TailCall { func, args, .. } => {
                let a: Vec<J> = args.iter().map(|a| self.operand(&a.node, body, owner)).collect();
                J::Obj(vec![
                    ("k", s("tailcall")),
                    ("fn", self.callee(func, body, owner)),
                    ("args", J::Arr(a)),
                    ("span", sp),
                ])
            }
            TerminatorKind::Assert { cond, expected, msg, target, .. } => {
                let (kind, ops): (String, Vec<J>) = match &**msg {
                    mir::AssertKind::BoundsCheck { len, index } => (
                        "BoundsCheck".into(),
                        vec![self.operand(len, body, owner), self.operand(index, body, owner)],
                    ),
                    mir::AssertKind::Overflow(op, a, b) => (
                        format!("Overflow({:?})", op),
                        vec![self.operand(a, body, owner), self.operand(b, body, owner)],
                    ),
                    mir::AssertKind::OverflowNeg(a) => ("OverflowNeg".into(), vec![self.operand(a, body, owner)]),
                    mir::AssertKind::DivisionByZero(a) => {
                        ("DivisionByZero".into(), vec![self.operand(a, body, owner)])
                    }
                    mir::AssertKind::RemainderByZero(a) => {
                        ("RemainderByZero".into(), vec![self.operand(a, body, owner)])
                    }
                    other => (format!("{:?}", other), vec![]),
                };
                J::Obj(vec![
                    ("k", s("assert")),
                    ("cond", self.operand(cond, body, owner)),
                    ("expected", J::Bool(*expected)),
                    ("kind", s(kind)),
                    ("ops", J::Arr(ops)),
                    ("target", J::Int(target.as_u32() as i128)),
                    ("span", sp),
                ])
            }
            other => J::Obj(vec![("k", s("other")), ("dbg", s(format!("{:?}", other)))]),
        };
        J::Obj(vec![("stmts", J::Arr(stmts)), ("term", t), ("cleanup", J::Bool(bb.is_cleanup))])
    }

    fn body(&self, body: &Body<'tcx>, owner: DefId) -> J {
        let mut names: Vec<Option<String>> = vec![None; body.local_decls.len()];
        for vdi in &body.var_debug_info {
            if let VarDebugInfoContents::Place(p) = &vdi.value {
                if p.projection.is_empty() {
                    names[p.local.as_usize()] = Some(vdi.name.to_string());
                }
            }
        }
        let mut locals = vec![];
        for (l, d) in body.local_decls.iter_enumerated() {
            locals.push(J::Obj(vec![
                ("ty", s(tystr(d.ty))),
                ("name", match &names[l.as_usize()] {
                    Some(n) => s(n.clone()),
                    None => J::Null,
                }),
                ("mut", J::Bool(d.mutability.is_mut())),
            ]));
        }
        let blocks: Vec<J> = body.basic_blocks.iter().map(|bb| self.block(bb, body, owner)).collect();
        J::Obj(vec![
            ("arg_count", J::Int(body.arg_count as i128)),
            ("locals", J::Arr(locals)),
            ("blocks", J::Arr(blocks)),
        ])
    }
}

struct Extract;

impl Callbacks for Extract {
    fn after_analysis<'tcx>(
        &mut self,
        _compiler: &rustc_interface::interface::Compiler,
        tcx: TyCtxt<'tcx>,
    ) -> Compilation {
        let out_dir = match std::env::var("GMV_FACTS_DIR") {
            Ok(d) => d,
            Err(_) => return Compilation::Continue,
        };
        let cx = Cx { tcx };
        let krate = tcx.crate_name(LOCAL_CRATE).to_string();
        let mut fns = vec![];
        let mut items = vec![];
        let mut adts = vec![];

        let mut all: Vec<rustc_span::def_id::LocalDefId> = tcx.hir_crate_items(()).definitions().collect();
        for o in tcx.hir_body_owners() {
            if matches!(tcx.def_kind(o.to_def_id()), DefKind::Closure) && !all.contains(&o) {
                all.push(o);
            }
        }
        for ldid in all {
            let did = ldid.to_def_id();
            let kind = tcx.def_kind(did);
            match kind {
                DefKind::Const { .. } | DefKind::AssocConst { .. } | DefKind::Static { .. } => {
                    let ty = tcx.type_of(did).instantiate_identity().skip_norm_wip();
                    let mut f = vec![
                        ("name", s(qname(tcx, did))),
                        ("kind", s(if matches!(kind, DefKind::Static { .. }) { "static" } else { "const" })),
                        ("ty", s(tystr(ty))),
                        ("span", cx.span(tcx.def_span(did))),
                        ("layout", cx.layout(ty, 0)),
                    ];
                    if let DefKind::Static { mutability, .. } = kind {
                        f.push(("mutable", J::Bool(mutability.is_mut())));
                        f.push(("freeze", J::Bool(ty.is_freeze(tcx, TypingEnv::fully_monomorphized()))));
                        if let Ok(alloc) = tcx.eval_static_initializer(did) {
                            let a = alloc.inner();
                            if a.provenance().ptrs().is_empty() {
                                if let Some(b) = cx.alloc_bytes(a, 0, a.size().bytes()) {
                                    f.push(("bytes", hex(&b)));
                                }
                            }
                        }
                    } else {
                        // generic assoc consts cannot be evaluated polymorphically; ignore errors
                        if tcx.generics_of(did).count() == 0 {
                            if let Ok(cv) = tcx.const_eval_poly(did) {
                                f.push(("value", cx.const_value(cv, ty)));
                            }
                        }
                    }
                    items.push(J::Obj(f));
                }
                DefKind::Struct | DefKind::Enum | DefKind::Union => {
                    let adt = tcx.adt_def(did);
                    let ty = tcx.type_of(did).instantiate_identity().skip_norm_wip();
                    let generic = tcx.generics_of(did).count() != 0;
                    let mut variants = vec![];
                    for v in adt.variants() {
                        let mut fs = vec![];
                        for fd in v.fields.iter() {
                            fs.push(J::Obj(vec![
                                ("name", s(fd.name.to_string())),
                                ("ty", s(tystr(tcx.type_of(fd.did).instantiate_identity().skip_norm_wip()))),
                                ("vis", s(format!("{:?}", fd.vis))),
                                ("public", J::Bool(fd.vis.is_public())),
                            ]));
                        }
                        variants.push(J::Obj(vec![("name", s(v.name.to_string())), ("fields", J::Arr(fs))]));
                    }
                    let mut f = vec![
                        ("name", s(qname(tcx, did))),
                        ("kind", s(format!("{:?}", kind))),
                        ("public", J::Bool(tcx.visibility(did).is_public())),
                        ("variants", J::Arr(variants)),
                        ("span", cx.span(tcx.def_span(did))),
                    ];
                    if !generic {
                        f.push(("freeze", J::Bool(ty.is_freeze(tcx, TypingEnv::fully_monomorphized()))));
                    }
                    adts.push(J::Obj(f));
                }
                DefKind::Fn | DefKind::AssocFn | DefKind::Closure => {
                    if !tcx.is_mir_available(did) {
                        continue;
                    }
                    // trait method declarations without body have no MIR
                    let body = tcx.optimized_mir(did);
                    let mut f = vec![
                        ("name", s(qname(tcx, did))),
                        ("kind", s(format!("{:?}", kind))),
                        ("span", cx.span(tcx.def_span(did))),
                    ];
                    if matches!(kind, DefKind::Fn | DefKind::AssocFn) {
                        f.push(("public", J::Bool(tcx.visibility(did).is_public())));
                        let sig = tcx.fn_sig(did).instantiate_identity().skip_norm_wip();
                        f.push(("sig", s(with_no_trimmed_paths!(format!("{}", sig)))));
                        f.push(("unsafe", J::Bool(!sig.safety().is_safe())));
                        f.push(("generic", J::Bool(tcx.generics_of(did).count() != 0)));
                    }
                    f.push(("body", cx.body(body, did)));
                    let mut proms = vec![];
                    for p in tcx.promoted_mir(did).iter() {
                        proms.push(cx.body(p, did));
                    }
                    f.push(("promoted", J::Arr(proms)));
                    fns.push(J::Obj(f));
                }
                _ => {}
            }
        }

        let root = J::Obj(vec![
            ("crate", s(krate.clone())),
            ("fns", J::Arr(fns)),
            ("items", J::Arr(items)),
            ("adts", J::Arr(adts)),
        ]);
        let mut out = String::new();
        root.write(&mut out);
        let path = format!("{}/{}.json", out_dir, krate);
        let tmp = format!("{}.tmp{}", path, std::process::id());
        std::fs::write(&tmp, out).expect("write facts");
        std::fs::rename(&tmp, &path).expect("rename facts");
        Compilation::Continue
    }
}

struct Plain;
impl Callbacks for Plain {}

fn main() {
    let argv: Vec<String> = std::env::args().collect();
    // RUSTC_WORKSPACE_WRAPPER: argv = [driver, rustc, args...]
    let mut args: Vec<String> = vec!["rustc".to_string()];
    args.extend(argv.iter().skip(2).cloned());
    let mut crate_name = String::new();
    let mut is_lib = false;
    let mut i = 0;
    while i < args.len() {
        if args[i] == "--crate-name" && i + 1 < args.len() {
            crate_name = args[i + 1].clone();
        }
        if args[i] == "--crate-type" && i + 1 < args.len() && (args[i + 1] == "lib" || args[i + 1] == "rlib") {
            is_lib = true;
        }
        i += 1;
    }
    let is_test = args.iter().any(|a| a == "--test");
    let wanted = std::env::var("GMV_CRATES").unwrap_or_else(|_| "gm_sm2,gm_sm3,gm_sm4,gm_sm9,gm_zuc".to_string());
    let want = wanted.split(',').any(|c| c == crate_name) && is_lib && !is_test;
    if want {
        rustc_driver::run_compiler(&args, &mut Extract);
    } else {
        rustc_driver::run_compiler(&args, &mut Plain);
    }
}
