#!/usr/bin/env python3
"""Authoring tool: cached fact sets for every stored change (seeded = must alarm, benign = must stay silent) and a fast
evaluation of all checks against them.   corpus.py build | eval [ids..] | show <id>
Nothing registered in MANIFEST.json uses this; the caches live under /tmp/corpus."""
import glob, json, os, re, shutil, subprocess, sys, tempfile
from concurrent.futures import ProcessPoolExecutor
sys.path.insert(0, '/verif')
from gmv import core
ROOT = '/tmp/corpus'
# evaluation runs from a snapshot of the checker, so that gmv/ can be edited while a long evaluation is running
CHECK = '/tmp/corpus/snap/check' if os.path.exists('/tmp/corpus/snap/check') and os.environ.get('GMV_USE_SNAP') else '/verif/check'


def items():
    out = []
    for d in sorted(glob.glob('/verif/seeded/C*')):
        out.append(('S-' + os.path.basename(d), d + '/patch.diff', 'seeded', os.path.basename(d)[:3]))
    for d in sorted(glob.glob('/tmp/w3out/C*/[EF]')) + sorted(glob.glob('/tmp/w4out/C*/[GH]')) + sorted(glob.glob('/tmp/w5out/C*/[IJ]')) + sorted(glob.glob('/tmp/w6out/C*/[KL]')) + sorted(glob.glob('/tmp/w7out/C*/[MN]')) + sorted(glob.glob('/tmp/w8out/C*/[PQ]')) + sorted(glob.glob('/tmp/w9out/C*/[ST]')):
        k = 'W-%s%s' % (os.path.basename(os.path.dirname(d)), os.path.basename(d))
        if os.path.exists(d + '/patch.diff') and not os.path.exists('/verif/seeded/' + k[2:]):
            out.append((k, d + '/patch.diff', 'seeded', os.path.basename(os.path.dirname(d))))
    for d in sorted(glob.glob('/verif/benign/C*/[0-9]')) + sorted(glob.glob('/tmp/benign/C*/[0-9]')):
        k = 'B-%s-%s' % (os.path.basename(os.path.dirname(d)), os.path.basename(d))
        if not any(x[0] == k for x in out):
            out.append((k, d + '/patch.diff', 'benign', os.path.basename(os.path.dirname(d))))
    for d in sorted(glob.glob('/verif/benign2/C*/[0-9]')) + sorted(glob.glob('/tmp/benign2/C*/[0-9]')):
        k = 'H-%s-%s' % (os.path.basename(os.path.dirname(d)), os.path.basename(d))
        if not any(x[0] == k for x in out) and os.path.exists(d + '/patch.diff'):
            out.append((k, d + '/patch.diff', 'benign', os.path.basename(os.path.dirname(d))))
    for d in sorted(glob.glob('/verif/benign3/C*/[0-9]')) + sorted(glob.glob('/tmp/benign3/C*/[0-9]')):
        k = 'N-%s-%s' % (os.path.basename(os.path.dirname(d)), os.path.basename(d))
        if not any(x[0] == k for x in out) and os.path.exists(d + '/patch.diff'):
            out.append((k, d + '/patch.diff', 'benign', os.path.basename(os.path.dirname(d))))
    for d in sorted(glob.glob('/verif/benign4/C*/[0-9]')) + sorted(glob.glob('/tmp/benign4/C*/[0-9]')):
        k = 'M-%s-%s' % (os.path.basename(os.path.dirname(d)), os.path.basename(d))
        if not any(x[0] == k for x in out) and os.path.exists(d + '/patch.diff'):
            out.append((k, d + '/patch.diff', 'benign', os.path.basename(os.path.dirname(d))))
    for d in sorted(glob.glob('/verif/benign5/C*/[0-9]')) + sorted(glob.glob('/tmp/benign5/C*/[0-9]')):
        k = 'Q-%s-%s' % (os.path.basename(os.path.dirname(d)), os.path.basename(d))
        if not any(x[0] == k for x in out) and os.path.exists(d + '/patch.diff'):
            out.append((k, d + '/patch.diff', 'benign', os.path.basename(os.path.dirname(d))))
    for d in sorted(glob.glob('/verif/benign6/C*/[0-9]')) + sorted(glob.glob('/tmp/benign6/C*/[0-9]')):
        k = 'R-%s-%s' % (os.path.basename(os.path.dirname(d)), os.path.basename(d))
        if not any(x[0] == k for x in out) and os.path.exists(d + '/patch.diff'):
            out.append((k, d + '/patch.diff', 'benign', os.path.basename(os.path.dirname(d))))
    for d in sorted(glob.glob('/verif/benign7/C*/[0-9]')) + sorted(glob.glob('/tmp/benign7/C*/[0-9]')):
        k = 'U-%s-%s' % (os.path.basename(os.path.dirname(d)), os.path.basename(d))
        if not any(x[0] == k for x in out) and os.path.exists(d + '/patch.diff'):
            out.append((k, d + '/patch.diff', 'benign', os.path.basename(os.path.dirname(d))))
    return out


def build_one(args):
    k, patch, kind, prop, slot = args
    fdir = os.path.join(ROOT, 'facts', k)
    head = subprocess.run('git -C /repo rev-parse HEAD', shell=True, stdout=subprocess.PIPE, text=True).stdout.strip()
    stamp = os.path.join(fdir, 'COMPLETE')
    sig = head + ':' + str(os.path.getmtime(patch)) + ':' + str(os.path.getmtime(core.DRIVER))
    if os.path.exists(stamp) and open(stamp).read() == sig:
        return k, 'cached'
    tmp = tempfile.mkdtemp(prefix='gmv-corpus-')
    try:
        copy = os.path.join(tmp, 'repo')
        os.makedirs(copy)
        subprocess.run('git -C /repo archive HEAD | tar -x -C %s' % copy, shell=True, check=True)
        r = subprocess.run(['git', 'apply', patch], cwd=copy, stdout=subprocess.PIPE, stderr=subprocess.STDOUT, text=True)
        if r.returncode != 0:
            return k, 'PATCH-FAILED'
        if os.path.isdir(fdir):
            shutil.rmtree(fdir)
        try:
            core.extract(copy, fdir, os.path.join(ROOT, 'target_%d' % slot))
        except SystemExit:
            return k, 'BUILD-FAILED'
        open(stamp, 'w').write(sig)
        return k, 'built'
    finally:
        shutil.rmtree(tmp, ignore_errors=True)


def check_one(args):
    k, prop, fdir = args
    o = subprocess.run([CHECK, prop, '--facts', fdir], stdout=subprocess.PIPE, stderr=subprocess.STDOUT, text=True,
                       env=dict(os.environ, GMV_NO_EVIDENCE='1'))
    viol = [l for l in o.stdout.splitlines() if l.startswith(('VIOLATED', 'ANCHOR-LOST', 'ERROR', 'Traceback'))]
    return k, prop, o.returncode, viol[:8]


def main():
    if (sys.argv[1] if len(sys.argv) > 1 else 'eval') == 'eval' and '--live' not in sys.argv and not os.environ.get('GMV_USE_SNAP'):
        shutil.rmtree(ROOT + '/snap', ignore_errors=True)
        os.makedirs(ROOT + '/snap')
        for n in ('check', 'gmv', 'spec', 'known_findings.json'):
            (shutil.copytree if os.path.isdir('/verif/' + n) else shutil.copy2)('/verif/' + n, ROOT + '/snap/' + n)
        os.environ['GMV_USE_SNAP'] = '1'
        os.execv(sys.executable, [sys.executable] + sys.argv)
    cmd = sys.argv[1] if len(sys.argv) > 1 else 'eval'
    its = items()
    sel = [a for a in sys.argv[2:] if not a.startswith('-')]
    if sel:
        its = [x for x in its if any(x[0] == s or x[0].startswith(s) for s in sel)]
    os.makedirs(ROOT + '/facts', exist_ok=True)
    if cmd == 'build':
        NW = 6
        # one worker per target dir: a slot is only ever used by one process at a time
        from multiprocessing import Pool
        chunks = [[] for _ in range(NW)]
        for i, x in enumerate(its):
            chunks[i % NW].append(x + (i % NW,))
        def run_chunk(ch):
            return [build_one(a) for a in ch]
        with ProcessPoolExecutor(NW) as ex:
            for res in ex.map(_run_chunk, chunks):
                for k, st in res:
                    if st != 'cached':
                        print(k, st, flush=True)
        return
    props = ['C%02d' % i for i in range(1, 21)]
    if '--own' in sys.argv:
        jobs = [(k, prop, os.path.join(ROOT, 'facts', k)) for k, _, _, prop in its]
    else:
        jobs = [(k, p, os.path.join(ROOT, 'facts', k)) for k, _, _, _ in its for p in props]
    jobs = [j for j in jobs if os.path.exists(os.path.join(j[2], 'COMPLETE'))]
    res = {}
    with ProcessPoolExecutor(14) as ex:
        for k, prop, rc, viol in ex.map(check_one, jobs, chunksize=4):
            res.setdefault(k, {})[prop] = (rc, viol)
    kinds = {x[0]: (x[2], x[3]) for x in its}
    fa = miss = 0
    lines = []
    for k in sorted(res):
        kind, own = kinds[k]
        alarmed = sorted(p for p, (rc, v) in res[k].items() if rc != 0)
        if kind == 'benign':
            if alarmed:
                fa += 1
                lines.append('FALSE-ALARM %s: %s' % (k, ' '.join(alarmed)))
                if '-v' in sys.argv:
                    for p in alarmed:
                        for v in res[k][p][1][:4]:
                            lines.append('      %s %s' % (p, v[:230]))
        else:
            if own not in alarmed:
                miss += 1
                lines.append('MISS        %s: own check silent (alarmed: %s)' % (k, ' '.join(alarmed) or 'none'))
    print('\n'.join(lines))
    nb = sum(1 for k in res if kinds[k][0] == 'benign')
    ns = sum(1 for k in res if kinds[k][0] == 'seeded')
    print('benign: %d/%d false alarms; seeded: %d/%d missed by own check' % (fa, nb, miss, ns))
    json.dump({k: {p: rc for p, (rc, v) in r.items()} for k, r in res.items()}, open(ROOT + '/last_eval.json', 'w'))
    if not sel:
        import re as _re
        json.dump({k: {p: [(_re.match(r'^(?:VIOLATED|ANCHOR-LOST) (\S+)', l) or [None, l[:60]])[1] for l in v] for p, (rc, v) in r.items() if rc != 0} for k, r in res.items()},
                  open(ROOT + '/last_eval_detail.json', 'w'))


def _run_chunk(ch):
    return [build_one(a) for a in ch]


if __name__ == '__main__':
    main()
