#!/bin/sh
# Build the fact extractor and warm the dependency cache (offline).
set -e
cd "$(dirname "$0")"
export CARGO_NET_OFFLINE=true
(cd driver && cargo +nightly build --release --offline)
python3 - <<'PY'
import sys
sys.path.insert(0, '.')
from gmv import core
d, h = core.ensure_facts()
print('facts ready:', d)
PY
./check --selftest
