#!/usr/bin/env python3
"""Confirm a seeded change in a scratch worktree of /repo (current HEAD): it applies, the workspace builds, the 41
unit tests pass with it, its demonstration fails with it and passes without it.  Then store it under
/verif/seeded/<Cxx><v>/ with meta.json.   usage: confirm_seed.py C04 A"""
import json, os, re, shutil, subprocess, sys, glob
prop, var = sys.argv[1], sys.argv[2]
srcroot = '/tmp/seedout'
store_var = var
for a in sys.argv[3:]:
    if a.startswith('--src='):
        srcroot = a[6:]
    if a.startswith('--as='):
        store_var = a[5:]
src = '%s/%s/%s' % (srcroot, prop, var)
wt = '/tmp/cw/%s%s' % (prop, store_var)
def sh(c, cwd=None, timeout=3000):
    r = subprocess.run(c, shell=True, cwd=cwd, stdout=subprocess.PIPE, stderr=subprocess.STDOUT, text=True, timeout=timeout)
    return r.returncode, r.stdout
res = {'property': prop, 'variant': var}
patch = src + '/patch.diff'
alt = '/verif/seeded/%s%s/patch.diff' % (prop, store_var)
if os.path.exists(alt) and '--use-stored' in sys.argv:
    patch = alt
sh('git -C /repo worktree remove --force %s' % wt)
rc, o = sh('git -C /repo worktree add --detach %s HEAD' % wt)
try:
    rc, o = sh('git apply %s' % patch, cwd=wt)
    mode = 'apply'
    if rc != 0:
        rc, o = sh('git apply --3way %s' % patch, cwd=wt)
        mode = '3way'
    res['apply'] = mode if rc == 0 else 'FAILED'
    if rc != 0:
        print(json.dumps(res)); sys.exit(1)
    rc, diff = sh('git diff HEAD', cwd=wt)
    env = 'CARGO_TARGET_DIR=%s/target CARGO_NET_OFFLINE=true ' % wt
    rc, o = sh(env + 'cargo test --workspace --no-fail-fast --offline --lib 2>&1 | grep -E "^test result|FAILED|^error"', cwd=wt)
    passed = sum(int(x) for x in re.findall(r'ok\. (\d+) passed', o))
    res['suite_with_change'] = '%d passed%s' % (passed, '' if 'FAILED' not in o and 'error' not in o else ' WITH FAILURES')
    notes = open(src + '/notes.md').read() if os.path.exists(src + '/notes.md') else ''
    demo_path = None
    if os.path.exists(src + '/demo_test.rs'):
        m = re.search(r'(gm-[a-z0-9]+/tests/[A-Za-z0-9_]+\.rs)', notes)
        demo_path = m.group(1) if m else 'gm-%s/tests/demo_%s%s.rs' % ({'C01': 'sm3', 'C02': 'sm4', 'C07': 'sm4', 'C08': 'zuc', 'C18': 'zuc'}.get(prop, 'sm2'), prop.lower(), var.lower())
        os.makedirs(os.path.dirname(os.path.join(wt, demo_path)), exist_ok=True)
        shutil.copy(src + '/demo_test.rs', os.path.join(wt, demo_path))
        crate = demo_path.split('/')[0]
        tname = os.path.basename(demo_path)[:-3]
        demo_cmd = 'cargo test -p %s --test %s --offline' % (crate, tname)
    elif os.path.exists(src + '/demo.diff'):
        rc, o = sh('git apply %s' % (src + '/demo.diff'), cwd=wt)
        if rc != 0:
            rc, o = sh('git apply --3way %s' % (src + '/demo.diff'), cwd=wt)
        res['demo_apply'] = rc == 0
        m = re.search(r'\+\+\+ b/(gm-[a-z0-9]+)/src/(\w+)\.rs', open(src + '/demo.diff').read())
        crate = re.search(r'b/(gm-[a-z0-9]+)/', open(src + '/demo.diff').read()).group(1)
        mods = re.findall(r'\+\s*(?:#\[cfg\(test\)\]\s*)?mod (\w+)', open(src + '/demo.diff').read())
        filt = mods[0] if mods else 'demo'
        demo_cmd = 'cargo test -p %s --lib --offline %s' % (crate, filt)
    else:
        res['demo'] = 'MISSING'
        print(json.dumps(res)); sys.exit(1)
    rc1, o1 = sh(env + demo_cmd, cwd=wt)
    res['demo_with_change'] = 'fails' if rc1 != 0 else 'PASSES'
    res['demo_with_change_tail'] = [l for l in o1.splitlines() if 'test result' in l or 'panicked' in l or 'error' in l][:4]
    # undo the source change only
    files = re.findall(r'^\+\+\+ b/(\S+)', open(patch).read(), re.M)
    for f in files:
        sh('git checkout HEAD -- %s' % f, cwd=wt)
    rc2, o2 = sh(env + demo_cmd, cwd=wt)
    res['demo_without_change'] = 'passes' if rc2 == 0 else 'FAILS'
    res['demo_without_change_tail'] = [l for l in o2.splitlines() if 'test result' in l or 'panicked' in l][:4]
    res['demo_cmd'] = demo_cmd
    ok = res['suite_with_change'].startswith('41 passed') and 'FAILURES' not in res['suite_with_change'] and rc1 != 0 and rc2 == 0
    res['confirmed'] = ok
    out = '/verif/seeded/%s%s' % (prop, store_var)
    os.makedirs(out, exist_ok=True)
    ptxt = diff if mode == '3way' else open(patch, newline='').read()   # read BEFORE opening the target (they may be the same file)
    assert ptxt.strip(), 'empty patch'
    open(out + '/patch.diff', 'w', newline='').write(ptxt)
    if os.path.exists(src + '/demo_test.rs'):
        shutil.copy(src + '/demo_test.rs', out + '/demo_test.rs')
    if os.path.exists(src + '/demo.diff'):
        shutil.copy(src + '/demo.diff', out + '/demo.diff')
    if os.path.exists(src + '/notes.md'):
        shutil.copy(src + '/notes.md', out + '/notes.md')
    meta = {'property': prop, 'variant': store_var, 'wave': 2 if srcroot.endswith('2') else 1, 'breaks': None, 'needs_to_manifest': None, 'demo_location': demo_path,
            'confirmed_on': sh('git -C /repo log --format=%h -n1')[1].strip(), 'confirmation': res}
    json.dump(meta, open(out + '/meta.json', 'w'), indent=1)
    print(json.dumps(res))
finally:
    sh('git -C /repo worktree remove --force %s' % wt)
    shutil.rmtree(wt, ignore_errors=True)
