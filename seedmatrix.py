#!/usr/bin/env python3
"""run every stored seeded change through all 20 checks; record caught_by in meta.json; print the matrix"""
import glob, json, os, re, subprocess
rows = []
for d in sorted(glob.glob('/verif/seeded/C*')):
    p = d + '/patch.diff'
    r = subprocess.run(['/verif/seedrun.py', p], stdout=subprocess.PIPE, stderr=subprocess.STDOUT, text=True)
    caught = re.findall(r'^CAUGHT-BY: (.*) \(mode', r.stdout, re.M)
    by = caught[0].split() if caught and caught[0] != 'none' else []
    viol = {}
    cur = None
    for l in r.stdout.splitlines():
        m = re.match(r'^(C\d+) rc=', l)
        if m:
            cur = m.group(1); viol[cur] = []
        elif l.startswith('    ') and cur:
            k = re.match(r'^\s+(VIOLATED|ANCHOR-LOST) (\S+)', l)
            if k:
                viol[cur].append(k.group(2))
    meta = json.load(open(d + '/meta.json'))
    meta['caught_by'] = by
    meta['violations_reported'] = {k: v[:4] for k, v in viol.items()}
    json.dump(meta, open(d + '/meta.json', 'w'), indent=1)
    rows.append((os.path.basename(d), by))
    print(os.path.basename(d), ' '.join(by) or 'NONE', flush=True)
