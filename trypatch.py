#!/usr/bin/env python3
"""Apply a patch to a scratch export of /repo's HEAD (never /repo itself), extract facts for it, run checks on those
facts.  usage: trypatch.py <patch.diff> [Cxx ...]      (authoring tool; safe to run concurrently)"""
import os, re, shutil, subprocess, sys, tempfile
sys.path.insert(0, '/verif')
from gmv import core
patch = os.path.abspath(sys.argv[1])
props = sys.argv[2:] or ['C%02d' % i for i in range(1, 21)]
tmp = tempfile.mkdtemp(prefix='gmv-try-')
try:
    copy = os.path.join(tmp, 'repo')
    os.makedirs(copy)
    subprocess.run('git -C /repo archive HEAD | tar -x -C %s' % copy, shell=True, check=True)
    r = subprocess.run(['git', 'apply', patch], cwd=copy, stdout=subprocess.PIPE, stderr=subprocess.STDOUT, text=True)
    if r.returncode != 0:
        print('PATCH-FAILED', r.stdout[-400:])
        sys.exit(3)
    try:
        fdir, _ = core.ensure_facts(copy)
    except SystemExit:
        print('BUILD-FAILED')
        sys.exit(4)
    print('FACTS', fdir)
    caught = []
    for p in props:
        o = subprocess.run(['/verif/check', p, '--facts', fdir], stdout=subprocess.PIPE, stderr=subprocess.STDOUT, text=True, env=dict(os.environ, GMV_NO_EVIDENCE='1'))
        viol = [l for l in o.stdout.splitlines() if l.startswith(('VIOLATED', 'ANCHOR-LOST', 'ERROR'))]
        if o.returncode != 0:
            caught.append(p)
            print('%s rc=%d' % (p, o.returncode))
            for v in viol[:6]:
                print('    ' + v[:300])
    print('CAUGHT-BY:', ' '.join(caught) or 'none')
finally:
    shutil.rmtree(tmp, ignore_errors=True)
