#!/usr/bin/env python3
"""Regenerates MANIFEST.json from gmv/props/*.py docstrings + the tables below (keeps it schema-valid)."""
import json, os, glob
HERE = os.path.dirname(os.path.abspath(__file__))
PROPS = sorted(os.path.basename(p)[:-3] for p in glob.glob(os.path.join(HERE, 'gmv', 'props', 'C*.py')))
ALL = [json.loads(l)['id'] for l in open(os.path.join(HERE, 'properties.jsonl'))]
TECH = json.load(open(os.path.join(HERE, 'manifest_notes.json')))
checks = []
for p in PROPS:
    t = TECH.get(p, {})
    checks.append({
        'property_id': p,
        'quick_cmd': './check %s' % p,
        'thorough_cmd': './check %s --tier thorough' % p,
        'evidence_file': '/verif/evidence/%s.json' % p,
        'replay_cmd_template': './check %s --explain {path}' % p,
        'engine': 'gmv',
        'level_claimed': {
            'category': 'other',
            'text': t.get('text', 'Static analysis of the structural clauses of the property (see level_note); the functional core is not decided.'),
            'design_ref': 'DESIGN.md section 4 (%s)' % p,
        },
        'level_note': t.get('note', 'Trusted: rustc nightly MIR and callee resolution, Python big integers, spec/params.json (self-validated against published vectors), reviewed tables in gmv/.'),
        'technique': t.get('technique', 'static analysis: MIR dataflow/dominance rules + exact constant evaluation'),
    })
na = [{'property_id': p, 'reason': TECH.get(p, {}).get('na', 'check not built yet in this session; planned per DESIGN.md section 4')} for p in ALL if p not in PROPS]
m = {
    'version': 1,
    'setup_cmd': 'cd /verif && ./setup.sh',
    'hooks': {
        'guard': 'gm_rs_verif',
        'enable': 'none needed: static analysis reads the type-checked program; no instrumentation is compiled into /repo',
        'baseline_off_cmd': 'cd /repo && cargo test --workspace --no-fail-fast --offline --lib',
        'source_commits': [],
        'add_only': True,
    },
    'engines': [
        {'name': 'driver', 'path': 'driver/', 'serves_properties': PROPS, 'kind_free_text': 'rustc_private MIR + evaluated-constant fact extractor (RUSTC_WORKSPACE_WRAPPER under cargo +nightly check)'},
        {'name': 'gmv', 'path': 'gmv/', 'serves_properties': PROPS, 'kind_free_text': 'Python rule library over the MIR facts: constants (K), guards/dominance (G), length/panic dataflow (L), randomness provenance (R), framing (F), effects (P), sibling agreement (S), dead pure results (D), canonical operands (T), algorithm-constant inventory (I)'},
        {'name': 'paramalg', 'path': 'gmv/paramalg.py', 'serves_properties': [p for p in PROPS], 'kind_free_text': 'independent big-integer derivation of every hard-coded constant/table from spec/params.json'},
    ],
    'checks': checks,
    'not_applicable': na,
    'notes': 'All verdicts are computed from /repo\'s current working tree without executing gm-rs code. See DESIGN.md.',
}
json.dump(m, open(os.path.join(HERE, 'MANIFEST.json'), 'w'), indent=1)
print('MANIFEST: %d checks, %d not_applicable' % (len(checks), len(na)))
