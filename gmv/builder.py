"""F — framing: reconstruct the ordered sequence of appends to a Vec<u8> that
reaches an anchored use (hash / KDF / MAC preimage, returned ciphertext)."""
from .prov import Prov, E, norm, strip, is_transparent, last, fn_is

APPEND = {
    'extend_from_slice': 'bytes',
    'push': 'byte',
    'append': 'bytes',
    'write_u8': 'u8', 'write_u16': 'u16', 'write_u32': 'u32', 'write_u64': 'u64',
    'write_all': 'bytes', 'extend': 'bytes',
}
OTHER_MUT = ('insert', 'resize', 'truncate', 'clear', 'remove', 'pop', 'swap_remove', 'drain', 'retain', 'set_len',
             'copy_from_slice', 'clone_from_slice', 'fill', 'reverse', 'sort')


def root_local(P, op, b, i, depth=0):
    """local that owns the object an operand refers to (through refs, derefs, copies, transparent calls)"""
    if op['k'] not in ('copy', 'move'):
        return None
    fn = P.fn
    l = op['pl']['l']
    for _ in range(200):
        rs = P.reaching(l, b, i)
        if len(rs) != 1 or rs[0] is None or rs[0] == 'IN':
            return l
        db, di = rs[0]
        if di == -1:
            t = fn.blocks[db]['term']
            c = t['fn']
            owning_copy = last(c['name']) in ('to_vec', 'to_owned', 'clone', 'into_vec', 'into_boxed_slice') and 'Vec<' in (fn.local_ty(t['dest']['l']) or '')
            if c['k'] == 'def' and not owning_copy and (is_transparent(c['name']) or last(c['name']) in ('deref_mut', 'as_mut', 'borrow_mut', 'index_mut', 'by_ref')) \
                    and t['args'] and t['args'][0]['k'] in ('copy', 'move'):
                l = t['args'][0]['pl']['l']
                b, i = db, len(fn.blocks[db]['stmts'])
                continue
            # x[..] : indexing with RangeFull is the identity view
            if c['k'] == 'def' and last(c['name']) in ('index', 'index_mut') and len(t['args']) == 2 \
                    and t['args'][0]['k'] in ('copy', 'move') and t['args'][1]['k'] in ('copy', 'move', 'const'):
                a1 = t['args'][1]
                ty1 = fn.local_ty(a1['pl']['l']) if a1['k'] != 'const' else a1['c'].get('ty', '')
                if 'RangeFull' in ty1:
                    l = t['args'][0]['pl']['l']
                    b, i = db, len(fn.blocks[db]['stmts'])
                    continue
            return l
        rv = fn.blocks[db]['stmts'][di]['rv']
        if rv['k'] == 'use' and rv['op']['k'] in ('copy', 'move'):
            l = rv['op']['pl']['l']
        elif rv['k'] in ('ref', 'rawptr'):
            l = rv['pl']['l']
        elif rv['k'] == 'cast' and rv['op']['k'] in ('copy', 'move'):
            l = rv['op']['pl']['l']
        else:
            return l
        b, i = db, di
    return l


class Append:
    def __init__(self, block, kind, elem, callee, in_loop):
        self.block = block
        self.kind = kind
        self.elem = elem
        self.callee = callee
        self.in_loop = in_loop


def appends(fn, P, L, creation_block=None):
    """all mutations of Vec local L through &mut borrows, in dominance order; an append is `in_loop` when a
    cycle through its block avoids the block that creates the vector (so it may run several times per vector)"""
    class _Loops:
        def __contains__(self, b):
            rb = {creation_block} if creation_block is not None and creation_block != b else set()
            for s_ in fn.succ(b):
                if s_ in rb:
                    continue
                if b in fn.reachable(s_, removed_blocks=rb) :
                    return True
            return False
    loops = _Loops()
    out = []
    for b, t in fn.calls():
        if not t['args'] or t['fn']['k'] != 'def':
            continue
        a0 = t['args'][0]
        if a0['k'] not in ('copy', 'move'):
            continue
        ty = fn.local_ty(a0['pl']['l'])
        if not ty.startswith('&mut '):
            continue
        n = len(fn.blocks[b]['stmts'])
        if root_local(P, a0, b, n) != L:
            continue
        ln = last(t['fn']['name'])
        elems = [norm(P.operand(a, b, n)) for a in t['args'][1:]]
        if ln in APPEND:
            el0 = strip(elems[0]) if elems else None
            bt = be_call_type(el0) if el0 is not None else None
            if bt and bt[0] == 'to' and APPEND[ln] == 'bytes' and el0.args:
                arr = E('aggr', 'array', [be_byte(el0.args[0], bt[1], kk) for kk in range(bt[2])], c={'akind': 'array'})
                ap_ = Append(b, 'bytesplit', arr, 'push', b in loops)
                ap_.orig = elems[0]
                out.append(ap_)
                continue
            kind_ = APPEND[ln]
            if ln in ('write_u16', 'write_u32', 'write_u64'):
                # byteorder: the byte order is the second generic argument
                g_ = t['fn'].get('generic') or ''
                kind_ = ('be:' if 'BigEndian' in g_ else 'le:' if 'LittleEndian' in g_ else '?e:') + kind_
            out.append(Append(b, kind_, elems[0] if elems else None, t['fn']['name'], b in loops))
        else:
            ap_ = Append(b, 'other:' + ln, elems[0] if elems else None, t['fn']['name'], b in loops)
            ap_.elems = elems
            if ln == 'index_mut' and elems and 'Range' not in (strip(elems[0]).ty or '') and not (strip(elems[0]).k == 'aggr'):
                # `v[i] = x`: the element store through the reference index_mut returns (first statement using it)
                d_ = t.get('dest')
                tgt_ = t.get('target')
                if d_ is not None and not d_['p'] and tgt_ is not None:
                    for i2, st2 in enumerate(fn.blocks[tgt_]['stmts']):
                        if st2['k'] == 'assign' and st2['lhs']['l'] == d_['l'] and st2['lhs']['p'] == ['deref']:
                            ap_ = Append(b, 'setelem', elems[0], t['fn']['name'], b in loops)
                            ap_.elems = elems
                            ap_.value = norm(P.rvalue(st2['rv'], tgt_, i2, 0))
                            break
            out.append(ap_)
    dom = fn.dominators()
    out.sort(key=lambda a: (len(dom.get(a.block, ())), a.block))
    return out


def sequence_for(fn, P, op, b, i):
    """(creation expr, [Append...]) for the Vec an operand refers to; None if the operand is not a local Vec"""
    L = root_local(P, op, b, i)
    if L is None:
        return None, None, []
    ty = fn.local_ty(L)
    if 'Vec<u8>' not in ty:
        return L, None, []
    creation = norm(P.local(L, b, i))
    cb = strip(creation).site[0] if strip(creation).site else None
    seq = appends(fn, P, L, cb)
    # only appends that dominate the use site
    dom = fn.dominators()
    use_dom = dom.get(b, set())
    seq = [a for a in seq if a.block in use_dom or a.in_loop]
    return L, creation, seq


INTW = {'u8': 1, 'u16': 2, 'u32': 4, 'u64': 8, 'u128': 16, 'usize': 8}


def be_call_type(e):
    """('to'|'from', type, width) for a call of uN::to_be_bytes / uN::from_be_bytes"""
    import re as _re
    if e.k != 'call' or last(e.name or '') not in ('to_be_bytes', 'from_be_bytes'):
        return None
    m = _re.search(r'<impl (u16|u32|u64|u128|usize)>', e.name or '')
    if not m:
        return None
    return ('to' if last(e.name) == 'to_be_bytes' else 'from', m.group(1), INTW[m.group(1)])


def be_byte(x, ty, k):
    """byte k (0 = most significant) of the big-endian encoding of x, in the shift form the hand-written code uses"""
    n = INTW[ty]
    sh = 8 * (n - 1 - k)
    inner = x if sh == 0 else E('binop', 'Shr', [x, E('const', c={'k': 'int', 'bits': str(sh), 'ty': 'i32', 'size': 4}, ty='i32')], ty=ty)
    return E('cast', 'IntToInt', [inner], ty='u8', c={'from_ty': ty})


_ITEM_VOCAB = None


def _item_vocab():
    global _ITEM_VOCAB
    if _ITEM_VOCAB is None:
        import json as _json, os as _os
        p_ = _os.path.join(_os.path.dirname(_os.path.abspath(__file__)), 'baseline_items.json')
        _ITEM_VOCAB = set(_json.load(open(p_))) if _os.path.exists(p_) else set()
    return _ITEM_VOCAB


class Canon:
    """canonical, idiom-insensitive rendering of provenance expressions; Vec<u8> builders are rendered as
    the list of their appended elements; sampler calls are numbered by call site (rand#1, rand#2, ...)"""
    SAMPLERS = ('random_u256', 'sm9_random_u256', 'fn_random_u256', 'fp_random_u256')
    ABBREV = {'to_byte_be': 'BE', 'to_bytes_be': 'BE', 'u256_to_be_bytes': 'BE', 'fp_from_mont': 'plain',
              'u256_from_be_bytes': 'INT', 'from_byte_be': 'INT'}

    def __init__(self, fn, P):
        self.fn = fn
        self.P = P
        self.rand = {}
        self.depth = 0
        self.commut = set()   # callee last-names whose arguments are rendered in sorted order
        self.bare = set()     # names of params / mutated locals rendered as the bare name

    def builder_of(self, site, argi):
        b, _ = site
        t = self.fn.blocks[b]['term']
        if argi >= len(t['args']):
            return None
        op = t['args'][argi]
        n = len(self.fn.blocks[b]['stmts'])
        L, creation, seq = sequence_for(self.fn, self.P, op, b, n)
        if creation is None or L is None:
            return None
        cr = strip(creation)
        if not (cr.k == 'call' and last(cr.name) in ('new', 'with_capacity', 'from_elem')) and not seq:
            return None
        if any(a.kind in ('other:copy_from_slice', 'other:clone_from_slice') for a in seq):
            tr = self.tracked_tail(b, creation, seq)
            if tr is not None:
                return creation, tr
        return creation, seq

    def tracked_tail(self, use_block, creation, seq):
        """A buffer `prefix || BE(v)` that is built once and whose tail is rewritten in place whenever it is needed
        (`buf[len(prefix)..].copy_from_slice(&v.to_be_bytes())`) holds `prefix || BE(current v)` at a use when
          * every write of the tail (the initial append and each overwrite) stores BE of the same variable v, at an offset
            equal to the length of the prefix and with the length of the tail, and
          * no assignment to v can reach the use without passing through a write of the tail again.
        Then the sequence at the use is the one a freshly built `prefix || BE(v)` would have.  Returns that sequence or None."""
        fn, P = self.fn, self.P
        plain = [a for a in seq if not a.kind.startswith('other:')]
        others = [a for a in seq if a.kind.startswith('other:')]
        if any(a.kind not in ('other:index_mut', 'other:copy_from_slice', 'other:clone_from_slice') for a in others):
            return None
        if not plain or any(a.in_loop for a in plain):
            return None
        tail0 = plain[-1]
        if tail0.kind != 'bytesplit':
            return None
        bt = be_call_type(strip(tail0.orig))
        if not bt:
            return None
        width = bt[2]
        prefix = plain[:-1]
        cr = strip(creation)
        pre_txt = self.seq(creation, prefix) if prefix or cr.k != 'param' else [self.c(cr)]
        # length of the prefix, as the text a bound would have
        def length_of(el):
            if el.startswith('INIT:to_vec(') and el.endswith(')'):
                return 'len(%s)' % el[len('INIT:to_vec('):-1]
            if el.startswith('$') and all(ch.isalnum() or ch in '_$.' for ch in el):
                return 'len(%s)' % el
            return None
        lens = [length_of(x) for x in pre_txt]
        if len(lens) != 1 or lens[0] is None:
            return None
        off_txt = lens[0]
        # the variable whose big-endian bytes form the tail
        def be_arg(e):
            e = strip(e)
            b_ = be_call_type(e)
            return e.args[0] if (b_ and b_[0] == 'to' and b_[2] == width and e.args) else None
        writes = [(tail0.block, tail0.orig)]
        ims = [a for a in others if a.kind == 'other:index_mut']
        cps = [a for a in others if a.kind != 'other:index_mut']
        if len(ims) != len(cps) or not cps:
            return None
        for a in ims:
            r = strip(a.elem) if a.elem is not None else None
            if r is None or not (r.k == 'aggr' and r.name == 'RangeFrom::RangeFrom' and self.bound(r.args[0]) == off_txt):
                return None
        for a in cps:
            if be_arg(a.elem) is None:
                return None
            writes.append((a.block, a.elem))
        var = None
        for l, info in enumerate(fn.locals):
            if not info.get('name') or l <= fn.arg_count:
                continue
            ok = True
            for wb, we in writes:
                cur = self.c(norm(P.local(l, wb, len(fn.blocks[wb]['stmts']))))
                if cur != self.c(be_arg(we)):
                    ok = False
                    break
            if ok:
                var = l
                break
        if var is None:
            return None
        wblocks = {wb for wb, _ in writes}
        # no assignment to v reaches the use without a fresh write of the tail
        for (db, di, kind) in P.defs.get(var, []):
            t = fn.blocks[db]['term']
            if db in wblocks:
                # the block ends with a write of the tail: the assignment inside it precedes that write
                continue
            if db == use_block:
                return None
            r = set()
            for s_ in fn.succ(db):
                if s_ in wblocks:
                    continue
                r |= fn.reachable(s_, removed_blocks=wblocks)
            if use_block in r:
                return None
        # and the use is reached only after some write
        if use_block in fn.reachable(0, removed_blocks=wblocks):
            return None
        src = strip(tail0.orig)
        cur_v = norm(P.local(var, use_block, len(fn.blocks[use_block]['stmts'])))
        orig = E('call', src.name, [cur_v], ty=src.ty, c=src.c)
        arr = E('aggr', 'array', [be_byte(cur_v, bt[1], kk) for kk in range(width)], c={'akind': 'array'})
        ap = Append(use_block, 'bytesplit', arr, 'push', False)
        ap.orig = orig
        return prefix + [ap]

    # ---- range bounds in linear normal form ------------------------------------------------------------------------
    def _store_label(self, b, i):
        fn, P = self.fn, self.P
        bl = fn.blocks[b]
        if i >= len(bl['stmts']):
            return 'call:' + last(bl['term']['fn'].get('name') or '?')
        for q in bl['stmts'][i]['lhs']['p']:
            if isinstance(q, dict) and 'cidx' in q:
                return '[%s%d]' % ('-' if q.get('from_end') else '', q['cidx'])
            if isinstance(q, dict) and 'idx' in q:
                return '[%s]' % self.c(norm(P.local(q['idx'], b, i)))
            if isinstance(q, dict) and 'subslice' in q:
                return '[..]'
        return '?'

    def version(self, e):
        """suffix naming the memory version an element read sees: `#{E|[0]|[each(..)]|call:f}` -- E is the object as created,
        assigned as a whole or passed in, `[i]` the element store at index i, `call:f` a call holding `&mut` to the object
        (each the latest such event on some path to the read).  When several stores of the object carry the same label they
        are numbered in program order (`[1]'2`).  Reads of objects never written element-wise here carry no suffix."""
        rs = e.c.get('reach') if isinstance(e.c, dict) else None
        return self.version_of(rs, e)

    def version_of(self, rs, e=None):
        if not rs:
            return ''
        fn, P = self.fn, self.P
        if not hasattr(self, '_vlabels'):
            dom = fn.dominators()
            groups = {}
            for s_ in P.elem_stores():
                if s_[4]:
                    continue
                groups.setdefault((s_[2], self._store_label(s_[0], s_[1])), []).append((len(dom.get(s_[0], ())), s_[0], s_[1]))
            self._vlabels = {}
            for (root_, lab_), sites_ in groups.items():
                sites_.sort()
                for n_, (_, b_, i_) in enumerate(sites_):
                    self._vlabels[(b_, i_)] = lab_ if len(sites_) == 1 else "%s'%d" % (lab_, n_ + 1)
        labs = set()
        for r in rs:
            if r != 'E' and e is not None and self._never_aliases(e, r):
                continue
            labs.add('E' if r == 'E' else self._vlabels.get(tuple(r), self._store_label(*r)))
        if labs <= {'E'}:
            return ''
        return '#{%s}' % '|'.join(sorted(labs))

    def _loop_counter(self, e):
        """(site of the `next()` call, E of the range) when e is the element of an ascending `for i in lo..hi`"""
        e = strip(e)
        if e.k == 'field' and e.name == '0' and e.args:
            inner = strip(e.args[0])
            if inner.k == 'field' and inner.name == 'as Some' and inner.args:
                src = strip(inner.args[0])
                if src.k == 'call' and last(src.name) == 'next' and src.args:
                    it = strip(src.args[0])
                    while it.k == 'call' and last(it.name) in ('into_iter', 'by_ref') and it.args:
                        it = strip(it.args[0])
                    if it.k == 'aggr' and it.name == 'Range::Range':
                        return ((src.c or {}).get('header') if isinstance(src.c, dict) and 'header' in src.c else src.site, it)
        return None

    def _never_aliases(self, rd, site):
        """`x[i] = ..` inside `for i in lo..hi` never writes the element `x[i + c]` (c >= 1) read in the same loop: earlier
        iterations wrote indices below i, this iteration writes index i"""
        from .prov import const_int
        fn, P = self.fn, self.P
        b, i = site
        if i >= len(fn.blocks[b]['stmts']) or len(rd.args) < 2:
            return False
        q = [q for q in fn.blocks[b]['stmts'][i]['lhs']['p'] if isinstance(q, dict) and 'idx' in q]
        if not q:
            return False
        sd = self._loop_counter(norm(P.local(q[0]['idx'], b, i)))
        if sd is None or sd[0] is None:
            return False
        r = strip(rd.args[1])
        if r.k == 'field' and r.name == '0' and r.args and strip(r.args[0]).k == 'binop':
            r = strip(r.args[0])
        if not (r.k == 'binop' and r.name in ('Add', 'AddWithOverflow') and len(r.args) == 2):
            return False
        c = const_int(strip(r.args[1]))
        rc = self._loop_counter(r.args[0])
        return c is not None and c >= 1 and rc is not None and rc[0] == sd[0] and self.c(rc[1]) == self.c(sd[1])

    def linear_of_text(self, s_, depth=0):
        """({atom text: coefficient}, constant) of a rendered integer expression built with checked + and -"""
        if s_.isdigit():
            return {}, int(s_)
        if s_.startswith('0x'):
            try:
                return {}, int(s_, 16)
            except ValueError:
                pass
        if s_.startswith(('SubWithOverflow(', 'AddWithOverflow(')) and s_.endswith(').0') and depth < 12:
            inner = s_[16:-3]
            parts, d, cur = [], 0, ''
            i = 0
            while i < len(inner):
                ch = inner[i]
                if ch in '([{':
                    d += 1
                elif ch in ')]}':
                    d -= 1
                if d == 0 and inner.startswith(', ', i):
                    parts.append(cur)
                    cur = ''
                    i += 2
                    continue
                cur += ch
                i += 1
            parts.append(cur)
            if len(parts) == 2 and d == 0:
                a, ca = self.linear_of_text(parts[0], depth + 1)
                b, cb = self.linear_of_text(parts[1], depth + 1)
                sg = 1 if s_.startswith('Add') else -1
                out = dict(a)
                for k_, v_ in b.items():
                    out[k_] = out.get(k_, 0) + sg * v_
                    if out[k_] == 0:
                        del out[k_]
                return out, ca + sg * cb
        return {s_: 1}, 0

    def bound(self, e):
        """a slice bound: sums and differences are collected (c1 + (len - c1 - 32) is len - 32); the usual shapes keep the
        text the compiler's checked arithmetic gives them.  The bound is rendered once and the linear form is read off the
        text, so nested bounds cost what they cost before."""
        plain = self.c(e)
        if not plain.startswith(('SubWithOverflow(', 'AddWithOverflow(')):
            return plain
        atoms, c = self.linear_of_text(plain)
        if not atoms:
            return str(c) if 0 <= c < 1 << 16 else (hex(c) if c >= 0 else str(c))
        if len(atoms) == 1 and list(atoms.values()) == [1]:
            a = list(atoms)[0]
            if c == 0:
                return a
            return '%sWithOverflow(%s, %d).0' % ('Add' if c > 0 else 'Sub', a, abs(c))
        # keep the original text when nothing was actually simplified (one + or - of two atoms)
        if len(atoms) == 2 and c == 0 and sorted(atoms.values()) == [-1, 1]:
            pos = [k_ for k_, v_ in atoms.items() if v_ == 1][0]
            neg = [k_ for k_, v_ in atoms.items() if v_ == -1][0]
            return 'SubWithOverflow(%s, %s).0' % (pos, neg)
        if len(atoms) == 2 and sorted(atoms.values()) == [1, 1] and c == 0:
            return plain
        terms = ' '.join('%+d*%s' % (v_, k_) for k_, v_ in sorted(atoms.items()))
        return 'lin(%s %+d)' % (terms, c)

    # ---- iterator elements in index form -------------------------------------------------------------------------
    def coll_len(self, x):
        """canonical length of a collection expression: the constant for arrays / constant sub-slices, else len(x)"""
        import re as _re
        from .prov import const_int
        xs = strip(x)
        m = _re.match(r'^(?:&(?:mut )?)*\[.*; (\d+)\]$', (xs.ty or '').strip())
        if m:
            return m.group(1)
        # producers of fixed-length vectors: one SM4 block (I-SM4 reverse-out pins the 16 output bytes)
        for y in xs.walk():
            if y.k == 'call' and y.name and y.name.endswith('<impl Sm4Cipher>::encrypt'):
                t_ = self.c(xs)
                if t_.startswith(('try(encrypt($self.cipher, ', 'encrypt($self.cipher, ', 'unwrap(encrypt($self.cipher, ')):
                    return '16'
                break
        if xs.k == 'call' and last(xs.name) in ('index', 'index_mut') and len(xs.args) == 2:
            r = strip(xs.args[1])
            if r.k == 'aggr' and r.name == 'RangeTo::RangeTo' and const_int(r.args[0]) is not None:
                return str(const_int(r.args[0]))
            if r.k == 'aggr' and r.name == 'Range::Range' and const_int(r.args[0]) is not None and const_int(r.args[1]) is not None:
                return str(const_int(r.args[1]) - const_int(r.args[0]))
        if xs.k == 'aggr' and xs.name == 'repeat':
            m = _re.match(r'^\[.*; (\d+)\]$', (xs.ty or '').strip())
            if m:
                return m.group(1)
        return 'len(%s)' % self.c(xs)

    def coll_base(self, x):
        """(canonical base, constant offset) of a collection that is a constant-start sub-slice x[a..] / x[a..b] / x[..b]"""
        from .prov import const_int
        xs = strip(x)
        if xs.k == 'call' and last(xs.name) in ('index', 'index_mut') and len(xs.args) == 2:
            r = strip(xs.args[1])
            if r.k == 'aggr' and r.name == 'RangeTo::RangeTo':
                return self.c(xs.args[0]), 0
            if r.k == 'aggr' and r.name in ('Range::Range', 'RangeFrom::RangeFrom') and const_int(r.args[0]) is not None:
                return self.c(xs.args[0]), const_int(r.args[0])
        return self.c(xs), 0

    def from_fn_array(self, e):
        import re as _re
        from . import ctext as CT
        from .rules_i import returns as _returns
        m = _re.match(r'^\[.*; (\d+)\]$', (e.ty or '').strip())
        if m is None and e.site:
            t_ = self.fn.blocks[e.site[0]]['term']
            if t_.get('dest') is not None:
                m = _re.match(r'^\[.*; (\d+)\]$', (self.fn.local_ty(t_['dest']['l']) or '').strip())
        cl = strip(e.args[0])
        if m is None or not (cl.k == 'aggr' and isinstance(cl.c, dict) and cl.c.get('closure')) or int(m.group(1)) > 32:
            return None
        g = self.P.F.fns.get(cl.c['closure'])
        if g is None or g.arg_count != 2:
            return None
        rr = _returns(g, self.P.F, True)
        if len(rr) != 1:
            return None
        body = rr[0][1]
        pn = g.local_name(2)
        caps = [self.c(a) for a in cl.args]
        out = []
        for k_ in range(int(m.group(1))):
            t = body
            for ci_ in range(len(caps) - 1, -1, -1):
                t = t.replace('$_1.%d' % ci_, caps[ci_])
            t = _re.sub(r'\$%s\b' % _re.escape(pn), str(k_), t)
            if '$_1' in t or '$_2' in t:
                return None
            try:
                t = CT.show(CT.fold(CT.parse(t)))
            except CT.ParseError:
                return None
            out.append(t)
        return 'array{%s}' % ', '.join(out)

    def borrow_version(self, call):
        """memory version of the collection a slice iterator borrows, taken where `x.iter()` is called: the shared borrow
        lives as long as the iterator, so every element it yields is read in that version"""
        fn, P = self.fn, self.P
        if not call.site or call.site[1] != -1:
            return ''
        b = call.site[0]
        t = fn.blocks[b]['term']
        if t.get('k') != 'call' or not t['args'] or t['args'][0]['k'] not in ('copy', 'move'):
            return ''
        a = t['args'][0]['pl']
        n = len(fn.blocks[b]['stmts'])
        try:
            root = P.ptr_target(a['l'], b, n) if not a['p'] and (fn.local_ty(a['l']) or '').startswith(('&', '*')) else P.root_of(a['l'], a['p'], b, n)
            return self.version_of(P.reach_root(root, None, b, n))
        except (KeyError, IndexError, TypeError):
            return ''

    def iter_element(self, it):
        """the element an iterator yields, written as an indexed read of the underlying collection — the same text a
        hand-written index loop produces: for x in a.iter() ~ a[i], i in 0..len;  .rev() ~ a[len-1-i];
        .chunks_exact(k) ~ a[i*k..i*k+k];  .enumerate() ~ (i, a[i]);  .zip(b) ~ (a[i], b[i])"""
        from .prov import const_int
        it = strip(it)
        rev = False
        enum = False
        while it.k == 'call' and last(it.name) in ('into_iter', 'by_ref', 'rev', 'enumerate', 'copied', 'cloned') and it.args:
            if last(it.name) == 'rev':
                rev = not rev
            if last(it.name) == 'enumerate':
                if rev:
                    return None          # enumerate().rev() numbers from the end: not handled
                enum = True
            it = strip(it.args[0])

        rev0 = rev

        def one(src, depth=0, zipped=False):
            src = strip(src)
            rev = rev0
            while src.k == 'call' and last(src.name) in ('into_iter', 'by_ref', 'copied', 'cloned', 'rev') and src.args:
                if last(src.name) == 'rev':
                    rev = not rev
                src = strip(src.args[0])
            if src.k == 'call' and last(src.name) in ('iter', 'iter_mut') and src.args:
                coll = src.args[0]
                cs_ = strip(coll)
                if cs_.k == 'call' and last(cs_.name) in ('remainder', 'into_remainder') and len(cs_.args) == 1 and not rev:
                    ch_ = strip(cs_.args[0])
                    while ch_.k == 'call' and last(ch_.name) in ('into_iter', 'by_ref') and ch_.args:
                        ch_ = strip(ch_.args[0])
                    if ch_.k == 'call' and last(ch_.name) in ('chunks_exact', 'chunks_exact_mut') and len(ch_.args) == 2 and const_int(ch_.args[1]):
                        # the part of x that chunks_exact(k) leaves over: x[(len/k)*k ..], of length len - (len/k)*k < k
                        k_ = const_int(ch_.args[1])
                        X_ = self.c(ch_.args[0])
                        A_ = 'MulWithOverflow(Div(len(%s), %d), %d).0' % (X_, k_, k_)
                        I_ = 'each(Range::Range{0, SubWithOverflow(len(%s), %s).0})' % (X_, A_)
                        return '%s[AddWithOverflow(%s, %s).0]' % (X_, A_, I_), I_
                n = self.coll_len(coll)
                base, off = self.coll_base(coll)
                ver = self.borrow_version(src)
                I_ = 'each(Range::Range{0, %s})' % n
                if rev and n.isdigit() and not off and not zipped:
                    # a[len-1-i], i in 0..len, is a[j] with j running down through the range
                    idx = 'each(rev(Range::Range{0, %s}))' % n
                elif rev:
                    idx = 'SubWithOverflow(%s, %s).0' % (str(int(n) - 1 + off) if n.isdigit() else 'SubWithOverflow(%s, 1).0' % n, I_)
                else:
                    idx = I_ if not off else 'AddWithOverflow(%s, %d).0' % (I_, off)
                return '%s[%s]%s' % (base, idx, ver), I_
            if src.k == 'call' and last(src.name) in ('chunks_exact', 'chunks_exact_mut') and len(src.args) == 2 and const_int(src.args[1]):
                k_ = const_int(src.args[1])
                coll = src.args[0]
                L_ = self.coll_len(coll)
                n = str(int(L_) // k_) if L_.isdigit() else 'Div(%s, %d)' % (L_, k_)
                I_ = 'each(Range::Range{0, %s})' % n
                i_ = I_ if not rev else 'SubWithOverflow(%s, %s).0' % (str(int(n) - 1) if n.isdigit() else 'SubWithOverflow(%s, 1).0' % n, I_)
                a_ = 'MulWithOverflow(%s, %d).0' % (i_, k_)
                return 'index(%s, Range::Range{%s, AddWithOverflow(%s, %d).0})' % (self.c(coll), a_, a_, k_), I_
            if src.k == 'call' and last(src.name) in ('rchunks_exact', 'rchunks_exact_mut') and len(src.args) == 2 and const_int(src.args[1]):
                # chunks of k taken from the END: chunk i is a[len - k(i+1) .. len - k*i]
                k_ = const_int(src.args[1])
                coll = src.args[0]
                L_ = self.coll_len(coll)
                n = str(int(L_) // k_) if L_.isdigit() else 'Div(%s, %d)' % (L_, k_)
                I_ = 'each(Range::Range{0, %s})' % n
                i_ = I_ if not rev else 'SubWithOverflow(%s, %s).0' % (str(int(n) - 1) if n.isdigit() else 'SubWithOverflow(%s, 1).0' % n, I_)
                a_ = 'SubWithOverflow(%s, MulWithOverflow(AddWithOverflow(%s, 1).0, %d).0).0' % (L_, i_, k_)
                return 'index(%s, Range::Range{%s, AddWithOverflow(%s, %d).0})' % (self.c(coll), a_, a_, k_), I_
            return None
        if it.k == 'call' and last(it.name) == 'zip' and len(it.args) == 2:
            # both sides advance together: one index variable, a reversed side counts down from its end
            a_, b_ = one(it.args[0], zipped=True), one(it.args[1], zipped=True)
            if a_ and b_:
                # zip stops with the shorter side: a remainder of chunks_exact(k) (fewer than k elements) zipped with a
                # collection of at least k elements runs over the remainder's index
                import re as _re7
                for s_, l_ in ((a_, b_), (b_, a_)):
                    m_s = _re7.match(r'^each\(Range::Range\{0, SubWithOverflow\(len\((.*)\), MulWithOverflow\(Div\(len\(\1\), (\d+)\), \2\)\.0\)\.0\}\)$', s_[1])
                    m_l = _re7.match(r'^each\(Range::Range\{0, (\d+)\}\)$', l_[1])
                    if m_s and m_l and int(m_l.group(1)) >= int(m_s.group(2)) and s_[1] != l_[1]:
                        fixed = (l_[0].replace(l_[1], s_[1]), s_[1])
                        if l_ is a_:
                            a_ = fixed
                        else:
                            b_ = fixed
                        break
                el = 'tuple{%s, %s}' % (a_[0], b_[0])
                return 'tuple{%s, %s}' % (a_[1], el) if enum else el
            return None
        r = one(it, zipped=enum)      # with enumerate() the position and the element share one index variable
        if r is None:
            return None
        return 'tuple{%s, %s}' % (r[1], r[0]) if enum else r[0]

    def seq(self, creation, seq):
        out = []
        pending = None
        cr = strip(creation)
        if cr.k == 'param' and seq:
            # `let mut v = z.to_vec(); v.extend(..)` is `Vec::new()` + extend(z) + ..: the copied slice is the first element
            out.append(self.c(cr))
        elif not (cr.k == 'call' and last(cr.name) in ('new', 'with_capacity')):
            init = self.c(cr)
            import re as _re
            if seq and (_re.match(r'^byte\([^()]*\)$', init) or _re.match(r'^bytes:[0-9a-f]+$', init) or _re.match(r'^array\{\$\w+\}$', init)):
                # `vec![b]` / `vec![a, b]` then extended: the literal content is the first element
                out.append(init)
            else:
                out.append('INIT:' + init)
        for a in seq:
            if a.kind == 'bytesplit':
                # `v.extend_from_slice(&x.to_be_bytes())`: one element in the sequence (rules that want the single bytes
                # use Append.elem, the array of the n byte expressions)
                el = self.c(a.orig)
                o_ = strip(a.orig)
                bt_ = be_call_type(o_)
                if bt_ and bt_[0] == 'to' and o_.args and not a.in_loop:
                    from .prov import const_int as _ci
                    cv_ = _ci(o_.args[0])
                    if cv_ is not None and o_.name and 'to_be_bytes' in o_.name:
                        # the big-endian bytes of a constant are a literal byte string
                        el = 'bytes:' + (cv_ % (1 << (8 * bt_[2]))).to_bytes(bt_[2], 'big').hex()
                out.append('LOOP(bytes:%s)' % el if a.in_loop else el)
                continue
            el = self.c(a.elem) if a.elem is not None else '?'
            if a.in_loop and a.kind == 'bytes' and el.startswith('each(array{') and el.endswith('})'):
                # `for part in [a, b, c] { v.extend_from_slice(part) }` over a literal array, the append being the only thing the
                # loop does (no branch in the loop other than the iterator's end test): the same as appending a, b, c in order
                comp = next((c_ for c_ in self.fn.sccs() if a.block in c_), None)
                if comp is not None and sum(1 for b_ in comp if self.fn.blocks[b_]['term']['k'] == 'switch') == 1 \
                        and sum(1 for x_ in seq if x_.in_loop and x_.block in comp and x_.kind != 'other:as_mut_slice') == 1:
                    parts, depth, cur = [], 0, ''
                    for ch in el[len('each(array{'):-2]:
                        if ch in '([{':
                            depth += 1
                        elif ch in ')]}':
                            depth -= 1
                        if ch == ',' and depth == 0:
                            parts.append(cur.strip()); cur = ''
                        else:
                            cur += ch
                    if cur.strip():
                        parts.append(cur.strip())
                    out.extend(parts)
                    continue
            if a.in_loop:
                el = 'LOOP(%s:%s)' % (a.kind, el)
            elif a.kind in ('u8', 'u16', 'u32', 'u64'):
                el = '%s(%s)' % (a.kind, el)
            elif a.kind.startswith(('be:', 'le:', '?e:')):
                # write_uN::<BigEndian>(x)  ==  extend_from_slice(&x.to_be_bytes())
                el = '%s:%s(%s)' % ({'be:': 'to_be_bytes', 'le:': 'to_le_bytes', '?e:': 'to_unknown_endian_bytes'}[a.kind[:3]], a.kind[3:], el)
            elif a.kind == 'byte':
                el = 'byte(%s)' % el
            elif a.kind == 'other:truncate' and not a.in_loop:
                # v.truncate(n) with n the length the vector had after its first k elements: back to those k elements
                cut = None
                for k_ in range(len(out), -1, -1):
                    if el == ('len([%s])' % ', '.join(out[:k_]) if k_ else '0') or (k_ == 1 and el == 'len(%s)' % out[0]):
                        cut = k_
                        break
                if cut is not None and not any(x.startswith(('LOOP(', 'other:', 'INIT:')) for x in out):
                    out = out[:cut]
                    continue
                el = '%s(%s)' % (a.kind, el)
            elif a.kind == 'setelem':
                # v[len-1] = b with a constant b: the last byte of the sequence is replaced
                from .prov import const_int as _ci2
                vb = _ci2(strip(a.value)) if getattr(a, 'value', None) is not None else None
                if not a.in_loop and vb is not None and 0 <= vb < 256 and out and el == 'SubWithOverflow(len([%s]), 1).0' % ', '.join(out) \
                        and not any(x.startswith(('LOOP(', 'other:', 'INIT:')) for x in out):
                    import re as _re5
                    m5 = _re5.match(r'^bytes:((?:[0-9a-f]{2})*)[0-9a-f]{2}$', out[-1])
                    if m5:
                        out[-1] = 'bytes:%s%02x' % (m5.group(1), vb)
                        continue
                    if _re5.match(r'^byte\(\d+\)$', out[-1]):
                        out[-1] = 'byte(%d)' % vb
                        continue
                el = 'other:setelem(%s = %s)' % (el, self.c(a.value) if getattr(a, 'value', None) is not None else '?')
            elif a.kind == 'other:index_mut' and not a.in_loop:
                import re as _re6
                # the length of a literal byte array is a number (`buf.len() - ct1.len()`)
                pending = _re6.sub(r'len\(bytes:((?:[0-9a-f]{2})+)\)', lambda m_: str(len(m_.group(1)) // 2), el)
                continue
            elif a.kind in ('other:copy_from_slice', 'other:clone_from_slice') and not a.in_loop and pending is not None:
                # v[len - w ..].copy_from_slice(src) with |src| = w and the last element(s) of v of total length w:
                # those elements are replaced by src
                w = self.byte_len(el)
                done_ = False
                if w and not any(x.startswith(('LOOP(', 'other:', 'INIT:')) for x in out):
                    want_off = 'RangeFrom::RangeFrom{SubWithOverflow(len([%s]), %d).0}' % (', '.join(out), w)
                    tot, k_ = 0, len(out)
                    while k_ > 0 and tot < w:
                        bl_ = self.byte_len(out[k_ - 1])
                        if not bl_:
                            break
                        tot += bl_
                        k_ -= 1
                    if pending == want_off and tot == w:
                        out = out[:k_] + [el]
                        done_ = True
                    else:
                        # offset = the length the vector had after its first k elements, the rest has length w
                        for k2 in range(len(out) - 1, -1, -1):
                            off2 = 'RangeFrom::RangeFrom{%s}' % ('len([%s])' % ', '.join(out[:k2]) if k2 else '0')
                            rest = [self.byte_len(x) for x in out[k2:]]
                            if pending == off2 and all(rest) and sum(rest) == w:
                                out = out[:k2] + [el]
                                done_ = True
                                break
                if not done_:
                    out.append('other:index_mut(%s)' % pending)
                    out.append('%s(%s)' % (a.kind, el))
                pending = None
                continue
            elif a.kind.startswith('other:'):
                el = '%s(%s)' % (a.kind, el)
            out.append(el)
        if pending is not None:
            out.append('other:index_mut(%s)' % pending)
        if len(out) > 1 and out[0].startswith('INIT:') and not any(x.startswith(('other:', 'LOOP(other:')) for x in out[1:]):
            # a vector that starts as the bytes of another value and is only appended to is that value followed by the appends
            init_ = out[0][5:]
            import re as _re
            if not _re.match(r'^(phi\(|from_elem\(|repeat\{)', init_):
                out[0] = init_
        return out

    def byte_len(self, el):
        """byte length of a rendered element when it is evident from its form"""
        import re as _re
        if el.startswith('bytes:') and _re.match(r'^bytes:([0-9a-f]{2})+$', el):
            return (len(el) - 6) // 2
        if _re.match(r'^(byte|u8)\(', el):
            return 1
        m = _re.match(r'^to_[bl]e_bytes:u(\d+)\(', el)
        if m:
            return int(m.group(1)) // 8
        if el.startswith('sm3_hash('):
            return 32
        return None

    def const_value(self, e):
        """integer value of a constant operand (literal array, or a constant item of the workspace), else None"""
        from .prov import const_int, const_item
        e = strip(e)
        v = const_int(e)
        if v is not None:
            return v
        it = const_item(e) if e.k == 'const' else None
        if it and getattr(self.P, 'F', None) is not None:
            fi = self.P.F.items.get(it)
            if fi is not None:
                from .facts import item_int
                try:
                    return item_int(fi)
                except Exception:
                    return None
        return None

    def c(self, e):
        # memo: the same sub-expression object is rendered many times (bounds inside bounds); the entry keeps the object
        # alive so its id cannot be reused.  Depth-truncated renderings are not cached.
        memo = self.__dict__.setdefault('_memo', {})
        key = (id(e), len(self.bare), len(self.commut))
        hit = memo.get(key)
        if hit is not None and hit[0] is e:
            return hit[1]
        self.depth += 1
        try:
            if self.depth > 60:
                return '...'
            r = self._c(e)
            if '...' not in r:
                memo[key] = (e, r)
            return r
        finally:
            self.depth -= 1

    def _c(self, e):
        from .prov import const_int, const_item
        e = strip(e)
        k = e.k
        if k == 'cast' and (e.ty or '').strip() == 'u8' and e.args:
            in_ = strip(e.args[0])
            if in_.k == 'binop' and in_.name == 'BitAnd' and len(in_.args) == 2 and const_int(in_.args[1]) == 255:
                # (x & 0xff) as u8 == x as u8
                return self.c(E('cast', e.name, [in_.args[0]], ty='u8', c=e.c))
        if k == 'field' and e.name in ('0', '1') and e.args:
            # u256_add / u256_sub of two constants (a mask written as `2^w - 1`, or kept as an evaluated `const`): the value
            cl = strip(e.args[0])
            if cl.k == 'call' and last(cl.name) in ('u256_add', 'u256_sub') and len(cl.args) == 2:
                x_, y_ = const_int(cl.args[0]), const_int(cl.args[1])
                if x_ is None or y_ is None:
                    x_, y_ = self.const_value(cl.args[0]), self.const_value(cl.args[1])
                if x_ is not None and y_ is not None:
                    r_ = x_ + y_ if last(cl.name) == 'u256_add' else x_ - y_
                    if e.name == '0':
                        return 'arr:%s' % hex(r_ % (1 << 256))
                    return '1' if (r_ < 0 or r_ >= 1 << 256) else '0'
        if k in ('field', 'binop', 'cast'):
            v = const_int(e)
            if v is not None and k != 'cast':
                return str(v) if -(1 << 16) < v < 1 << 16 else hex(v)
            if v is not None and k == 'cast' and strip(e.args[0]).k != 'const':
                return str(v) if -(1 << 16) < v < 1 << 16 else hex(v)
        if k == 'const':
            it = const_item(e)
            if it and (it in _item_vocab() or not _item_vocab()):
                return last(it)
            if it:
                # a constant item that is not part of the reviewed vocabulary (e.g. a literal moved into a named
                # `const`): render it as the value it holds
                v = const_int(e)
                if v is None:
                    fi = self.P.F.items.get(it) if getattr(self.P, 'F', None) is not None else None
                    if fi is not None:
                        from .facts import item_int
                        try:
                            v = item_int(fi)
                        except Exception:
                            v = None
                if v is not None:
                    fi = self.P.F.items.get(it) if getattr(self.P, 'F', None) is not None else None
                    if fi is not None and (fi.get('ty') or '').startswith('[u8;'):
                        # a named byte-array constant: its bytes, in order (same text as the literal array)
                        import re as _re
                        m_ = _re.match(r'^\[u8; (\d+)\]$', (fi.get('ty') or '').strip())
                        if m_:
                            n_ = int(m_.group(1))
                            bs_ = v.to_bytes(n_, 'little')
                            return 'byte(%d)' % bs_[0] if n_ == 1 else 'bytes:' + bs_.hex()
                    if fi is not None and (fi.get('ty') or '').startswith('['):
                        return 'arr:%s' % hex(v)
                    return str(v) if v < 1 << 16 else hex(v)
                return last(it)
            v = const_int(e)
            if v is not None:
                return str(v) if v < 1 << 16 else hex(v)
            c = e.c
            if c.get('k') == 'slice':
                return 'bytes:' + c.get('bytes', '')
            if c.get('k') == 'fn':
                return 'fn:' + last(c['fn'])
            return 'const:' + (c.get('bytes') or c.get('ty') or '?')
        if k == 'param':
            return e.name if e.name in self.bare else '$' + e.name
        if k == 'field':
            inner = strip(e.args[0])
            # `expr?`  ==  branch(expr) as Continue .0
            if e.name == '0' and inner.k == 'field' and inner.name in ('as Continue', 'as Some', 'as Ok'):
                from .prov import simplify_variant
                r_ = simplify_variant(e)
                if r_ is not e:
                    return self.c(r_)
                src = strip(inner.args[0])
                if src.k == 'call' and last(src.name) == 'branch':
                    return 'try(%s)' % self.c(src.args[0])
                if src.k == 'call' and last(src.name) == 'next':
                    it = strip(src.args[0])
                    while it.k == 'call' and last(it.name) in ('into_iter', 'iter', 'by_ref'):
                        it = strip(it.args[0])
                    el_ = self.iter_element(src.args[0])
                    if el_ is not None:
                        return el_
                    return 'each(%s)' % self.c(it)
                return '%s!' % self.c(src)
            if e.name in ('x', 'y'):
                a = strip(e.args[0])
                if a.k == 'call' and last(a.name) == 'to_affine_point':
                    return 'aff%s(%s)' % (e.name, self.c(a.args[0]))
            in_s = self.c(e.args[0])
            if in_s.startswith('tuple{') and in_s.endswith('}') and (e.name or '').isdigit():
                # component of a known tuple (element of enumerate()/zip() written in index form)
                parts, depth_, cur = [], 0, ''
                for ch in in_s[6:-1]:
                    if ch in '([{':
                        depth_ += 1
                    elif ch in ')]}':
                        depth_ -= 1
                    if ch == ',' and depth_ == 0:
                        parts.append(cur.strip()); cur = ''
                    else:
                        cur += ch
                if cur.strip():
                    parts.append(cur.strip())
                if int(e.name) < len(parts):
                    return parts[int(e.name)]
            return in_s + '.' + e.name + self.version(e)
        if k == 'call':
            ln = last(e.name)
            if ln == 'from' and len(e.args) == 1 and (e.ty or '').strip() in INTW and 'convert::From<' in (e.name or ''):
                # uN::from(narrower integer) is the widening cast
                return self.c(E('cast', 'IntToInt', [e.args[0]], ty=(e.ty or '').strip()))
            if ln == 'from_fn' and 'array' in (e.name or '') and len(e.args) == 1:
                # core::array::from_fn(|j| body) of type [T; N]: the literal array [body(0), .., body(N-1)] -- the closure's
                # returned expression with its parameter replaced by each index and its captures by what was captured
                r_ = self.from_fn_array(e)
                if r_ is not None:
                    return r_
            # unwrap(Some(x)) == x ; Option::as_ref is a view
            if ln in ('unwrap', 'expect') and e.args:
                a0 = strip(e.args[0])
                while a0.k == 'call' and last(a0.name) in ('as_ref', 'as_mut', 'clone') and a0.args:
                    a0 = strip(a0.args[0])
                if a0.k == 'aggr' and a0.name in ('Option::Some', 'Result::Ok') and a0.args:
                    return self.c(a0.args[0])
                if ln == 'expect':
                    # expect(x, "message") is unwrap(x): the same value, the same panic condition
                    return 'unwrap(%s)' % self.c(e.args[0])
            if ln == 'len' and len(e.args) == 1:
                # the length of a sub-slice in terms of the original: len(x[a..]) = len(x) - a, len(x[a..b]) = b - a
                x_ = strip(e.args[0])
                if x_.k == 'call' and last(x_.name) in ('index', 'index_mut') and len(x_.args) == 2:
                    r_ = strip(x_.args[1])
                    if r_.k == 'aggr' and r_.name == 'RangeFrom::RangeFrom':
                        return 'SubWithOverflow(len(%s), %s).0' % (self.c(x_.args[0]), self.c(r_.args[0]))
                    if r_.k == 'aggr' and r_.name == 'RangeTo::RangeTo':
                        return self.c(r_.args[0])
                    if r_.k == 'aggr' and r_.name == 'Range::Range':
                        a_, b_ = const_int(r_.args[0]), const_int(r_.args[1])
                        if a_ is not None and b_ is not None:
                            return str(b_ - a_)
                        if a_ == 0:
                            return self.c(r_.args[1])
            bt_ = be_call_type(e)
            if bt_ and bt_[0] == 'from' and len(e.args) == 1 and strip(e.args[0]).k == 'aggr' and strip(e.args[0]).name == 'array' and len(strip(e.args[0]).args) == bt_[2]:
                # uN::from_be_bytes([b0, b1, ..]) == uN::from(b0) << 8(n-1) | ... | uN::from(b_{n-1})
                parts = []
                n_ = bt_[2]
                for i_, b_ in enumerate(strip(e.args[0]).args):
                    f_ = '(%s as %s)' % (self.c(b_), bt_[1])
                    sh_ = 8 * (n_ - 1 - i_)
                    parts.append('Shl(%s, %d)' % (f_, sh_) if sh_ else f_)
                r_ = parts[0]
                for p_ in parts[1:]:
                    r_ = 'BitOr(%s, %s)' % (r_, p_)
                return r_
            if ln == 'concat' and len(e.args) == 1 and strip(e.args[0]).k == 'aggr' and strip(e.args[0]).name == 'array':
                # [a, b, c].concat()  ==  a builder that appends a, b, c
                return '[' + ', '.join(self.c(a) for a in strip(e.args[0]).args) + ']'
            if ln in self.SAMPLERS:
                key = e.site
                if key not in self.rand:
                    self.rand[key] = 'rand#%d' % (len(self.rand) + 1)
                return self.rand[key] + ('(%s)' % ', '.join(self.c(a) for a in e.args) if e.args else '')
            args = []
            for i, a in enumerate(e.args):
                r = None
                if e.site is not None:
                    bo = self.builder_of(e.site, i)
                    if bo is not None:
                        r = '[' + ', '.join(self.seq(*bo)) + ']'
                    elif e.site[1] == -1 and not getattr(self, '_in_fixed', False):
                        t_ = self.fn.blocks[e.site[0]]['term']
                        if t_['k'] == 'call' and i < len(t_['args']) and t_['args'][i]['k'] in ('copy', 'move') \
                                and not (self.fn.local_ty(t_['args'][i]['pl']['l']) or '').startswith('&mut') \
                                and last(t_['fn'].get('name') or '') not in ('index', 'index_mut', 'copy_from_slice', 'clone_from_slice'):
                            self._in_fixed = True
                            try:
                                fa_ = fixed_array_seq(self.fn, self.P, self, t_['args'][i], e.site[0], len(self.fn.blocks[e.site[0]]['stmts']))
                            finally:
                                self._in_fixed = False
                            if fa_ is not None:
                                r = '[' + ', '.join(fa_) + ']'
                args.append(r if r is not None else self.c(a))
            if last(e.name) in self.commut:
                args = sorted(args)
            ln = self.ABBREV.get(ln, ln)
            if e.name and e.name.startswith('gm_sm9::') and ln in ('g_mul', 'point_mul', 'point_add', 'point_sub', 'point_neg', 'point_double'):
                if '<impl points::TwistPoint>' in e.name:
                    ln = 'G2.' + ln
                elif '<impl points::Point>' in e.name:
                    ln = 'G1.' + ln
            if ln in ('to_be_bytes', 'to_le_bytes', 'from_be_bytes', 'from_le_bytes'):
                import re as _re
                m = _re.search(r'<impl (u8|u16|u32|u64|u128|usize)>', e.name or '')
                if m:
                    ln = '%s:%s' % (ln, m.group(1))
            r = '%s(%s)' % (ln, ', '.join(args))
            # decoding the 32-byte big-endian encoding of a 256-bit value gives the value back
            if ln == 'INT' and len(args) == 1:
                a0_ = args[0]
                if a0_.startswith('BE(') and a0_.endswith(')') and a0_.count('(') == a0_.count(')'):
                    return a0_[3:-1]
                if a0_[:2] in ('X(', 'Y(') and a0_.endswith(')'):
                    return 'plain(aff%s(%s))' % (a0_[0].lower(), a0_[2:-1])
            # BE(plain(affx(P))) -> X(P)
            for ax in ('x', 'y'):
                pre = 'BE(plain(aff%s(' % ax
                if r.startswith(pre) and r.endswith(')))'):
                    return '%s(%s)' % (ax.upper(), r[len(pre):-3])
            return r
        if k == 'aggr':
            if e.name == 'array' and e.args:
                if ((e.c or {}).get('ety') == 'u8' or (e.ty or '').startswith('[u8;')) and all(const_int(a) is not None for a in e.args):
                    # a literal byte array keeps its length: one byte is the element `byte(v)` a push would give
                    bs = [const_int(a) & 0xff for a in e.args]
                    return 'byte(%d)' % bs[0] if len(bs) == 1 else 'bytes:' + ''.join('%02x' % b for b in bs)
                v = const_int(e)
                if v is not None:
                    return 'arr:%s' % hex(v)
            if e.name in ('Range::Range', 'RangeFrom::RangeFrom', 'RangeTo::RangeTo') and e.args:
                return '%s{%s}' % (e.name, ', '.join(self.bound(a) for a in e.args))
            return '%s{%s}' % (e.name, ', '.join(self.c(a) for a in e.args))
        if k in ('binop', 'unop'):
            return '%s(%s)' % (e.name, ', '.join(self.c(a) for a in e.args))
        if k == 'cast':
            T_ = (e.ty or '').strip()
            in_ = strip(e.args[0])
            if T_ in INTW and T_ != 'u8':
                # one byte of a word, widened: `(y & 0xff) as T`, `(y >> (N-8)) as T` for y: uN and `(y as u8) as T` are one value
                if in_.k == 'binop' and in_.name == 'BitAnd' and len(in_.args) == 2:
                    for a_, b_ in ((in_.args[0], in_.args[1]), (in_.args[1], in_.args[0])):
                        if const_int(b_) == 255:
                            return '((%s as u8) as %s)' % (self.c(a_), T_)
                if in_.k == 'binop' and in_.name == 'Shr' and len(in_.args) == 2:
                    w_ = INTW.get((strip(in_.args[0]).ty or in_.ty or '').strip())
                    sh_ = const_int(in_.args[1])
                    if w_ and sh_ == 8 * w_ - 8:
                        return '((%s as u8) as %s)' % (self.c(in_), T_)
            return '(%s as %s)' % (self.c(e.args[0]), e.ty)
        if k == 'index':
            from .prov import const_int as _ci
            base = strip(e.args[0])
            bt = be_call_type(base)
            if bt and bt[0] == 'to' and base.args:
                kk = _ci(e.args[1]) if len(e.args) > 1 else (int(e.name) if (e.name or '').lstrip('-').isdigit() else None)
                if kk is not None and 0 <= kk < bt[2]:
                    return self.c(be_byte(base.args[0], bt[1], kk))      # x.to_be_bytes()[k] == (x >> 8(n-1-k)) as u8
            if base.k == 'call' and last(base.name or '') in ('index', 'index_mut') and len(base.args) == 2 and len(e.args) > 1:
                # element i of the sub-slice x[a..] / x[a..b] is x[a + i]
                r_ = strip(base.args[1])
                if r_.k == 'aggr' and r_.name in ('RangeFrom::RangeFrom', 'Range::Range') and r_.args:
                    a_s = self.bound(r_.args[0])
                    i_s = self.c(e.args[1])
                    idx_ = i_s if a_s == '0' else (str(int(a_s) + int(i_s)) if a_s.isdigit() and i_s.isdigit() else 'AddWithOverflow(%s, %s).0' % (a_s, i_s))
                    return '%s[%s]%s' % (self.c(base.args[0]), idx_, self.version(e))
                if r_.k == 'aggr' and r_.name == 'RangeTo::RangeTo':
                    return '%s[%s]%s' % (self.c(base.args[0]), self.c(e.args[1]), self.version(e))
            b0_ = strip(e.args[0])
            if b0_.k == 'aggr' and b0_.name == 'array' and not (isinstance(e.c, dict) and e.c.get('reach')):
                # element k of a literal array
                kk_ = _ci(e.args[1]) if len(e.args) > 1 else (int(e.name) if (e.name or '').isdigit() else None)
                if kk_ is not None and 0 <= kk_ < len(b0_.args):
                    return self.c(b0_.args[kk_])
            bt_, own_ = self.c(e.args[0]), self.version(e)
            wv_ = ''
            if bt_.endswith('}') and '#{' in bt_:
                # the base carries a whole-object version (it was copied or borrowed as a whole): an element read with its own
                # version supersedes it; one without (read from the copy) inherits it
                d_ = 0
                for k_ in range(len(bt_) - 1, -1, -1):
                    if bt_[k_] == '}':
                        d_ += 1
                    elif bt_[k_] == '{':
                        d_ -= 1
                        if d_ == 0:
                            if k_ >= 1 and bt_[k_ - 1] == '#':
                                bt_, wv_ = bt_[:k_ - 1], bt_[k_ - 1:]
                            break
            return '%s[%s]%s' % (bt_, self.c(e.args[1]) if len(e.args) > 1 else e.name, own_ or wv_)
        if k == 'phi':
            return 'phi(%s)' % ' | '.join(sorted(self.c(a) for a in e.args))
        if k == 'local':
            if e.name in self.bare:
                return e.name
            # a local of an inlined helper that had to be prefixed (`expand.w`) is shown by its own name
            nm_ = e.name.rsplit('.', 1)[-1] if '.' in (e.name or '') and not e.name.startswith('_') else e.name
            return 'var:%s%s%s' % (nm_, ('=' + self.c(e.args[0])) if e.args else '', self.version(e))
        if k == 'discr':
            return 'discr(%s)' % self.c(e.args[0])
        return '?'


def preimage(fn, P, block, argi=0, canon=None):
    """canonical element list of the Vec<u8> passed as argument argi of the call terminating `block`"""
    cn = canon or Canon(fn, P)
    bo = cn.builder_of((block, -1), argi)
    if bo is None:
        t = fn.blocks[block]['term']
        e = norm(P.operand(t['args'][argi], block, len(fn.blocks[block]['stmts'])))
        es = strip(e)
        if es.k == 'call' and last(es.name) == 'concat' and len(es.args) == 1 and strip(es.args[0]).k == 'aggr' and strip(es.args[0]).name == 'array':
            return [cn.c(a) for a in strip(es.args[0]).args], None
        fa = fixed_array_seq(fn, P, cn, t['args'][argi], block, len(fn.blocks[block]['stmts']))
        if fa is not None:
            return fa, None
        return None, cn.c(e)
    return cn.seq(*bo), None


def fixed_array_seq(fn, P, cn, op, b, idx):
    """a `[u8; N]` buffer filled by element stores and `buf[a..b].copy_from_slice(src)` at constant offsets, read at
    (b, idx): the canonical element list, like the appends of a Vec (`byte(v)` for single stores, the source for slices,
    `zeros(n)` for untouched cells).  Later dominating writes override earlier ones (a reused buffer whose tag byte is
    rewritten).  None when a write may or may not have happened (not dominating) or tiles overlap partially."""
    import re as _re
    from .prov import const_int
    L = root_local(P, op, b, idx)
    if L is None:
        return None
    m = _re.match(r'^\[u8; (\d+)\]$', (fn.local_ty(L) or '').strip())
    if not m:
        return None
    N = int(m.group(1))
    # only buffers that start as a literal ([0u8; N] / [a, b, ..]) in this function and are then filled
    if not any(st['k'] == 'assign' and st['lhs']['l'] == L and not st['lhs']['p'] and st['rv']['k'] in ('repeat', 'aggr') for _, _, st in fn.stmts()):
        return None
    dom = fn.dominators()
    writes = []
    for bb, i, st in fn.stmts():
        if st['k'] == 'assign' and st['lhs']['l'] == L and st['lhs']['p']:
            pr = st['lhs']['p']
            k = None
            if len(pr) == 1 and isinstance(pr[0], dict):
                k = pr[0].get('cidx')
                if k is None and 'idx' in pr[0]:
                    k = const_int(norm(P.local(pr[0]['idx'], bb, i)))
            if k is None:
                return None
            writes.append((bb, i, k, 1, 'byte(%s)' % cn.c(norm(P.rvalue(st['rv'], bb, i, 0)))))
    for bb, t in fn.calls():
        if t['fn']['k'] != 'def' or last(t['fn']['name']) not in ('copy_from_slice', 'clone_from_slice', 'fill', 'copy_within') or not t['args'] or t['args'][0]['k'] not in ('copy', 'move'):
            continue
        n_ = len(fn.blocks[bb]['stmts'])
        if root_local(P, t['args'][0], bb, n_) != L:
            continue
        if last(t['fn']['name']) in ('fill', 'copy_within'):
            return None
        dst = strip(norm(P.operand(t['args'][0], bb, n_)))
        a_, e_ = 0, N
        if dst.k == 'call' and last(dst.name) in ('index_mut', 'index') and len(dst.args) == 2:
            r = strip(dst.args[1])
            if r.k != 'aggr':
                return None
            vals = [const_int(x) for x in r.args]
            if any(v is None for v in vals):
                return None
            if r.name == 'Range::Range':
                a_, e_ = vals
            elif r.name == 'RangeFrom::RangeFrom':
                a_ = vals[0]
            elif r.name == 'RangeTo::RangeTo':
                e_ = vals[0]
            elif r.name != 'RangeFull::RangeFull':
                return None
        writes.append((bb, n_, a_, e_ - a_, cn.c(norm(P.operand(t['args'][1], bb, n_)))))
    if not writes:
        return None
    use_dom = dom.get(b, set())
    keep = []
    for w in writes:
        bb, i = w[0], w[1]
        before = (bb == b and i < idx) or (bb != b and bb in use_dom)
        if before:
            keep.append(w)
        elif b in fn.reachable(bb) and bb != b:
            return None          # may or may not have happened
    keep.sort(key=lambda w: (len(dom.get(w[0], ())), w[0], w[1]))
    cells = [None] * N
    for wi, w in enumerate(keep):
        for k in range(w[2], min(N, w[2] + w[3])):
            cells[k] = wi
    out = []
    k = 0
    while k < N:
        wi = cells[k]
        j = k
        while j < N and cells[j] == wi:
            j += 1
        if wi is None:
            out.append('zeros(%d)' % (j - k))
        else:
            w = keep[wi]
            if k != w[2] or j - k != w[3]:
                return None      # a tile that is only partially visible
            out.append(w[4])
        k = j
    return out


def branch_sequences(fn, P, op, b, i, canon):
    """For a Vec<u8> whose appends sit in mutually exclusive branches (e.g. match arms): list of
    (conditions, [canonical elements]) - one entry per maximal chain of appends that reaches the use site.
    conditions = list of 'switch-expr=value' strings that select the chain."""
    L = root_local(P, op, b, i)
    if L is None or 'Vec<u8>' not in fn.local_ty(L):
        return None
    creation = norm(P.local(L, b, i))
    cb = strip(creation).site[0] if strip(creation).site else None
    aps = [a for a in appends(fn, P, L, cb) if b in fn.reachable(a.block)]
    if not aps:
        return []
    reach = {a.block: fn.reachable(a.block) for a in aps}
    blocks = [a.block for a in aps]
    byb = {a.block: a for a in aps}
    # immediate successors in the append DAG
    def nexts(x):
        later = [y for y in blocks if y != x and y in reach[x] and x not in reach[y]]
        return [y for y in later if not any(z != y and z in later and y in reach[z] for z in later)]
    starts = [x for x in blocks if not any(y != x and x in reach[y] and y not in reach[x] for y in blocks)]
    chains = []

    def dfs(x, acc):
        nx = nexts(x)
        if not nx:
            chains.append(acc + [x])
            return
        for y in nx:
            dfs(y, acc + [x])
    for s_ in starts:
        dfs(s_, [])
    out = []
    dom = fn.dominators()
    for ch in chains:
        conds = []
        # the switches that select ANY append of the chain (a common prefix may sit before the branch)
        for first in ch:
            for sb in sorted(dom.get(first, ()), key=lambda z: len(dom.get(z, ()))):
                t = fn.blocks[sb]['term']
                if t['k'] != 'switch' or sb == first:
                    continue
                if cb is not None and sb not in fn.reachable(cb):
                    continue
                succs = fn.succ(sb)
                leading = [s2 for s2 in succs if first in fn.reachable(s2, removed_blocks={sb}) or s2 == first]
                if len(leading) == len(succs):
                    continue
                vals = [v for v, tb in t['targets'] if tb in leading]
                if t['otherwise'] in leading:
                    vals.append('otherwise')
                e = norm(P.operand(t['op'], sb, len(fn.blocks[sb]['stmts'])))
                c_ = '%s=%s' % (canon.c(e), '|'.join(vals))
                if c_ not in conds:
                    conds.append(c_)
        out.append((conds, canon.seq(creation, [byb[x] for x in ch])))
    return out


def select_conds(fn, P, block, canon, after=None):
    """conditions 'switch-expr=value' of dominating switches that select `block` (not all successors lead to it)"""
    dom = fn.dominators()
    conds = []
    for sb in sorted(dom.get(block, ()), key=lambda z: len(dom.get(z, ()))):
        t = fn.blocks[sb]['term']
        if t['k'] != 'switch' or sb == block:
            continue
        if after is not None and sb not in fn.reachable(after):
            continue
        succs = fn.succ(sb)
        leading = [s2 for s2 in succs if s2 == block or block in fn.reachable(s2, removed_blocks={sb})]
        if len(leading) == len(succs):
            continue
        vals = [v for v, tb in t['targets'] if tb in leading]
        if t['otherwise'] in leading:
            vals.append('otherwise')
        e = norm(P.operand(t['op'], sb, len(fn.blocks[sb]['stmts'])))
        conds.append('%s=%s' % (canon.c(e), '|'.join(vals)))
    return conds
