"""Provenance expressions: reconstruct, for an operand at a program point, the
expression tree that defines it, by chasing reaching definitions backwards
through MIR temporaries.  This is a syntactic reconstruction over the CFG
(reaching definitions), not execution: a local with several reaching
definitions yields a `phi` of the alternatives.
"""
from .facts import Fn, pp_const

MAXDEPTH = 60


VERSIONED = True


class E:
    __slots__ = ('k', 'name', 'args', 'site', 'ty', 'c')

    def __init__(self, k, name=None, args=(), site=None, ty=None, c=None):
        self.k = k          # const param call ref deref field index aggr binop unop cast phi local discr unknown
        self.name = name
        self.args = list(args)
        self.site = site    # (block, idx) where defined, idx = -1 for terminator
        self.ty = ty
        self.c = c          # const dict for k == 'const'

    def __repr__(self):
        return self.show()

    def show(self, depth=0):
        if depth > 12:
            return '...'
        k = self.k
        a = [x.show(depth + 1) for x in self.args]
        if k == 'const':
            return pp_const(self.c)
        if k == 'param':
            return 'PARAM(%s)' % self.name
        if k == 'call':
            return '%s(%s)' % (short(self.name), ', '.join(a))
        if k == 'ref':
            return '&' + a[0]
        if k == 'deref':
            return '*' + a[0]
        if k == 'field':
            return '%s.%s' % (a[0], self.name)
        if k == 'index':
            return '%s[%s]' % (a[0], a[1] if len(a) > 1 else self.name)
        if k == 'aggr':
            return '%s{%s}' % (self.name, ', '.join(a))
        if k == 'binop':
            return '%s(%s)' % (self.name, ', '.join(a))
        if k == 'unop':
            return '%s(%s)' % (self.name, ', '.join(a))
        if k == 'cast':
            return '(%s as %s)' % (a[0], self.ty)
        if k == 'phi':
            return 'phi(%s)' % ' | '.join(a)
        if k == 'local':
            return 'LOCAL(%s)' % self.name
        if k == 'discr':
            return 'discr(%s)' % a[0]
        return '?%s' % (self.name or '')

    def walk(self):
        yield self
        for x in self.args:
            yield from x.walk()

    def calls(self, suffix=None):
        for x in self.walk():
            if x.k == 'call' and (suffix is None or fn_is(x.name, suffix)):
                yield x


def short(name):
    """readable callee name: last two path components"""
    if name is None:
        return '?'
    parts = split_path(name)
    return '::'.join(parts[-2:]) if len(parts) > 1 else name


def split_path(name):
    out = []
    depth = 0
    cur = ''
    i = 0
    while i < len(name):
        ch = name[i]
        if ch in '<([':
            depth += 1
        elif ch in '>)]':
            depth -= 1
        if ch == ':' and depth == 0 and name[i:i + 2] == '::':
            out.append(cur)
            cur = ''
            i += 2
            continue
        cur += ch
        i += 1
    out.append(cur)
    return out


def fn_is(name, suffix):
    """callee name matches a qualified suffix on path-component boundaries"""
    if name is None:
        return False
    if name == suffix:
        return True
    return name.endswith('::' + suffix)


def last(name):
    return split_path(name)[-1] if name else ''


# calls that return (a view of / a copy of) their first argument's value
TRANSPARENT = (
    'alloc::vec::<impl std::ops::Deref for std::vec::Vec<T, A>>::deref',
    'alloc::vec::<impl std::ops::DerefMut for std::vec::Vec<T, A>>::deref_mut',
    'alloc::vec::<impl std::vec::Vec<T, A>>::as_slice',
    'alloc::vec::<impl std::vec::Vec<T, A>>::as_mut_slice',
    'alloc::slice::<impl [T]>::to_vec',
    'core::array::<impl [T; N]>::as_slice',
    'core::clone::impls::<impl std::clone::Clone for &T>::clone',
    'core::array::<impl std::clone::Clone for [T; N]>::clone',
    'alloc::vec::<impl std::clone::Clone for std::vec::Vec<T, A>>::clone',
    'core::convert::<impl std::convert::AsRef<U> for &T>::as_ref',
    'alloc::vec::<impl std::convert::AsRef<[T]> for std::vec::Vec<T, A>>::as_ref',
    'core::array::<impl std::convert::AsRef<[T]> for [T; N]>::as_ref',
    'core::convert::<impl std::convert::Into<U> for T>::into',
    'core::convert::<impl std::convert::From<T> for T>::from',
    'alloc::string::<impl std::string::String>::as_bytes',
    'core::str::<impl str>::as_bytes',
    'alloc::borrow::<impl std::borrow::ToOwned for T>::to_owned',
    'alloc::slice::<impl std::borrow::ToOwned for [T]>::to_owned',
)


def is_transparent(name):
    if name in TRANSPARENT:
        return True
    # derived Clone on repo Copy types returns the value
    if name and name.endswith('::clone') and '<impl std::clone::Clone for ' in name and name.startswith('gm_'):
        return True
    return False


class Prov:
    def __init__(self, fn: Fn, F=None, cut_loops=False):
        self.fn = fn
        self.F = F
        self.cut_loops = cut_loops   # loop-carried values become symbols `name@in` (one-iteration transfer functions)
        self._reach_cache = {}
        self.defs = {}      # local -> list of (block, idx, kind) ; kind in full/partial/call/mutborrow
        self._index()
        self._cache = {}
        self._stack = set()
        self._loops = None
        self._raw_in = False
        self._ind = {}

    def _index(self):
        fn = self.fn
        for b, bl in enumerate(fn.blocks):
            for i, st in enumerate(bl['stmts']):
                if st['k'] == 'assign':
                    lhs = st['lhs']
                    kind = 'full' if not lhs['p'] else 'partial'
                    # *ref = x writes through a pointer: not a def of the pointer local
                    if lhs['p'] and lhs['p'][0] == 'deref':
                        continue
                    self.defs.setdefault(lhs['l'], []).append((b, i, kind))
                elif st['k'] == 'setdiscr':
                    self.defs.setdefault(st['lhs']['l'], []).append((b, i, 'partial'))
            t = bl['term']
            if t['k'] == 'call':
                d = t['dest']
                kind = 'call' if not d['p'] else 'partial'
                if not (d['p'] and d['p'][0] == 'deref'):
                    self.defs.setdefault(d['l'], []).append((b, -1, kind))

    def loops(self):
        """list of (header, blocks, locals fully defined inside) for every natural-loop-like SCC with a single header"""
        if self._loops is None:
            out = []
            fn = self.fn
            for (h, comp) in fn.natural_loops():
                defd = set()
                for l, ds in self.defs.items():
                    if any(b in comp and k in ('full', 'call') for (b, i, k) in ds):
                        defd.add(l)
                out.append((h, comp, defd))
            # inner loops first (smaller components)
            out.sort(key=lambda x: len(x[1]))
            self._loops = out
        return self._loops

    # ---------------------------------------------------------- counted loops
    def induction(self, l, block):
        """(lo, hi_exclusive, header) when local l is the counter of the innermost loop around `block` that defines it:
        initialised before the loop, incremented by exactly one once per iteration (the increment dominates every latch),
        and tested at the top of the loop against a loop-invariant bound (`l < hi` / `l <= hi-1`) whose failing edge leaves
        the loop.  Inside such a loop (past the test) l@in ranges over lo..hi exactly like `for l in lo..hi`."""
        if not self.cut_loops:
            return None
        cand = [(h, comp) for (h, comp, defd) in self.loops() if block in comp and l in defd]
        if not cand:
            return None
        h, comp = cand[0]
        key = (l, h)
        if key not in self._ind:
            self._ind[key] = None
            saved = self._raw_in
            self._raw_in = True
            try:
                self._ind[key] = self._induction(l, h, comp)
            except RecursionError:
                self._ind[key] = None
            finally:
                self._raw_in = saved
        return self._ind[key]

    def _induction(self, l, h, comp):
        fn = self.fn
        ins = [(b, i, k) for (b, i, k) in self.defs.get(l, []) if b in comp]
        if len(ins) != 1 or ins[0][2] != 'full':
            return None
        db, di, _ = ins[0]
        dom = fn.dominators()
        latches = [p for p in fn.pred(h) if p in comp]
        if not latches or any(db not in dom.get(p, ()) for p in latches):
            return None
        # the increment does not sit in an inner loop
        for (h2, comp2, _) in self.loops():
            if h2 != h and comp2 < comp and db in comp2:
                return None
        e = strip(norm(self._def_expr(l, db, di, 0)))
        if e.k == 'field' and e.name == '0' and e.args:
            e = strip(e.args[0])
        if not (e.k == 'binop' and e.name in ('AddWithOverflow', 'Add', 'AddUnchecked') and len(e.args) == 2):
            return None
        a, b_ = strip(e.args[0]), strip(e.args[1])
        def is_in(x):
            return x.k == 'local' and (x.c or {}).get('loopvar') and (x.c or {}).get('l') == l
        if not ((is_in(a) and const_int(b_) == 1) or (is_in(b_) and const_int(a) == 1)):
            return None
        # initial value: the one definition reaching the header from outside
        outs = [p for p in fn.pred(h) if p not in comp]
        if not outs:
            return None
        saved_cut = self.cut_loops
        inits = []
        for p in outs:
            inits.append(norm(self.local(l, p, len(fn.blocks[p]['stmts']))))
        if any(strip(x).k == 'phi' or not _invariant(x) for x in inits) or len({x.show() for x in inits}) != 1:
            return None
        lo = inits[0]
        # the test at the top of the loop: header, then straight-line blocks, then a two-way switch with one edge leaving
        b = h
        for _ in range(8):
            t = fn.blocks[b]['term']
            if t['k'] == 'switch':
                break
            nxt = [x for x in fn.succ(b) if not fn.blocks[x].get('cleanup')]
            if len(nxt) != 1 or nxt[0] not in comp or (b == db):
                return None
            b = nxt[0]
        else:
            return None
        t = fn.blocks[b]['term']
        if t['ty'] != 'bool':
            return None
        stay = [x for x in fn.succ(b) if x in comp]
        leave = [x for x in fn.succ(b) if x not in comp]
        if len(stay) != 1 or len(leave) != 1:
            return None
        c = strip(norm(self.operand(t['op'], b, len(fn.blocks[b]['stmts']))))
        neg = False
        while c.k == 'unop' and c.name == 'Not':
            c = strip(c.args[0]); neg = not neg
        if not (c.k == 'binop' and c.name in ('Lt', 'Le', 'Gt', 'Ge') and len(c.args) == 2):
            return None
        x, y = strip(c.args[0]), strip(c.args[1])
        op = c.name
        if is_in(y):
            x, y = y, x
            op = {'Lt': 'Gt', 'Gt': 'Lt', 'Le': 'Ge', 'Ge': 'Le'}[op]
        if not is_in(x) or not _invariant(y):
            return None
        # edge taken when the comparison is true
        true_t = t['otherwise']
        for v, tb in t['targets']:
            if v == '1':
                true_t = tb
        false_t = [tb for v, tb in t['targets'] if v == '0']
        false_t = false_t[0] if false_t else t['otherwise']
        holds_in_loop = (true_t == stay[0]) != neg if true_t != false_t else None
        if holds_in_loop is None:
            return None
        if not holds_in_loop:
            op = {'Lt': 'Ge', 'Ge': 'Lt', 'Le': 'Gt', 'Gt': 'Le'}[op]
        if op == 'Lt':
            hi = y
        elif op == 'Le':
            v = const_int(y)
            if v is None:
                return None
            cc = dict(strip(y).c)
            cc['bits'] = str(v + 1)
            cc.pop('signed', None)
            hi = E('const', c=cc, ty=strip(y).ty)
        else:
            return None
        return lo, hi, h

    def stride(self, l, block):
        """(initial value expr, constant step) when local l is advanced by a constant once per iteration of the innermost loop
        around `block` that defines it (the one definition in the loop is `l = l@in + step`, dominates every latch and is not in
        an inner loop) and enters the loop with one loop-invariant value; None otherwise"""
        if not self.cut_loops:
            return None
        cand = [(h, comp) for (h, comp, defd) in self.loops() if block in comp and l in defd]
        if not cand:
            return None
        h, comp = cand[0]
        fn = self.fn
        ins = [(b, i, k) for (b, i, k) in self.defs.get(l, []) if b in comp]
        if len(ins) != 1 or ins[0][2] != 'full':
            return None
        db, di, _ = ins[0]
        dom = fn.dominators()
        latches = [p for p in fn.pred(h) if p in comp]
        if not latches or any(db not in dom.get(p, ()) for p in latches):
            return None
        for (h2, comp2, _) in self.loops():
            if h2 != h and comp2 < comp and db in comp2:
                return None
        saved = self._raw_in
        self._raw_in = True
        try:
            e = strip(norm(self._def_expr(l, db, di, 0)))
            if e.k == 'field' and e.name == '0' and e.args:
                e = strip(e.args[0])
            if not (e.k == 'binop' and e.name in ('AddWithOverflow', 'Add', 'AddUnchecked') and len(e.args) == 2):
                return None
            a, b_ = strip(e.args[0]), strip(e.args[1])

            def is_in(x):
                return x.k == 'local' and (x.c or {}).get('loopvar') and (x.c or {}).get('l') == l
            step = const_int(b_) if is_in(a) else const_int(a) if is_in(b_) else None
            if step is None:
                return None
            outs = [p for p in fn.pred(h) if p not in comp]
            inits = [norm(self.local(l, p, len(fn.blocks[p]['stmts']))) for p in outs]
            if not inits or any(strip(x).k == 'phi' or not _invariant(x) for x in inits) or len({x.show() for x in inits}) != 1:
                return None
            return inits[0], step
        except RecursionError:
            return None
        finally:
            self._raw_in = saved

    def induction_loops(self):
        """[(header, blocks, local, lo, hi)] of the counted while-loops of the function"""
        out = []
        for (h, comp, defd) in self.loops():
            for l in sorted(defd):
                if (self.fn.locals[l].get('name') or '') == '':
                    continue
                inner = [c2 for (h2, c2, d2) in self.loops() if c2 < comp and l in d2]
                if inner:
                    continue
                ind = self.induction(l, h)
                if ind is not None and ind[2] == h:
                    out.append((h, comp, l, ind[0], ind[1]))
        return out

    # ---------------------------------------------------------- reaching definitions
    def reaching(self, local, block, idx):
        """full definitions of `local` that reach program point (block, idx) [idx = index of the using stmt,
        or len(stmts) for the terminator]. Returns list of (block, idx) with idx -1 for a call terminator;
        contains None if the function entry is reachable without a def (parameter / uninit)."""
        key = (local, block, idx)
        if key in self._cache:
            return self._cache[key]
        fn = self.fn
        sites = {(b, i): k for (b, i, k) in self.defs.get(local, [])}
        res = []
        seen = set()

        def scan(b, upto, via_term):
            # scan statements of block b backwards starting below `upto`
            bl = fn.blocks[b]
            if via_term and (b, -1) in sites and sites[(b, -1)] == 'call':
                res.append((b, -1))
                return
            for i in range(min(upto, len(bl['stmts'])) - 1, -1, -1):
                if (b, i) in sites and sites[(b, i)] == 'full':
                    res.append((b, i))
                    return
            if b == 0:
                res.append(None)
                # fallthrough to preds too (loops back to bb0 are rare but possible)
            preds = fn.pred(b)
            if self.cut_loops:
                # one-iteration semantics: at the header of a loop that contains the use, a local that is
                # (re)defined inside that loop is the symbol `x@in`; loop-invariant locals are chased past the header
                for (h, comp, defd) in self.loops():
                    if h == b and block in comp:
                        if local in defd:
                            res.append('IN')
                            return
                        preds = [p for p in preds if p not in comp]
                        break
            for p in preds:
                if p in seen:
                    continue
                seen.add(p)
                scan(p, len(fn.blocks[p]['stmts']), True)

        scan(block, idx, False)
        out = []
        for r in res:
            if r not in out:
                out.append(r)
        self._cache[key] = out
        return out

    def has_partial_defs(self, local):
        return any(k == 'partial' for (_, _, k) in self.defs.get(local, []))

    # ---------------------------------------------------------- expressions
    def operand(self, op, block, idx, depth=0):
        if op['k'] == 'const':
            return self.const(op['c'])
        if op['k'] in ('copy', 'move'):
            return self.place(op['pl'], block, idx, depth)
        return E('unknown', op.get('dbg'))

    def const(self, c):
        if 'promoted' in c and self.fn.promoted:
            pi = c['promoted']
            if pi < len(self.fn.promoted):
                pf = Fn(self.fn.crate, {'name': self.fn.name + '::promoted[%d]' % pi, 'kind': 'promoted',
                                        'span': self.fn.span, 'body': self.fn.promoted[pi], 'promoted': []})
                pp = Prov(pf, self.F)
                # find the return block
                for b, bl in enumerate(pf.blocks):
                    if bl['term']['k'] == 'return':
                        e = pp.place({'l': 0, 'p': []}, b, len(bl['stmts']), 0)
                        if e.k != 'unknown':
                            return e
        return E('const', c=c, ty=c.get('ty'))

    def _field_stores(self, l, fidx):
        key = ('stores', l, fidx)
        if key not in self._cache:
            out = []
            for b, i, st in self.fn.stmts():
                if st['k'] == 'assign':
                    lp = st['lhs']
                    if lp['l'] == l and len(lp['p']) >= 2 and lp['p'][0] == 'deref' and isinstance(lp['p'][1], dict) and lp['p'][1].get('f') == fidx:
                        out.append((b, i, st, len(lp['p'])))
            self._cache[key] = out
        return self._cache[key]

    def place(self, pl, block, idx, depth=0):
        # store-to-load forwarding for fields of `*param` (e.g. self.r = Some(k); ... self.r.unwrap())
        pp = pl['p']
        if len(pp) >= 2 and pp[0] == 'deref' and isinstance(pp[1], dict) and 'f' in pp[1] and 1 <= pl['l'] <= self.fn.arg_count and depth < MAXDEPTH:
            stores = self._field_stores(pl['l'], pp[1]['f'])
            # only stores that can flow to this use matter
            stores = [(b, i, st, n) for (b, i, st, n) in stores
                      if (b == block and i < idx) or (b != block and block in self.fn.reachable(b)) or (b == block and block in [x for s_ in self.fn.succ(b) for x in self.fn.reachable(s_)])]
            if stores:
                dom = self.fn.dominators().get(block, set())
                cands = [(b, i, st, n) for (b, i, st, n) in stores if n == 2 and ((b in dom and b != block) or (b == block and i < idx))]
                if len(stores) == 1 and len(cands) == 1:
                    b, i, st, n = cands[0]
                    e = self.rvalue(st['rv'], b, i, depth + 1, None)
                    rest = {'l': pl['l'], 'p': pp[2:]}
                    return self._project(e, rest['p'], block, idx, depth)
                if len(cands) != len(stores) or len(stores) > 1:
                    base = self.local(pl['l'], block, idx, depth)
                    e0 = self._project(base, pp, block, idx, depth)
                    return E('phi', None, [e0] + [self._project(self.rvalue(st['rv'], b, i, depth + 1, None), pp[2:], block, idx, depth) for (b, i, st, n) in stores if n == 2])
        base = self.local(pl['l'], block, idx, depth)
        if VERSIONED and base.k == 'local' and not any(isinstance(q, dict) and ('idx' in q or 'cidx' in q) for q in pl['p']) and 'deref' not in pl['p'] \
                and self.has_partial_defs(pl['l']):
            # the whole object (or a field of it) is read -- copied, moved, borrowed for a call: the memory version it has
            # at this point (which of its element stores have happened)
            rs = self.reach_root(self.root_of(pl['l'], pl['p'], block, idx), None, block, idx)
            if rs is not None and rs != ('E',):
                base = E(base.k, base.name, base.args, base.site, base.ty, dict(base.c or {}, reach=rs))
        return self._project(base, pl['p'], block, idx, depth, pl['l'])

    # ---- memory versions: element stores an element read may see --------------------------------------------------
    def root_of(self, l, projs, b, i, depth=0):
        """object a place lives in: ('param', n, field..) / ('local', n, field..), resolving pointer temporaries"""
        fn = self.fn
        pp = list(projs)
        if pp and pp[0] == 'deref':
            if 1 <= l <= fn.arg_count and self.reaching(l, b, i) == [None]:
                base = ('param', l)
            else:
                base = self.ptr_target(l, b, i, depth)
            pp = pp[1:]
        else:
            base = ('local', l)
        fl = []
        for q in pp:
            if isinstance(q, dict) and 'f' in q:
                fl.append(str(q.get('name') or q['f']))
                continue
            if isinstance(q, dict) and 'downcast' in q:
                continue
            break
        return base + tuple(fl)

    def ptr_target(self, l, b, i, depth=0):
        fn = self.fn
        if depth > 24:
            return ('local', l)
        rs = self.reaching(l, b, i)
        if len(rs) != 1 or rs[0] == 'IN':
            return ('local', l)
        if rs[0] is None:
            return ('param', l) if 1 <= l <= fn.arg_count else ('local', l)
        db, di = rs[0]
        if di == -1:
            t = fn.blocks[db]['term']
            if t['fn']['k'] == 'def' and last(t['fn']['name']) in ('index_mut', 'index', 'deref_mut', 'deref', 'as_mut_slice', 'as_slice', 'as_mut', 'as_ref', 'borrow_mut', 'borrow', 'as_mut_ptr', 'as_ptr') \
                    and t['args'] and t['args'][0]['k'] in ('copy', 'move'):
                a = t['args'][0]['pl']
                n = len(fn.blocks[db]['stmts'])
                if (fn.local_ty(a['l']) or '').startswith(('&', '*')) and not a['p']:
                    return self.ptr_target(a['l'], db, n, depth + 1)
                return self.root_of(a['l'], a['p'], db, n, depth + 1)
            return ('local', l)
        rv = fn.blocks[db]['stmts'][di]['rv']
        if rv['k'] in ('ref', 'rawptr'):
            return self.root_of(rv['pl']['l'], rv['pl']['p'], db, di, depth + 1)
        if rv['k'] in ('use', 'cast') and rv['op']['k'] in ('copy', 'move'):
            q = rv['op']['pl']
            if not q['p']:
                return self.ptr_target(q['l'], db, di, depth + 1)
        return ('local', l)

    def _const_local(self, l, b, i):
        """value of an index local when it is a literal (`k[0]` is compiled to `k[_n]` with `_n = const 0`)"""
        rs = self.reaching(l, b, i)
        if len(rs) == 1 and rs[0] not in (None, 'IN') and rs[0][1] >= 0:
            rv = self.fn.blocks[rs[0][0]]['stmts'][rs[0][1]]['rv']
            if rv['k'] == 'use' and rv['op']['k'] == 'const':
                return const_int(self.const(rv['op']['c']))
        # checked arithmetic on literals (`t[8 - 1]`)
        key = ('constlocal', l, b, i)
        if key not in self._cache:
            self._cache[key] = None
            try:
                from .rules_i import eval_small
                v = eval_small(norm(self.local(l, b, i)), {})
                self._cache[key] = v if isinstance(v, int) and not isinstance(v, bool) else None
            except RecursionError:
                pass
        return self._cache[key]

    def elem_stores(self):
        """every statement or call that may write elements of an indexable object: (block, idx, root, const index | None,
        kills) with idx = len(stmts) for a call; `kills` when it overwrites the whole object"""
        if '_elem_stores' in self._cache:
            return self._cache['_elem_stores']
        fn = self.fn
        out = []
        self._cache['_elem_stores'] = out      # (re-entrancy guard: reaching() below does not need it)
        for b, bl in enumerate(fn.blocks):
            for i, st in enumerate(bl['stmts']):
                if st['k'] != 'assign':
                    continue
                lhs = st['lhs']
                pp = lhs['p']
                ip = [k_ for k_, q in enumerate(pp) if isinstance(q, dict) and ('idx' in q or 'cidx' in q or 'subslice' in q)]
                if ip:
                    q = pp[ip[0]]
                    ci = q['cidx'] if 'cidx' in q and not q.get('from_end') else None
                    if 'idx' in q:
                        ci = self._const_local(q['idx'], b, i)
                    out.append((b, i, self.root_of(lhs['l'], pp[:ip[0]], b, i), ci, False, q))
                elif pp:
                    # a field or whole-object store through a pointer: everything below it is overwritten
                    out.append((b, i, self.root_of(lhs['l'], pp, b, i), None, True, None))
                else:
                    out.append((b, i, ('local', lhs['l']), None, True, None))
            t = bl['term']
            if t['k'] == 'call':
                n = len(bl['stmts'])
                d = t.get('dest')
                if d is not None and not d['p']:
                    out.append((b, n, ('local', d['l']), None, True, None))
                nm = last(t['fn']['name']) if t['fn']['k'] == 'def' else '?'
                if nm in ('index_mut', 'deref_mut', 'as_mut_slice', 'as_mut', 'borrow_mut', 'iter_mut', 'as_mut_ptr', 'len', 'index', 'deref', 'iter'):
                    continue
                for a in t['args']:
                    if a['k'] in ('copy', 'move') and not a['pl']['p'] and (fn.local_ty(a['pl']['l']) or '').startswith(('&mut ', '*mut ')):
                        out.append((b, n, self.ptr_target(a['pl']['l'], b, n), None, False, 'call:' + nm))
        return out

    @staticmethod
    def _roots_alias(x, y):
        n = min(len(x), len(y))
        return x[:n] == y[:n]

    def reach_stores(self, l, before, proj, block, idx, calls_only=False):
        """memory version seen by the element read `place[proj]` at (block, idx): on every path backwards, the latest event
        that may write the element -- 'E' (the object as it was created, assigned as a whole or passed in) or (block, idx)
        of an element store that may alias it or of a call holding `&mut` to the object -- as a sorted tuple.  Two reads
        with the same version set see the same memory.  None when the object is never written element-wise here."""
        root = self.root_of(l, before, block, idx)
        ci = proj.get('cidx') if 'cidx' in proj and not proj.get('from_end') else None
        if 'idx' in proj:
            ci = self._const_local(proj['idx'], block, idx)
        return self.reach_root(root, ci, block, idx, calls_only)

    def reach_root(self, root, ci, block, idx, calls_only=False):
        """the version set of element ci (None: any element) of the object `root` at (block, idx)"""
        fn = self.fn
        stores = [s_ for s_ in self.elem_stores() if self._roots_alias(s_[2], root)]
        if calls_only:
            # direct field stores are handled by store->load forwarding; what is left are calls that may write the field
            stores = [s_ for s_ in stores if isinstance(s_[5], str)]
        if not any(not s_[4] for s_ in stores):
            return None
        at = {}
        for s_ in stores:
            at.setdefault(s_[0], []).append(s_)
        res = set()
        seen = set()

        def scan(b, upto):
            for s_ in sorted(at.get(b, ()), key=lambda s_: -s_[1]):
                if s_[1] >= upto:
                    continue
                if s_[4] and len(s_[2]) <= len(root):
                    res.add('E')
                    return
                if s_[3] is not None and ci is not None and s_[3] != ci:
                    continue
                # the latest write event that certainly touches the element (same constant index, a call holding `&mut`)
                # ends the walk; a store at a computed index may or may not touch it, so the walk goes on past it
                res.add((s_[0], s_[1]))
                if isinstance(s_[5], str) or (s_[3] is not None and s_[3] == ci and len(s_[2]) == len(root)):
                    return
            if b == 0:
                res.add('E')
            for p_ in fn.pred(b):
                if p_ in seen:
                    continue
                seen.add(p_)
                scan(p_, len(fn.blocks[p_]['stmts']) + 1)
        scan(block, idx)
        return tuple(sorted(res, key=lambda x: (0, 0, 0) if x == 'E' else (1,) + x))

    def stale_reads(self, e, block, idx):
        """element reads inside expression e whose memory version differs from the one a read of the same place at
        (block, idx) -- the statement that consumes e -- would see: values carried across a write of their source"""
        out = []
        for x in e.walk():
            if x.k == 'index' and isinstance(x.c, dict) and 'pl' in x.c:
                l, before, p = x.c['pl']
                now = self.reach_stores(l, before, p, block, idx)
                if now is not None and tuple(now) != tuple(x.c['reach']):
                    out.append(x)
        return out

    def _project(self, base, projs, block, idx, depth, root_l=None):
        e = base
        for k_, p in enumerate(projs):
            if root_l is not None and isinstance(p, dict) and ('idx' in p or 'cidx' in p) and VERSIONED:
                # an element read: which element stores of the same object it may see (memory versions)
                rs = self.reach_stores(root_l, projs[:k_], p, block, idx)
                if rs is not None:
                    c_ = {'reach': rs, 'pl': (root_l, projs[:k_], p)}
                    if 'idx' in p:
                        e = E('index', None, [e, self.local(p['idx'], block, idx, depth + 1)], c=c_)
                    else:
                        e = E('index', '%s%d' % ('-' if p['from_end'] else '', p['cidx']), [e], c=c_)
                    continue
            if p == 'deref':
                e = mk_deref(e)
            elif 'f' in p:
                e = mk_field(e, p['name'], p['f'])
                if root_l is not None and VERSIONED and k_ == len(projs) - 1 and e.k == 'field' and projs[0] == 'deref':
                    # a field read through a pointer: the calls holding `&mut` to the object that it may come after
                    rs = self.reach_stores(root_l, projs, {}, block, idx, calls_only=True)
                    if rs is not None and rs != ('E',):
                        e.c = dict(e.c or {}, reach=rs)
            elif 'idx' in p:
                e = E('index', None, [e, self.local(p['idx'], block, idx, depth + 1)])
            elif 'cidx' in p:
                e = E('index', '%s%d' % ('-' if p['from_end'] else '', p['cidx']), [e])
            elif 'downcast' in p:
                e = E('field', 'as ' + p['vname'], [e])
            else:
                e = E('unknown', 'proj', [e])
        return e

    def local(self, l, block, idx, depth=0):
        fn = self.fn
        if depth > MAXDEPTH:
            return E('local', fn.local_name(l))
        rs = self.reaching(l, block, idx)
        alts = []
        for r in rs:
            if r == 'IN':
                ind = self.induction(l, block) if not self._raw_in else None
                if ind is not None:
                    # `j = a; while j < b { ..; j += 1 }` is `for j in a..b`: the counter at the start of an iteration is
                    # an element of the range, written exactly as the for-loop's `next()` payload
                    rng = E('aggr', 'Range::Range', [ind[0], ind[1]], ty='std::ops::Range<%s>' % (fn.local_ty(l) or 'usize'))
                    nxt = E('call', 'std::iter::Iterator::next', [E('call', 'std::iter::IntoIterator::into_iter', [rng])], c={'induction': l, 'header': ind[2]})
                    alts.append(E('field', '0', [E('field', 'as Some', [nxt])], ty=fn.local_ty(l), c={'fidx': 0, 'induction': l}))
                    continue
                alts.append(E('local', fn.local_name(l) + '@in', ty=fn.local_ty(l), c={'l': l, 'loopvar': True}))
                continue
            if r is None:
                if 1 <= l <= fn.arg_count:
                    alts.append(E('param', fn.local_name(l), ty=fn.local_ty(l)))
                else:
                    alts.append(E('local', fn.local_name(l)))
                continue
            b, i = r
            if (l, b, i) in self._stack:
                # loop-carried value: do not unroll
                alts.append(E('local', fn.local_name(l) + '@loop'))
                continue
            self._stack.add((l, b, i))
            try:
                alts.append(self._def_expr(l, b, i, depth))
            finally:
                self._stack.discard((l, b, i))
        return self._merge(l, alts)

    def _def_expr(self, l, b, i, depth):
        fn = self.fn
        if True:
            if i == -1:
                t = fn.blocks[b]['term']
                c = t['fn']
                name = c['name'] if c['k'] == 'def' else None
                if name and name.endswith('box_assume_init_into_vec_unsafe'):
                    # `vec![a, b, ..]`: the literal array is written through the box pointer in the same block
                    for si in range(len(fn.blocks[b]['stmts']) - 1, -1, -1):
                        st = fn.blocks[b]['stmts'][si]
                        if st['k'] == 'assign' and st['lhs']['p'] and st['lhs']['p'][0] == 'deref' and st['rv']['k'] == 'aggr' and st['rv'].get('akind') == 'array':
                            return self.rvalue(st['rv'], b, si, depth + 1, fn.local_ty(l))
                args = [self.operand(a, b, len(fn.blocks[b]['stmts']), depth + 1) for a in t['args']]
                e = E('call', name, args, site=(b, -1), ty=fn.local_ty(l))
                if c['k'] == 'def':
                    e.c = c
                return e
            else:
                st = fn.blocks[b]['stmts'][i]
                return self.rvalue(st['rv'], b, i, depth + 1, fn.local_ty(l))

    def _merge(self, l, alts):
        fn = self.fn
        if self.has_partial_defs(l) and not (len(alts) == 1 and alts[0].k in ('aggr',) and False):
            # the local is also written field-wise / element-wise: keep the whole-value defs but mark it
            e = alts[0] if len(alts) == 1 else E('phi', None, alts)
            return E('local', fn.local_name(l), [e], ty=fn.local_ty(l))
        if len(alts) == 1:
            return alts[0]
        if not alts:
            return E('local', fn.local_name(l))
        return E('phi', None, alts, c={'phi_local': l, 'phi_name': fn.local_name(l)})

    def rvalue(self, rv, b, i, depth, ty=None):
        k = rv['k']
        if k == 'use':
            return self.operand(rv['op'], b, i, depth)
        if k == 'ref':
            return mk_ref(self.place(rv['pl'], b, i, depth))
        if k == 'rawptr':
            return mk_ref(self.place(rv['pl'], b, i, depth))
        if k == 'cast':
            inner = self.operand(rv['op'], b, i, depth)
            if 'Unsize' in rv['kind'] or rv['kind'].startswith('Transmute') and False:
                return inner
            return E('cast', rv['kind'], [inner], ty=rv['ty'], c={'from_ty': rv.get('from_ty')})
        if k == 'binop':
            return E('binop', rv['op'], [self.operand(rv['a'], b, i, depth), self.operand(rv['b'], b, i, depth)], site=(b, i), ty=rv.get('ty'))
        if k == 'unop':
            return E('unop', rv['op'], [self.operand(rv['a'], b, i, depth)], site=(b, i))
        if k == 'aggr':
            name = rv.get('akind')
            if name == 'adt':
                name = '%s::%s' % (last(rv['adt']), rv['variant'])
            e = E('aggr', name, [self.operand(o, b, i, depth) for o in rv['ops']], site=(b, i), ty=ty)
            e.c = rv
            return e
        if k == 'discr':
            return E('discr', None, [self.place(rv['pl'], b, i, depth)])
        if k == 'repeat':
            return E('aggr', 'repeat', [self.operand(rv['op'], b, i, depth)], site=(b, i), ty=ty)
        return E('unknown', rv.get('dbg'))


def mk_ref(e):
    if e.k == 'deref':
        return e.args[0]
    return E('ref', None, [e])


def mk_deref(e):
    if e.k == 'ref':
        return e.args[0]
    return E('deref', None, [e])


def mk_field(e, name, fidx):
    # projection out of a known aggregate
    if e.k == 'aggr' and e.c is not None and e.name not in ('repeat',):
        ops = e.args
        if e.name == 'tuple' or e.c.get('akind') == 'adt':
            if fidx < len(ops):
                return ops[fidx]
    return E('field', name, [e], c={'fidx': fidx})


def strip(e):
    """normalise: drop refs/derefs, transparent calls and value-preserving casts"""
    while True:
        if e.k in ('ref', 'deref'):
            e = e.args[0]
            continue
        if e.k == 'call' and e.args and is_transparent(e.name):
            e = e.args[0]
            continue
        if e.k == 'call' and len(e.args) == 2 and e.name and last(e.name) in ('index', 'index_mut'):
            # x[..] (RangeFull) is the identity
            idx = strip(e.args[1])
            if idx.k == 'aggr' and idx.name == 'RangeFull::RangeFull':
                e = e.args[0]
                continue
            if idx.k == 'const' and 'RangeFull' in (idx.ty or ''):
                e = e.args[0]
                continue
        if e.k == 'local' and e.args:
            # marked-as-mutated wrapper: keep
            return e
        return e


def const_int(e):
    """integer value of a constant expression (scalar, [u64;N] little-endian limbs, item reference), else None"""
    e = strip(e)
    if e.k == 'const':
        c = e.c
        if c.get('k') == 'int':
            return int(c['signed']) if 'signed' in c else int(c['bits'])
        if 'bytes' in c and c.get('k') in ('bytes', 'mem_ref'):
            return int.from_bytes(bytes.fromhex(c['bytes']), 'little')
        return None
    if e.k == 'aggr' and e.name == 'array':
        vals = [const_int(a) for a in e.args]
        if any(v is None for v in vals):
            return None
        # element width from type string
        w = elem_width(e.ty or (e.c or {}).get('ety'))
        if (e.c or {}).get('ety'):
            w = elem_width_of(e.c['ety'])
        if w is None:
            return None
        r = 0
        for i, v in enumerate(vals):
            r |= (v & ((1 << (8 * w)) - 1)) << (8 * w * i)
        return r
    if e.k == 'cast' and e.args:
        return const_int(e.args[0])
    # constant folding of integer arithmetic (the compiler leaves `65 + 32` as a checked add at mir-opt-level 0)
    if e.k == 'field' and e.name == '0' and e.args:
        b = strip(e.args[0])
        if b.k == 'binop' and b.name.endswith('WithOverflow'):
            x, y = const_int(b.args[0]), const_int(b.args[1])
            if x is not None and y is not None:
                op = b.name[:-len('WithOverflow')]
                return {'Add': x + y, 'Sub': x - y, 'Mul': x * y}.get(op)
    if e.k == 'binop' and len(e.args) == 2 and e.name in ('Add', 'Sub', 'Mul', 'Div', 'Rem', 'Shl', 'Shr', 'BitAnd', 'BitOr', 'BitXor', 'AddUnchecked', 'SubUnchecked', 'MulUnchecked'):
        x, y = const_int(e.args[0]), const_int(e.args[1])
        if x is not None and y is not None:
            try:
                return {'Add': x + y, 'Sub': x - y, 'Mul': x * y, 'Div': x // y if y else None, 'Rem': x % y if y else None,
                        'Shl': x << y, 'Shr': x >> y, 'BitAnd': x & y, 'BitOr': x | y, 'BitXor': x ^ y,
                        'AddUnchecked': x + y, 'SubUnchecked': x - y, 'MulUnchecked': x * y}[e.name]
            except Exception:
                return None
    return None


def elem_width_of(t):
    return {'u8': 1, 'i8': 1, 'u16': 2, 'i16': 2, 'u32': 4, 'i32': 4, 'u64': 8, 'i64': 8, 'usize': 8, 'isize': 8,
            'u128': 16, 'i128': 16}.get(t)


def elem_width(ty):
    if not ty:
        return None
    t = ty.strip('[]').split(';')[0].strip()
    return elem_width_of(t)


def const_item(e):
    """name of the const/static item a constant expression refers to, else None"""
    e = strip(e)
    if e.k == 'const':
        return e.c.get('item') or e.c.get('static')
    return None


def norm(e, depth=0):
    """deep normalisation: strip refs/derefs/transparent calls at every level (returns a new tree)"""
    e = strip(e)
    if depth > 80 or not e.args:
        return e
    n = E(e.k, e.name, [norm(a, depth + 1) for a in e.args], e.site, e.ty, e.c)
    n = _prim_operator(n)
    return simplify_slices(simplify_variant(n))


_PRIM_OPS = {'shr': 'Shr', 'shl': 'Shl', 'bitand': 'BitAnd', 'bitor': 'BitOr', 'bitxor': 'BitXor', 'add': 'Add', 'sub': 'Sub', 'mul': 'Mul',
             'div': 'Div', 'rem': 'Rem', 'not': 'Not', 'neg': 'Neg'}
_PRIM_TYS = ('u8', 'u16', 'u32', 'u64', 'u128', 'usize', 'i8', 'i16', 'i32', 'i64', 'i128', 'isize')


def _prim_operator(e):
    """`<&u64 as Shr<i32>>::shr(x, n)` (an operator applied to a reference to a primitive integer goes through the trait
    impl) is the built-in operation: rendered and analysed like `x >> n`"""
    import re as _re
    if e.k != 'call' or not e.name or not e.name.startswith('core::ops::'):
        return e
    m = _re.match(r'^core::ops::\w+::<impl std::ops::(\w+)(?:<([^>]*)>)? for (&?(?:mut )?)(\w+)>::(\w+)$', e.name)
    if not m:
        return e
    trait, rhs, _, self_ty, meth = m.groups()
    if self_ty not in _PRIM_TYS or meth not in _PRIM_OPS:
        return e
    if rhs and rhs.lstrip('&').strip() not in _PRIM_TYS:
        return e
    op = _PRIM_OPS[meth]
    if len(e.args) == 2:
        return E('binop', op, e.args, e.site, e.ty, None)
    if len(e.args) == 1 and op in ('Not', 'Neg'):
        return E('unop', op, e.args, e.site, e.ty, None)
    return e


_BRANCH_OK = {'std::result::Result': ('Ok', 'Err'), 'std::option::Option': ('Some', 'None')}


def _variant_of(x):
    x = strip(x)
    if x.k == 'aggr' and x.c is not None and x.c.get('akind') == 'adt':
        return x.c.get('variant')
    if x.k == 'call' and last(x.name or '') == 'from_residual':
        # the error arm of `?`: always the failing variant of the function's return type
        if 'std::result::Result' in x.name:
            return 'Err'
        if 'std::option::Option' in x.name:
            return 'None'
    return None


def _payload(x, want, other, idx):
    """field idx of variant `want` of x when x is (a merge of) enum aggregates; None if not known"""
    x = strip(x)
    v = _variant_of(x)
    if v == want:
        return x.args[idx] if idx < len(x.args) else None
    if x.k == 'phi':
        outs = []
        for a in x.args:
            va = _variant_of(a)
            if va == other:
                continue            # this alternative does not reach a use of the `want` payload
            if va == want:
                a_ = strip(a)
                if idx >= len(a_.args):
                    return None
                outs.append(a_.args[idx])
            else:
                inner = _payload(a, want, other, idx) if strip(a).k == 'phi' else None
                if inner is None:
                    return None
                outs.append(inner)
        if not outs:
            return None
        if len(outs) == 1:
            return outs[0]
        return E('phi', None, outs, c=x.c)
    return None


def _mk_int(v):
    return E('const', c={'k': 'int', 'bits': str(v), 'ty': 'usize', 'size': 8}, ty='usize')


def _add(a, b):
    """a + b as the checked-add expression the compiler emits (constants folded)"""
    ca, cb = const_int(a), const_int(b)
    if ca is not None and cb is not None:
        return _mk_int(ca + cb)
    if cb == 0:
        return a
    if ca == 0:
        return b
    return E('field', '0', [E('binop', 'AddWithOverflow', [a, b], ty='(usize, bool)')], c={'fidx': 0})


def simplify_slices(e):
    """one notation for sub-slices:  x.split_at(k).0 = x[..k],  x.split_at(k).1 = x[k..],  and a slice of a slice is a
    slice of the original: x[a..][..b] = x[a..a+b], x[a..][b..] = x[a+b..], x[..a][b..] = x[b..a], x[a..c][b..d] = x[a+b..a+d]"""
    if e.k == 'field' and e.args and e.name in ('0', '1'):
        c = strip(e.args[0])
        if c.k == 'call' and last(c.name or '') in ('split_at', 'split_at_mut') and len(c.args) == 2:
            if e.name == '0':
                rng = E('aggr', 'Range::Range', [_mk_int(0), c.args[1]], c={'akind': 'adt', 'adt': 'core::ops::range::Range', 'variant': 'Range'})
            else:
                rng = E('aggr', 'RangeFrom::RangeFrom', [c.args[1]], c={'akind': 'adt', 'adt': 'core::ops::range::RangeFrom', 'variant': 'RangeFrom'})
            return simplify_slices(E('call', 'core::slice::index::<impl std::ops::Index<I> for [T]>::index', [c.args[0], rng], site=c.site, ty='&[u8]'))
    # the length of x[a..] is len(x) - a, of x[a..b] is b - a, of x[..b] is b — written as the checked subtraction the compiler
    # emits, so that every later analysis sees the expression a hand-written `x.len() - a` has
    if ((e.k == 'call' and last(e.name or '') == 'len') or (e.k == 'unop' and e.name == 'PtrMetadata')) and len(e.args) == 1:
        sl = strip(e.args[0])
        if sl.k == 'call' and last(sl.name or '') in ('index', 'index_mut') and len(sl.args) == 2:
            r = strip(sl.args[1])
            def sub(a, b):
                ca, cb = const_int(a), const_int(b)
                if ca is not None and cb is not None and ca >= cb:
                    return _mk_int(ca - cb)
                if cb == 0:
                    return a
                return E('field', '0', [E('binop', 'SubWithOverflow', [a, b], ty='(usize, bool)')], c={'fidx': 0}, ty='usize')
            if r.k == 'aggr' and r.name == 'RangeFrom::RangeFrom' and r.args:
                whole = E(e.k, e.name, [sl.args[0]], site=e.site, ty=e.ty, c=e.c)
                return sub(simplify_slices(whole), r.args[0])
            if r.k == 'aggr' and r.name == 'Range::Range' and len(r.args) == 2:
                return sub(r.args[1], r.args[0])
            if r.k == 'aggr' and r.name == 'RangeTo::RangeTo' and r.args:
                return r.args[0]
    if e.k == 'call' and last(e.name or '') in ('index', 'index_mut') and len(e.args) == 2:
        outer = strip(e.args[1])
        inner = strip(e.args[0])
        if outer.k == 'aggr' and outer.name in ('Range::Range', 'RangeTo::RangeTo', 'RangeFrom::RangeFrom') \
                and inner.k == 'call' and last(inner.name or '') in ('index', 'index_mut') and len(inner.args) == 2:
            ir = strip(inner.args[1])
            if ir.k == 'aggr' and ir.name in ('Range::Range', 'RangeTo::RangeTo', 'RangeFrom::RangeFrom'):
                i_lo = ir.args[0] if ir.name in ('Range::Range', 'RangeFrom::RangeFrom') else _mk_int(0)
                i_hi = ir.args[1] if ir.name == 'Range::Range' else ir.args[0] if ir.name == 'RangeTo::RangeTo' else None
                o_lo = outer.args[0] if outer.name in ('Range::Range', 'RangeFrom::RangeFrom') else _mk_int(0)
                o_hi = outer.args[1] if outer.name == 'Range::Range' else outer.args[0] if outer.name == 'RangeTo::RangeTo' else None
                lo = _add(i_lo, o_lo)
                hi = _add(i_lo, o_hi) if o_hi is not None else i_hi
                def mk(kind, args):
                    return E('aggr', '%s::%s' % (kind, kind), args, c={'akind': 'adt', 'adt': 'core::ops::range::' + kind, 'variant': kind})
                if hi is None:
                    rng = mk('RangeFrom', [lo])
                else:
                    rng = mk('Range', [lo, hi])
                return simplify_slices(E('call', e.name, [inner.args[0], rng], site=e.site, ty=e.ty))
    return e


def simplify_variant(e):
    """`?` on a value whose variant the data flow knows: ((branch(X) as Continue).0) with X = Ok(v) (or a merge of
    Ok(v) and Err(..) alternatives: the Err ones take the other edge) is v; same for direct `as Ok` / `as Some`
    projections and for fields of a known tuple."""
    if e.k != 'field' or not e.args:
        return e
    name = e.name or ''
    c = strip(e.args[0])
    # field i of a known tuple / struct aggregate
    if not name.startswith('as '):
        if c.k == 'aggr' and c.c is not None and (c.name == 'tuple' or c.c.get('akind') in ('adt', 'closure')):
            i = (e.c or {}).get('fidx')
            if i is None and name.isdigit():
                i = int(name)
            if i is not None and i < len(c.args):
                return c.args[i]
        if c.k == 'phi' and c.args:
            # field i of a merge of tuples (`let (a, b) = match .. { .. => (x, y), .. => (u, v) }`) is the merge of the fields
            i = (e.c or {}).get('fidx')
            if i is None and name.isdigit():
                i = int(name)
            alts = [strip(a) for a in c.args]
            def is_pair(a):
                return (a.k == 'aggr' and a.c is not None and a.name == 'tuple' and i < len(a.args)) or \
                       (a.k == 'call' and last(a.name or '') in ('split_at', 'split_at_mut') and len(a.args) == 2 and i in (0, 1))
            if i is not None and all(is_pair(a) for a in alts):
                parts = [a.args[i] if a.k == 'aggr' else simplify_slices(E('field', str(i), [a], c={'fidx': i})) for a in alts]
                return parts[0] if len(parts) == 1 else E('phi', None, parts, c=c.c)
        if c.k == 'field' and (c.name or '').startswith('as ') and c.args:
            i = (e.c or {}).get('fidx')
            if i is None and name.isdigit():
                i = int(name)
            src = strip(c.args[0])
            vname = c.name[3:]
            if i is not None:
                if src.k == 'call' and (src.name or '').endswith('>::branch') and len(src.args) == 1 and vname in ('Continue',):
                    for ty_, (ok, bad) in _BRANCH_OK.items():
                        if ty_ in src.name:
                            r = _payload(src.args[0], ok, bad, i)
                            if r is not None:
                                return r
                elif vname in ('Ok', 'Some', 'Err'):
                    other = {'Ok': 'Err', 'Err': 'Ok', 'Some': 'None'}[vname]
                    r = _payload(src, vname, other, i)
                    if r is not None:
                        return r
    return e


def same(a, b, depth=0):
    """structural equality of normalised expressions (sites ignored)"""
    if depth > 80:
        return True
    if a.k != b.k:
        return False
    if a.k == 'const':
        return const_key(a) == const_key(b)
    if a.k in ('param', 'local'):
        return a.name == b.name
    if a.name != b.name or len(a.args) != len(b.args):
        return False
    return all(same(x, y, depth + 1) for x, y in zip(a.args, b.args))


def const_key(e):
    c = e.c
    if 'item' in c:
        return ('item', c['item'])
    if 'static' in c:
        return ('static', c['static'])
    if c.get('k') == 'int':
        return ('int', c['bits'], c.get('ty'))
    return ('other', c.get('bytes'), c.get('ty'), c.get('fn'))


def _invariant(e, depth=0):
    """the expression involves nothing that can change inside a loop: constants, parameters (not through calls other
    than len), arithmetic"""
    e = strip(e)
    if depth > 20:
        return False
    if e.k == 'const':
        return True
    if e.k == 'param':
        return '&mut' not in (e.ty or '')
    if e.k in ('binop', 'unop', 'cast', 'field', 'deref', 'ref'):
        return all(_invariant(a, depth + 1) for a in e.args)
    if e.k == 'call' and last(e.name) == 'len' and len(e.args) == 1:
        return _invariant(e.args[0], depth + 1)
    return False
