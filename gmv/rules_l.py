"""L — panic discipline: enumerate every panic site (bounds checks, slice indexing, arithmetic overflow of
index/length arithmetic, unwrap/expect, explicit assertions, length-checked copies) in the call closure of the
entry points and discharge each one by
  * interval evaluation of the provenance expressions of index and length (with dominating-guard refinement),
  * a symbolic loop lemma (block loop, tail loop, full-range loop, equal-length loop),
  * a type argument (fixed-size arrays, infallible writers),
  * a callee/caller length precondition that is propagated to the callers (entry points must have none), or
  * a reviewed-table entry (one line of reason, keyed by function and site description).
Anything else is reported.  Limb-value arithmetic (u64/u128/i64 values) is enumerated but not armed."""
import re
from .prov import Prov, E, norm, strip, same, last, fn_is, const_int
from .builder import Canon, select_conds, root_local
from . import rules_g as G

INF = 1 << 200
TYR = {'u8': (0, 255), 'u16': (0, 65535), 'u32': (0, (1 << 32) - 1), 'u64': (0, (1 << 64) - 1), 'usize': (0, (1 << 64) - 1),
       'u128': (0, (1 << 128) - 1), 'i8': (-128, 127), 'i16': (-32768, 32767), 'i32': (-(1 << 31), (1 << 31) - 1),
       'i64': (-(1 << 63), (1 << 63) - 1), 'isize': (-(1 << 63), (1 << 63) - 1), 'bool': (0, 1), 'char': (0, 0x10ffff)}
ARMED_INT = ('usize', 'u32', 'u16', 'u8', 'i32', 'isize', 'u128', 'i128', 'i64', 'i16', 'i8')

PANIC_CALLS = ('unwrap', 'expect', 'index', 'index_mut', 'copy_from_slice', 'clone_from_slice', 'insert', 'remove', 'split_at',
               'swap', 'unwrap_err', 'expect_err')


def ty_range(ty):
    if not ty:
        return (-INF, INF)
    ty = ty.strip()
    while ty.startswith('&'):
        ty = ty[1:].strip()
        if ty.startswith('mut '):
            ty = ty[4:].strip()
    return TYR.get(ty, (-INF, INF))


def array_len(ty):
    """N for `[T; N]`, `&[T; N]`, `&mut [T; N]`"""
    if not ty:
        return None
    m = re.match(r'^(?:&(?:mut )?)*\[.*; (\d+)\]$', ty.strip())
    return int(m.group(1)) if m else None


class Site:
    def __init__(self, fn, block, kind, desc, armed=True):
        self.fn = fn
        self.block = block
        self.kind = kind
        self.desc = desc
        self.armed = armed
        self.status = None
        self.reason = ''
        self.need = None    # (param, min_len)

    def where(self):
        return G.where(self.fn, self.block)

    def key(self):
        return '%s#%s' % (self.fn.short, self.desc)


class Analyzer:
    def __init__(self, F, reviewed=None, contracts=None):
        self.F = F
        self.reviewed = reviewed or {}
        self.need = {}        # fn name -> {param name: min len}
        self._an = {}
        self.contracts = contracts or {}

    # ------------------------------------------------------------------ per-function
    def analyze(self, name, stack=()):
        if name in self._an:
            return self._an[name]
        fn = self.F.fns.get(name)
        if fn is None:
            return []
        if name in stack:
            return []
        self._an[name] = []      # recursion guard
        # callees first (bottom-up summaries)
        for b, t in fn.calls():
            c = t['fn']
            if c['k'] == 'def' and c['name'] in self.F.fns:
                self.analyze(c['name'], stack + (name,))
        for _, _, st in fn.stmts():
            rv = st.get('rv')
            if rv and rv['k'] == 'aggr' and rv.get('akind') == 'closure' and rv['closure'] in self.F.fns and rv['closure'] not in getattr(self.F, 'fully_inlined', ()):
                self.analyze(rv['closure'], stack + (name,))
        fa = FnAnalysis(self, fn)
        sites = fa.run()
        need = finalize_needs(self, name, sites, fn)
        if need:
            # second pass: the precondition may discharge further sites of the same function
            fa = FnAnalysis(self, fn)
            fa.need = dict(need)
            sites = fa.run()
            n2 = finalize_needs(self, name, sites, fn)
            for k, v in n2.items():
                need[k] = max(need.get(k, 0), v)
        for s_ in sites:
            if s_.status is None:
                r = self.reviewed.get(s_.key()) or self.reviewed.get(s_.fn.short + '#*' + s_.kind)
                if not r and s_.kind in ('index', 'bounds'):
                    # a table kept in a Vec is indexed through Index::index, the same table kept in an array through a
                    # bounds assertion: one reviewed reason covers both
                    r = self.reviewed.get(s_.fn.short + '#*' + ('bounds' if s_.kind == 'index' else 'index'))
                if r:
                    s_.status, s_.reason = 'REVIEWED', r
        self._an[name] = sites
        self.need[name] = need
        return sites

    def closure_sites(self, roots):
        seen, ext = self.F.closure(roots)
        out = []
        for n in sorted(seen):
            out += self.analyze(n)
        return out, seen


class FnAnalysis:
    def __init__(self, an, fn):
        self.an = an
        self.F = an.F
        self.fn = fn
        self.P = Prov(fn, self.F, cut_loops=True)
        self.cn = Canon(fn, self.P)
        self.need = {}
        self._guards = {}
        self.params = [fn.local_name(i) for i in range(1, fn.arg_count + 1)]
        # contract of core::array::from_fn::<T, N, F>: the closure is called with 0, 1, .., N-1 only
        self.param_iv = {}
        if '::{closure' in fn.name and fn.arg_count == 2:
            parent = self.F.fns.get(fn.name.rsplit('::{closure', 1)[0])
            if parent is not None:
                for b_, t_ in parent.calls():
                    if t_['fn']['k'] == 'def' and last(t_['fn']['name']) == 'from_fn' and 'array' in t_['fn']['name'] and t_.get('dest') is not None:
                        m_ = re.match(r'^\[.*; (\d+)\]$', (parent.local_ty(t_['dest']['l']) or '').strip())
                        from .inline import _closure_of
                        if m_ and t_['args'] and _closure_of(parent, t_['args'][0]) == fn.name:
                            self.param_iv[fn.local_name(2)] = (0, int(m_.group(1)) - 1)

    # ---------------------------------------------------------------- guards dominating a block
    def guards(self, block):
        if block in self._guards:
            return self._guards[block]
        fn, P = self.fn, self.P
        dom = fn.dominators()
        out = []
        for sb in dom.get(block, ()):
            t = fn.blocks[sb]['term']
            if sb == block or t['k'] != 'switch' or t['ty'] != 'bool':
                continue
            succs = fn.succ(sb)
            leading = [s2 for s2 in succs if s2 == block or block in fn.reachable(s2, removed_blocks={sb})]
            if len(leading) != 1:
                continue
            false_t = [tb for v, tb in t['targets'] if v == '0']
            truth = not (false_t and leading[0] == false_t[0])
            p = G.classify(P.operand(t['op'], sb, len(fn.blocks[sb]['stmts'])))
            if p.neg:
                truth = not truth
            out.append((p, truth))
        self._guards[block] = out
        return out

    # ---------------------------------------------------------------- interval evaluation
    def iv(self, e, block, depth=0):
        e = strip(e)
        if depth > 40:
            return ty_range(e.ty)
        v = const_int(e)
        if v is not None:
            return (v, v)
        lo, hi = self._iv(e, block, depth)
        # refinement by dominating guards on the same expression
        s = None
        for p, truth in self.guards(block):
            if p.kind == 'cmp' and len(p.args) == 2:
                for (x, c, op) in ((p.args[0], p.args[1], p.op), (p.args[1], p.args[0], G.SWAPOP.get(p.op))):
                    cv = const_int(c)
                    if cv is None or op is None:
                        continue
                    if s is None:
                        s = self.cn.c(e)
                    if self.cn.c(x) != s:
                        continue
                    o = op if truth else G.NEGOP[op]
                    if o == 'Lt':
                        hi = min(hi, cv - 1)
                    elif o == 'Le':
                        hi = min(hi, cv)
                    elif o == 'Gt':
                        lo = max(lo, cv + 1)
                    elif o == 'Ge':
                        lo = max(lo, cv)
                    elif o == 'Eq':
                        lo, hi = max(lo, cv), min(hi, cv)
            elif p.kind == 'eq' and len(p.args) == 2:
                for (x, c) in ((p.args[0], p.args[1]), (p.args[1], p.args[0])):
                    cv = const_int(c)
                    if cv is None:
                        continue
                    if s is None:
                        s = self.cn.c(e)
                    if self.cn.c(x) != s:
                        continue
                    if truth:
                        lo, hi = max(lo, cv), min(hi, cv)
                    elif cv == lo:
                        lo = cv + 1
                    elif cv == hi:
                        hi = cv - 1
        return (lo, hi)

    def _iv(self, e, block, depth):
        k = e.k
        if k == 'cast':
            a = self.iv(e.args[0], block, depth + 1)
            r = ty_range(e.ty)
            if a[0] >= r[0] and a[1] <= r[1]:
                return a
            return r
        if k == 'field' and e.name == '0' and e.args:
            b = strip(e.args[0])
            if b.k == 'binop' and b.name.endswith('WithOverflow'):
                return self.arith(b.name[:-len('WithOverflow')], b, block, depth)
            if b.k == 'call' and last(b.name) in ('overflowing_add', 'overflowing_sub', 'overflowing_mul'):
                return ty_range(self.int_ty_of_call(b))
            if b.k == 'field' and b.name == '0' and b.args and strip(b.args[0]).k == 'field' and strip(b.args[0]).name == 'as Some':
                # (i, x) of an enumerate(): i in 0..len
                src = strip(strip(b.args[0]).args[0])
                if src.k == 'call' and last(src.name) == 'next':
                    it = strip(src.args[0])
                    while it.k == 'call' and last(it.name) in ('into_iter', 'by_ref'):
                        it = strip(it.args[0])
                    if it.k == 'call' and last(it.name) == 'enumerate':
                        cnt = self.iter_count(it.args[0], block, depth + 1)
                        return (0, cnt[1] - 1)
            if b.k == 'field' and b.name in ('as Some', 'as Continue', 'as Ok'):
                src = strip(b.args[0])
                if src.k == 'call' and last(src.name) == 'next':
                    it = strip(src.args[0])
                    rev = False
                    while it.k == 'call' and last(it.name) in ('into_iter', 'iter', 'rev', 'by_ref'):
                        it = strip(it.args[0])
                    if it.k == 'aggr' and it.name == 'Range::Range':
                        a = self.iv(it.args[0], block, depth + 1)
                        bnd = self.iv(it.args[1], block, depth + 1)
                        return (a[0], bnd[1] - 1)
                    return ty_range(e.ty)
        if k == 'field' and e.name == '1' and e.args:
            return (0, 1)
        if k == 'binop':
            return self.arith(e.name, e, block, depth)
        if k == 'unop' and e.name == 'Not':
            return ty_range(e.ty)
        if k == 'unop' and e.name == 'PtrMetadata' and e.args:
            return self.alloc_cap(self.length(e.args[0], block, depth + 1), e.args[0])
        if k == 'call':
            ln = last(e.name)
            if ln == 'len' and e.args:
                return self.alloc_cap(self.length(e.args[0], block, depth + 1), e.args[0])
            if ln in ('wrapping_add', 'wrapping_sub', 'wrapping_mul', 'rotate_left', 'rotate_right', 'from_be_bytes', 'from_le_bytes'):
                m = re.search(r'<impl (\w+)>', e.name or '')
                return ty_range(m.group(1)) if m else (-INF, INF)
            if ln == 'from' and e.args:
                return self.iv(e.args[0], block, depth + 1)
            if ln in ('min',) and len(e.args) == 2:
                a, b = self.iv(e.args[0], block, depth + 1), self.iv(e.args[1], block, depth + 1)
                return (min(a[0], b[0]), min(a[1], b[1]))
            if ln == 'sm9_u256_get_booth':
                w = const_int(e.args[1]) if len(e.args) > 1 else None
                if w is not None:
                    return (-(1 << (w - 1)), 1 << (w - 1))
            return ty_range(e.ty)
        if k == 'phi':
            rs = [self.iv(a, block, depth + 1) for a in e.args]
            return (min(r[0] for r in rs), max(r[1] for r in rs))
        if k == 'index':
            return ty_range(self.elem_ty(e))
        if k == 'local' and e.c and e.c.get('loopvar'):
            r = self.counter(e.c['l'])
            tr = ty_range(e.ty)
            return (max(r[0], tr[0]), min(r[1], tr[1]))
        if k == 'param' and e.name in getattr(self, 'param_iv', {}):
            return self.param_iv[e.name]
        if k in ('local', 'param'):
            return ty_range(e.ty)
        return ty_range(e.ty)

    def alloc_cap(self, r, coll):
        """language guarantee: a slice, array or Vec of a sized non-zero-sized element type occupies at most isize::MAX
        bytes, so its length is at most isize::MAX / size_of(element)"""
        m = re.search(r'(?:\[|Vec<)\s*(u8|i8|u16|i16|u32|i32|u64|i64|usize|isize|u128|i128|bool)\s*(?:[;\]>,])', strip(coll).ty or '')
        if not m:
            return r
        sz = {'u8': 1, 'i8': 1, 'bool': 1, 'u16': 2, 'i16': 2, 'u32': 4, 'i32': 4, 'u64': 8, 'i64': 8, 'usize': 8, 'isize': 8, 'u128': 16, 'i128': 16}[m.group(1)]
        return (r[0], min(r[1], ((1 << 63) - 1) // sz))

    def iter_source(self, it):
        """decode an iterator expression: (kind, collection expr, parameter) with kind in range / slice / chunks_exact /
        chunks / windows; adapters that keep the element count (rev, by_ref, into_iter, iter, iter_mut, enumerate is
        handled by the caller) are stripped"""
        it = strip(it)
        while it.k == 'call' and last(it.name) in ('into_iter', 'iter', 'iter_mut', 'rev', 'by_ref', 'copied', 'cloned') and it.args:
            it = strip(it.args[0])
        if it.k == 'aggr' and it.name == 'Range::Range':
            return ('range', it, None)
        if it.k == 'call' and last(it.name) in ('chunks_exact', 'chunks', 'windows', 'chunks_exact_mut', 'chunks_mut', 'rchunks_exact', 'rchunks_exact_mut') and len(it.args) == 2:
            kk = const_int(it.args[1])
            # (chunks taken from the end have the same count and the same element length)
            return (last(it.name).replace('_mut', '').replace('rchunks_exact', 'chunks_exact'), it.args[0], kk)
        return ('slice', it, None)

    def iter_count(self, it, block, depth):
        """interval of the number of elements an iterator yields"""
        src = self.iter_source(it)
        if src[0] == 'range':
            a = self.iv(src[1].args[0], block, depth + 1)
            b = self.iv(src[1].args[1], block, depth + 1)
            return (max(0, b[0] - a[1]), max(0, b[1] - a[0]))
        ll = self.length(src[1], block, depth + 1)
        if src[0] == 'slice':
            return ll
        k = src[2]
        if not k:
            return (0, ll[1])
        if src[0] == 'chunks_exact':
            return (ll[0] // k, ll[1] // k if ll[1] < INF else INF)
        if src[0] == 'chunks':
            return ((ll[0] + k - 1) // k, (ll[1] + k - 1) // k if ll[1] < INF else INF)
        if src[0] == 'windows':
            return (max(0, ll[0] - k + 1), max(0, ll[1] - k + 1) if ll[1] < INF else INF)
        return (0, ll[1])

    def counter(self, l):
        """invariant interval of a loop counter: all definitions are constants or `x = x@in +/- k`;
        the bound on the moving side comes from the guards that dominate the increment/decrement"""
        key = ('counter', l)
        if key in self._guards:
            return self._guards[key]
        self._guards[key] = (-INF, INF)
        fn, P = self.fn, self.P
        inits, incs, decs = [], [], []
        ok = True
        for (b, i, kind) in P.defs.get(l, []):
            if kind != 'full' or i == -1:
                ok = False
                break
            rv = fn.blocks[b]['stmts'][i]['rv']
            e = norm(P.rvalue(rv, b, i, 0))
            v = const_int(e)
            if v is not None:
                inits.append(v)
                continue
            step = None
            x = strip(e)
            if x.k == 'field' and x.name == '0' and x.args:
                x = strip(x.args[0])
            if x.k == 'binop' and x.name in ('AddWithOverflow', 'SubWithOverflow', 'Add', 'Sub') and len(x.args) == 2:
                a0, a1 = strip(x.args[0]), strip(x.args[1])
                if a0.k == 'local' and a0.c and a0.c.get('l') == l and const_int(a1) is not None:
                    step = const_int(a1) if x.name.startswith('Add') else -const_int(a1)
            if step is None or step == 0:
                ok = False
                break
            (incs if step > 0 else decs).append((b, step))
        res = (-INF, INF)
        if ok and inits and not (incs and decs):
            tr = ty_range(fn.local_ty(l))
            name = fn.local_name(l) + '@in'
            def bound_at(b):
                lo, hi = tr
                for p, truth in self.guards(b):
                    if p.kind in ('cmp', 'eq') and len(p.args) == 2:
                        for (xx, cc, op) in ((p.args[0], p.args[1], p.op if p.kind == 'cmp' else 'Eq'), (p.args[1], p.args[0], G.SWAPOP.get(p.op) if p.kind == 'cmp' else 'Eq')):
                            cv = const_int(cc)
                            xs = strip(xx)
                            if cv is None or op is None or not (xs.k == 'local' and xs.c and xs.c.get('l') == l):
                                continue
                            o = op if truth else G.NEGOP[op]
                            if o == 'Lt': hi = min(hi, cv - 1)
                            elif o == 'Le': hi = min(hi, cv)
                            elif o == 'Gt': lo = max(lo, cv + 1)
                            elif o == 'Ge': lo = max(lo, cv)
                            elif o == 'Eq': lo, hi = max(lo, cv), min(hi, cv)
                            elif o == 'Ne':
                                # counting up by 1 from below K (or down from above K) cannot skip K
                                if incs and all(s_ == 1 for _, s_ in incs) and max(inits) <= cv: hi = min(hi, cv - 1)
                                if decs and all(s_ == -1 for _, s_ in decs) and min(inits) >= cv: lo = max(lo, cv + 1)
                return lo, hi
            if incs:
                hs = [bound_at(b)[1] + st for b, st in incs]
                res = (min(inits), max([max(inits)] + hs))
            elif decs:
                ls = [bound_at(b)[0] + st for b, st in decs]
                res = (min([min(inits)] + ls), max(inits))
            else:
                res = (min(inits), max(inits))
        self._guards[key] = res
        return res

    def int_ty_of_call(self, e):
        m = re.search(r'<impl (\w+)>', e.name or '')
        return m.group(1) if m else None

    def elem_ty(self, e):
        # type of an element of an indexed array expression, from the base's type string
        base = strip(e.args[0]) if e.args else None
        ty = getattr(base, 'ty', None)
        if ty:
            m = re.match(r'^(?:&(?:mut )?)*\[(\w+)(?:; \d+)?\]$', ty.strip())
            if m:
                return m.group(1)
            m = re.match(r'^(?:&(?:mut )?)*std::vec::Vec<(\w+)>$', ty.strip())
            if m:
                return m.group(1)
        if base is not None and base.k == 'const' and base.c.get('static'):
            it = self.F.items.get(base.c['static'])
            if it:
                m = re.match(r'^\[(\w+); \d+\]$', it['ty'])
                if m:
                    return m.group(1)
        return e.ty

    def arith(self, op, e, block, depth):
        if op in ('Eq', 'Ne', 'Lt', 'Le', 'Gt', 'Ge'):
            return (0, 1)
        if op in ('Sub', 'SubUnchecked'):
            a_s, c_s = self.cn.c(e.args[0]), self.cn.c(e.args[1])
            m = re.match(r'^MulWithOverflow\(Div\((.*), (\d+)\), (\d+)\)\.0$', c_s)
            if m and m.group(1) == a_s and m.group(2) == m.group(3):
                return (0, int(m.group(2)) - 1)
        a = self.iv(e.args[0], block, depth + 1)
        b = self.iv(e.args[1], block, depth + 1)
        tr = ty_range(e.ty)
        fin = lambda r: r[0] > -INF and r[1] < INF
        try:
            if op in ('Add', 'AddUnchecked'):
                r = (a[0] + b[0], a[1] + b[1])
            elif op in ('Sub', 'SubUnchecked'):
                r = (a[0] - b[1], a[1] - b[0])
            elif op in ('Mul', 'MulUnchecked'):
                if a[0] >= 0 and b[0] >= 0:
                    r = (a[0] * b[0], a[1] * b[1] if fin(a) and fin(b) else INF)
                else:
                    return tr
            elif op == 'Div':
                if b[0] > 0 and a[0] >= 0:
                    r = (a[0] // b[1] if b[1] < INF else 0, a[1] // b[0] if a[1] < INF else INF)
                else:
                    return tr
            elif op == 'Rem':
                if b[0] > 0 and b[1] < INF and a[0] >= 0:
                    r = (0, min(a[1], b[1] - 1))
                else:
                    return tr
            elif op == 'Shr':
                if a[0] >= 0 and b[0] >= 0 and fin(b):
                    r = (a[0] >> b[1], a[1] >> b[0] if a[1] < INF else INF)
                else:
                    return tr
            elif op == 'BitAnd':
                if a[0] >= 0 and b[0] >= 0:
                    r = (0, min(a[1], b[1]))
                elif b[0] >= 0:
                    r = (0, b[1])
                elif a[0] >= 0:
                    r = (0, a[1])
                else:
                    return tr
            elif op in ('BitOr', 'BitXor'):
                if a[0] >= 0 and b[0] >= 0 and fin(a) and fin(b):
                    n = max(a[1], b[1]).bit_length()
                    r = (0, (1 << n) - 1)
                else:
                    return tr
            elif op == 'Shl':
                if a[0] >= 0 and b[0] >= 0 and fin(a) and fin(b) and b[1] < 256:
                    r = (a[0] << b[0], a[1] << b[1])
                    if r[1] > tr[1]:
                        return tr
                else:
                    return tr
            else:
                return tr
        except Exception:
            return tr
        return r

    # ---------------------------------------------------------------- lengths
    # ---------------------------------------------------------------- relational (difference) bounds
    def linform(self, e, depth=0):
        """e as a linear form {atom canon: coef} + const over the integers (atoms: anything that is not +/- of a constant)"""
        e = strip(e)
        v = const_int(e)
        if v is not None:
            return {}, v
        if e.k == 'field' and e.name == '0' and e.args:
            b = strip(e.args[0])
            if b.k == 'binop' and b.name in ('AddWithOverflow', 'SubWithOverflow'):
                e = b
        if e.k == 'call' and last(e.name or '') == 'len' and e.args and e.site and depth < 12:
            # the length of a locally built vector, taken where len() is called: the sum of its appends so far
            try:
                bl_ = self.builder_lin(e.args[0], e.site[0])
                if bl_ is None:
                    bl_ = self.site_builder_lin(e, 0, e.site[0])
            except RecursionError:
                bl_ = None
            if bl_ is not None:
                return dict(bl_[0]), bl_[1]
            if self.cn.builder_of(e.site, 0) is not None:
                return {self.cn.c(e): 1}, 0        # a built vector of unknown length: its creation value says nothing
            try:
                ll_ = self.length(e.args[0], e.site[0])
            except RecursionError:
                ll_ = (0, INF)
            if ll_[0] == ll_[1]:
                return {}, ll_[0]          # a fixed-size array
        if e.k == 'binop' and e.name in ('AddWithOverflow', 'SubWithOverflow', 'Add', 'Sub') and len(e.args) == 2 and depth < 12:
            a, ca = self.linform(e.args[0], depth + 1)
            b, cb = self.linform(e.args[1], depth + 1)
            sg = 1 if e.name.startswith('Add') else -1
            out = dict(a)
            for k_, v_ in b.items():
                out[k_] = out.get(k_, 0) + sg * v_
                if out[k_] == 0:
                    del out[k_]
            return out, ca + sg * cb
        if e.k == 'unop' and e.name == 'PtrMetadata' and e.args:
            return {'len(%s)' % self.cn.c(e.args[0]): 1}, 0
        return {self.cn.c(e): 1}, 0

    def diff_lower(self, x, y, block):
        """a lower bound of x - y at `block`, from constants and from dominating comparisons A op B
        (sound: only guards that dominate the block with a single leading edge are used); None if unknown"""
        a, ca = self.linform(x)
        b, cb = self.linform(y)
        d = dict(a)
        for k_, v_ in b.items():
            d[k_] = d.get(k_, 0) - v_
            if d[k_] == 0:
                del d[k_]
        c = ca - cb
        if not d:
            return c
        best = None
        for p, truth in self.guards(block):
            if p.kind != 'cmp' or len(p.args) != 2:
                continue
            o = p.op if truth else G.NEGOP[p.op]
            ga, gca = self.linform(p.args[0])
            gb, gcb = self.linform(p.args[1])
            g = dict(ga)
            for k_, v_ in gb.items():
                g[k_] = g.get(k_, 0) - v_
                if g[k_] == 0:
                    del g[k_]
            gc = gca - gcb
            # guard says  g + gc  o  0
            if o in ('Gt', 'Ge') and g == d:
                lb = (1 if o == 'Gt' else 0) - gc   # g >= lb
                cand = lb + c
            elif o in ('Lt', 'Le') and {k_: -v_ for k_, v_ in g.items()} == d:
                ub = (-1 if o == 'Lt' else 0) - gc  # g <= ub  =>  -g >= -ub
                cand = -ub + c
            else:
                continue
            best = cand if best is None else max(best, cand)
        return best

    def slice_len_lower(self, e, block):
        """lower bound of the length of a slice expression base[a..b] / base[a..] using diff_lower"""
        e = strip(e)
        if e.k == 'call' and last(e.name) in ('index', 'index_mut') and len(e.args) == 2:
            r = strip(e.args[1])
            base = strip(e.args[0])
            ln = E('call', 'len', [base], ty='usize')
            if r.k == 'aggr' and r.name == 'Range::Range':
                return self.diff_lower(r.args[1], r.args[0], block)
            if r.k == 'aggr' and r.name == 'RangeFrom::RangeFrom':
                return self.diff_lower(ln, r.args[0], block)
        if e.k == 'phi':
            rs = [self.slice_len_lower(a, block) for a in e.args]
            return None if any(x is None for x in rs) else min(rs)
        lo = self.length(e, block)[0]
        return lo

    def length(self, e, block, depth=0):
        """interval of the length of a slice / Vec / array expression"""
        e0 = e
        e = strip(e)
        n = array_len(e.ty) if e.ty else None
        if n is not None and e.k != 'call':
            return (n, n)
        if depth > 30:
            return (0, INF)
        if e.k == 'field' and e.args and '::{closure' in self.fn.name and strip(e.args[0]).k == 'param' and strip(e.args[0]).name in (self.fn.local_name(1), '_1') \
                and isinstance(e.c, dict) and 'fidx' in e.c and depth < 20:
            # a captured slice: its length where the closure was created (the capture is a borrow taken there)
            parent = self.F.fns.get(self.fn.name.rsplit('::{closure', 1)[0])
            if parent is not None:
                for b_, i_, st_ in parent.stmts():
                    if st_['k'] == 'assign' and st_['rv']['k'] == 'aggr' and st_['rv'].get('akind') == 'closure' and st_['rv'].get('closure') == self.fn.name \
                            and e.c['fidx'] < len(st_['rv']['ops']):
                        pfa = self.an.fa(parent) if hasattr(self.an, 'fa') else FnAnalysis(self.an, parent)
                        return pfa.length(norm(pfa.P.operand(st_['rv']['ops'][e.c['fidx']], b_, i_)), b_, depth + 10)
        if e.k == 'call' and last(e.name or '') in ('remainder', 'into_remainder') and e.args:
            # the left-over of x.chunks_exact(k): len(x) % k elements (std contract), i.e. at most k - 1
            src_ = strip(e.args[0])
            if src_.k == 'call' and last(src_.name or '') in ('chunks_exact', 'chunks_exact_mut', 'rchunks_exact') and len(src_.args) == 2:
                kk_ = const_int(src_.args[1])
                if kk_ is not None and kk_ >= 1:
                    return (0, kk_ - 1)
        if e.k == 'param':
            n = array_len(e.ty)
            if n is not None:
                return (n, n)
            lo, hi = 0, INF
            # guards on len($p)
            key = 'len($%s)' % e.name
            for p, truth in self.guards(block):
                if p.kind in ('cmp', 'eq') and len(p.args) == 2:
                    for (x, c, op) in ((p.args[0], p.args[1], p.op if p.kind == 'cmp' else 'Eq'), (p.args[1], p.args[0], G.SWAPOP.get(p.op) if p.kind == 'cmp' else 'Eq')):
                        cv = const_int(c)
                        if self.cn.c(x) != key or op is None:
                            continue
                        o = op if truth else G.NEGOP[op]
                        if cv is None:
                            if depth > 6:
                                continue
                            ci = self.iv(c, block, depth + 8)
                            if o == 'Gt': lo = max(lo, ci[0] + 1)
                            elif o == 'Ge': lo = max(lo, ci[0])
                            elif o == 'Lt': hi = min(hi, ci[1] - 1)
                            elif o == 'Le': hi = min(hi, ci[1])
                            continue
                        if o == 'Lt': hi = min(hi, cv - 1)
                        elif o == 'Le': hi = min(hi, cv)
                        elif o == 'Gt': lo = max(lo, cv + 1)
                        elif o == 'Ge': lo = max(lo, cv)
                        elif o == 'Eq': lo, hi = max(lo, cv), min(hi, cv)
                        elif o == 'Ne' and cv == 0: lo = max(lo, 1)
            # precondition already established for this function
            if e.name in self.need:
                lo = max(lo, self.need[e.name])
            # divisibility lemma: len >= 1 and len % K == 0 (dominating guard) ==> len >= K
            for p, truth in self.guards(block):
                if p.kind == 'eq' and len(p.args) == 2 and truth:
                    for (x, c) in ((p.args[0], p.args[1]), (p.args[1], p.args[0])):
                        xs = strip(x)
                        if const_int(c) == 0 and xs.k == 'binop' and xs.name == 'Rem' and len(xs.args) == 2 \
                                and self.cn.c(xs.args[0]) == key and (const_int(xs.args[1]) or 0) > 0 and lo >= 1:
                            kk = const_int(xs.args[1])
                            lo = max(lo, kk)
            return (lo, hi)
        if e.k == 'aggr' and e.name == 'array':
            return (len(e.args), len(e.args))
        if e.k == 'aggr' and e.name == 'repeat':
            n = array_len(e.ty)
            return (n, n) if n is not None else (0, INF)
        if e.k == 'const':
            c = e.c
            if c.get('k') == 'slice':
                return (c.get('len', 0), c.get('len', 0))
            if 'bytes' in c and c.get('k') in ('mem_ref', 'bytes'):
                n = array_len(c.get('ty') or c.get('pointee'))
                if n is not None:
                    return (n, n)
            it = c.get('item') or c.get('static')
            if it and it in self.F.items:
                n = array_len(self.F.items[it]['ty'])
                if n is not None:
                    return (n, n)
        if e.k == 'call':
            ln = last(e.name)
            n = array_len(e.ty)
            if n is not None:
                return (n, n)
            if ln in ('index', 'index_mut') and len(e.args) == 2:
                base = self.length(e.args[0], block, depth + 1)
                r = strip(e.args[1])
                if r.k == 'aggr':
                    if r.name == 'Range::Range':
                        ls, hs = self.cn.c(r.args[0]), self.cn.c(r.args[1])
                        m = re.match(r'^AddWithOverflow\((.*), (\d+)\)\.0$', hs)
                        if m and m.group(1) == ls:
                            return (int(m.group(2)), int(m.group(2)))
                        a, b = self.iv(r.args[0], block, depth + 1), self.iv(r.args[1], block, depth + 1)
                        return (max(0, b[0] - a[1]), max(0, b[1] - a[0]))
                    if r.name == 'RangeTo::RangeTo':
                        return self.iv(r.args[0], block, depth + 1)
                    if r.name == 'RangeFrom::RangeFrom':
                        bl_ = self.builder_lin(e.args[0], block, depth + 1) if depth < 10 else None
                        if bl_ is not None:
                            la, lc = self.linform(r.args[0])
                            if la == bl_[0] and bl_[1] - lc >= 0:
                                return (bl_[1] - lc, bl_[1] - lc)      # (sum of the appends) - start, the symbolic parts cancel
                        a = self.iv(r.args[0], block, depth + 1)
                        return (max(0, base[0] - a[1]), max(0, base[1] - a[0]) if base[1] < INF else INF)
                    if r.name == 'RangeFull::RangeFull':
                        return base
                return (0, base[1])
            if ln in ('to_byte_be', 'to_bytes_be', 'u256_to_be_bytes') and e.name.startswith('gm_'):
                sizes = {'Fp12': 384, 'Fp4': 128, 'Fp2': 64}
                for k_, v in sizes.items():
                    if 'for fields::%s::%s>' % (k_.lower(), k_) in e.name:
                        return (v, v)
                if 'Point>' in e.name and 'p256_ecc' in e.name:
                    return (33, 65)
                if 'points::Point>' in e.name:
                    return (65, 65)
                return (32, 32)
            if ln == 'sm3_hash':
                return (32, 32)
            if ln == 'kdf' and len(e.args) == 2:
                kl = self.iv(e.args[1], block, depth + 1)
                return (min(kl[0], 32) if kl[0] == 0 else kl[0], max(kl[1], 32))
            if ln in ('xor_bytes',) and e.args:
                return self.length(e.args[0], block, depth + 1)
            if ln == 'xor' and len(e.args) == 3:
                return self.iv(e.args[2], block, depth + 1)
            if ln == 'sm3_hmac':
                return (32, 32)
            if ln == 'generate_keystream' and len(e.args) == 2:
                return self.iv(e.args[1], block, depth + 1)
            if ln in ('encrypt', 'decrypt') and 'Sm4Cipher>' in (e.name or ''):
                return (16, 16)
            if ln == 'block_xor':
                return (16, 16)
            if ln in ('new', 'with_capacity') and 'Vec' in (e.name or ''):
                return self.builder_len(e, block, depth)
            if ln == 'from_elem' and len(e.args) == 2:
                return self.iv(e.args[1], block, depth + 1)
            if ln in ('to_be_bytes', 'to_le_bytes'):
                m = re.search(r'<impl (\w+)>', e.name or '')
                w = {'u8': 1, 'u16': 2, 'u32': 4, 'u64': 8, 'u128': 16}.get(m.group(1) if m else '')
                if w:
                    return (w, w)
            if ln in ('collect', 'chars') and e.args:
                return self.length(e.args[0], block, depth + 1)
            if ln in ('unwrap', 'expect') and e.args:
                return self.length(e.args[0], block, depth + 1)
            if ln == 'pad':
                return (64, INF)
        if e.k == 'field' and e.args and e.name in ('0', '1'):
            # (a, b) element of a zip: `.0` / `.1` is an element of the first / second zipped iterator
            el = strip(e.args[0])
            if el.k == 'field' and el.name == '0' and el.args and strip(el.args[0]).k == 'field' and strip(el.args[0]).name == 'as Some':
                nx = strip(strip(el.args[0]).args[0])
                if nx.k == 'call' and last(nx.name) == 'next' and nx.args:
                    it = strip(nx.args[0])
                    while it.k == 'call' and last(it.name) in ('into_iter', 'by_ref', 'rev', 'enumerate') and it.args:
                        it = strip(it.args[0])
                    if it.k == 'call' and last(it.name) == 'zip' and len(it.args) == 2:
                        src = self.iter_source(it.args[int(e.name)])
                        if src[0] in ('chunks_exact', 'windows') and src[2] is not None:
                            return (src[2], src[2])
                    if e.name == '1':
                        # (i, chunk) of x.chunks_exact(k).enumerate()
                        it2 = strip(nx.args[0])
                        enum_ = False
                        while it2.k == 'call' and last(it2.name) in ('into_iter', 'by_ref', 'rev', 'enumerate') and it2.args:
                            enum_ = enum_ or last(it2.name) == 'enumerate'
                            it2 = strip(it2.args[0])
                        if enum_:
                            src = self.iter_source(it2)
                            if src[0] in ('chunks_exact', 'windows') and src[2] is not None:
                                return (src[2], src[2])
        if e.k == 'field' and e.args:
            # try(...) / unwrap of results carrying a vector
            inner = strip(e.args[0])
            if e.name == '0' and inner.k == 'field' and inner.name in ('as Continue', 'as Ok', 'as Some'):
                src = strip(inner.args[0])
                if src.k == 'call' and last(src.name) == 'branch':
                    return self.length(src.args[0], block, depth + 1)
                if src.k == 'call' and last(src.name) == 'next' and src.args:
                    it = self.iter_source(src.args[0])
                    if it is not None and it[0] in ('chunks_exact', 'windows', 'array_chunks') and it[2] is not None:
                        return (it[2], it[2])        # every element of chunks_exact(k) / windows(k) has exactly k items
                    if it is not None and it[0] == 'chunks' and it[2] is not None:
                        return (1, it[2])
            n = array_len(e.ty)
            if n is not None:
                return (n, n)
        if e.k == 'phi':
            rs = [self.length(a, block, depth + 1) for a in e.args]
            return (min(r[0] for r in rs), max(r[1] for r in rs))
        if e.k == 'local' and e.args:
            return self.length(e.args[0], block, depth + 1) if array_len(e.ty) is None else (array_len(e.ty),) * 2
        n = array_len(e.ty)
        if n is not None:
            return (n, n)
        return (0, INF)

    def builder_len(self, e, block, depth):
        """length of a locally built Vec at `block`: appends strictly before the use, loops with constant trip counts"""
        from .builder import appends
        fn, P = self.fn, self.P
        if not e.site:
            return (0, INF)
        cb = e.site[0]
        t = fn.blocks[cb]['term']
        if t['k'] != 'call' or t['dest']['p']:
            return (0, INF)
        # the Vec may be moved into a named local right after creation
        L = t['dest']['l']
        tb = fn.blocks[t['target']] if t['target'] is not None else None
        if tb:
            for st in tb['stmts']:
                if st['k'] == 'assign' and not st['lhs']['p'] and st['rv']['k'] == 'use' and st['rv']['op']['k'] == 'move' and st['rv']['op']['pl']['l'] == L:
                    L = st['lhs']['l']
                    break
        total_lo, total_hi = 0, 0
        KEEP_LEN = ('other:index_mut', 'other:deref_mut', 'other:as_mut_slice', 'other:iter_mut', 'other:copy_from_slice', 'other:clone_from_slice',
                    'other:fill', 'other:swap', 'other:reverse', 'other:sort', 'other:as_mut', 'other:as_mut_ptr', 'other:last_mut', 'other:first_mut', 'other:get_mut', 'setelem')
        for a in appends(fn, P, L, cb):
            if a.kind in KEEP_LEN:
                continue
            before = block in fn.reachable(a.block) and a.block not in fn.reachable(block) if a.block != block else False
            after_possible = a.block in fn.reachable(block)
            if not before and not after_possible:
                continue
            if after_possible and not before:
                # mutation that may also run after/around the use: only a lower bound survives
                if a.kind.startswith('other'):
                    return (0, INF)
                total_hi = INF
                continue
            if a.kind.startswith('other'):
                return (0, INF)
            n = (1, 1) if a.kind in ('byte', 'u8') else {'u16': (2, 2), 'u32': (4, 4), 'u64': (8, 8)}.get(a.kind.split(':')[-1]) or (self.length(a.elem, a.block, depth + 1) if a.elem is not None else (0, INF))
            if last(a.callee) == 'push':
                n = (1, 1)
            if a.kind == 'bytesplit':
                n = (len(a.elem.args),) * 2
            mult = (1, 1)
            if a.in_loop:
                mult = (0, INF)
                for comp in fn.sccs():
                    if a.block in comp:
                        for hb in comp:
                            th = fn.blocks[hb]['term']
                            if th['k'] == 'call' and th['fn']['k'] == 'def' and last(th['fn']['name']) == 'next':
                                it = strip(norm(P.operand(th['args'][0], hb, len(fn.blocks[hb]['stmts']))))
                                while it.k == 'call' and last(it.name) in ('into_iter', 'iter', 'rev'):
                                    it = strip(it.args[0])
                                if it.k == 'aggr' and it.name == 'Range::Range':
                                    a0, b0 = self.iv(it.args[0], hb, depth + 1), self.iv(it.args[1], hb, depth + 1)
                                    # unconditional inside the loop body?
                                    if hb in fn.dominators().get(a.block, ()):
                                        mult = (max(0, b0[0] - a0[1]), max(0, b0[1] - a0[0]) if b0[1] < INF else INF)
            total_lo += n[0] * mult[0]
            total_hi = INF if (total_hi >= INF or n[1] >= INF or mult[1] >= INF) else total_hi + n[1] * mult[1]
        return (total_lo, total_hi)

    def builder_lin(self, e, block, depth=0):
        """length of a locally built Vec as a linear form ({'len(<canon>)': coef}, const) when every append that
        precedes `block` is outside loops and has either an exact length or is a whole slice/Vec value; else None"""
        from .builder import appends
        fn, P = self.fn, self.P
        e = strip(e)
        atoms0, const0 = {}, 0
        if e.k == 'call' and last(e.name) in ('to_vec', 'to_owned') and e.args and e.site and e.site[1] == -1:
            # `let mut v = z.to_vec();` : the vector starts with the elements of z
            n0 = self.length(e.args[0], e.site[0], depth + 1)
            if n0[0] == n0[1]:
                const0 = n0[0]
            else:
                atoms0 = {'len(%s)' % self.cn.c(e.args[0]): 1}
        elif not (e.k == 'call' and last(e.name) in ('new', 'with_capacity') and 'Vec' in (e.name or '')) or not e.site:
            return None
        cb = e.site[0]
        t = fn.blocks[cb]['term']
        if t['k'] != 'call' or t['dest']['p']:
            return None
        L = t['dest']['l']
        tb = fn.blocks[t['target']] if t['target'] is not None else None
        if tb:
            for st in tb['stmts']:
                if st['k'] == 'assign' and not st['lhs']['p'] and st['rv']['k'] == 'use' and st['rv']['op']['k'] == 'move' and st['rv']['op']['pl']['l'] == L:
                    L = st['lhs']['l']
                    break
        KEEP_LEN = ('other:index_mut', 'other:deref_mut', 'other:as_mut_slice', 'other:iter_mut', 'other:copy_from_slice', 'other:clone_from_slice',
                    'other:fill', 'other:swap', 'other:reverse', 'other:sort', 'other:as_mut', 'other:as_mut_ptr', 'other:last_mut', 'other:first_mut', 'other:get_mut', 'setelem')
        return self._lin_of_appends(appends(fn, P, L, cb), block, atoms0, const0, depth)

    def _lin_of_appends(self, apps, block, atoms0, const0, depth=0):
        fn = self.fn
        KEEP_LEN = ('other:index_mut', 'other:deref_mut', 'other:as_mut_slice', 'other:iter_mut', 'other:copy_from_slice', 'other:clone_from_slice',
                    'other:fill', 'other:swap', 'other:reverse', 'other:sort', 'other:as_mut', 'other:as_mut_ptr', 'other:last_mut', 'other:first_mut', 'other:get_mut', 'setelem')
        atoms, const = dict(atoms0), const0
        for a in apps:
            if a.kind in KEEP_LEN:
                continue
            before = block in fn.reachable(a.block) and a.block not in fn.reachable(block) if a.block != block else False
            after_possible = a.block in fn.reachable(block)
            if not before and not after_possible:
                continue
            if after_possible and not before and a.block != block and block not in fn.reachable(a.block) and not a.in_loop:
                continue              # strictly later on every path: it has not happened yet at this point
            if a.in_loop and a.kind == 'bytes' and before and a.elem is not None:
                # `for part in [a, b, c] { v.extend_from_slice(part) }` over a literal array in a loop that does nothing else
                # (Canon.seq unrolls the same form): the lengths of a, b, c
                el_ = strip(a.elem)
                arr_ = el_
                for _ in range(8):
                    if arr_ is None or arr_.k == 'aggr':
                        break
                    if arr_.k in ('field', 'downcast') and arr_.args:
                        arr_ = strip(arr_.args[0])
                    elif arr_.k == 'call' and last(arr_.name or '') in ('next', 'iter', 'into_iter', 'deref', 'as_slice') and arr_.args:
                        arr_ = strip(arr_.args[0])
                    else:
                        arr_ = None
                comp_ = next((c_ for c_ in fn.sccs() if a.block in c_), None)
                if self.cn.c(a.elem).startswith('each(array{') and arr_ is not None and arr_.k == 'aggr' and arr_.name == 'array' and comp_ is not None \
                        and sum(1 for b_ in comp_ if fn.blocks[b_]['term']['k'] == 'switch') == 1 \
                        and sum(1 for x_ in apps if x_.in_loop and x_.block in comp_ and x_.kind not in KEEP_LEN) == 1:
                    okp = True
                    for part in arr_.args:
                        n = self.length(part, a.block, depth + 1)
                        if n[0] == n[1]:
                            const += n[0]
                        elif strip(part).k == 'param':
                            k_ = 'len(%s)' % self.cn.c(part)
                            atoms[k_] = atoms.get(k_, 0) + 1
                        else:
                            okp = False
                    if okp:
                        continue
                    return None
            if a.in_loop or (after_possible and not before) or a.kind.startswith('other'):
                return None
            if a.kind == 'bytesplit':
                const += len(a.elem.args)
                continue
            if a.kind in ('byte', 'u8') or last(a.callee) == 'push':
                const += 1
                continue
            w = {'u16': 2, 'u32': 4, 'u64': 8}.get(a.kind.split(':')[-1])
            if w:
                const += w
                continue
            if a.elem is None:
                return None
            n = self.length(a.elem, a.block, depth + 1)
            if n[0] == n[1]:
                const += n[0]
            else:
                k_ = 'len(%s)' % self.cn.c(a.elem)
                atoms[k_] = atoms.get(k_, 0) + 1
        return atoms, const

    def site_builder_lin(self, call, argno, block):
        """linear length, at `block`, of the locally built Vec that argument `argno` of `call` refers to (the Vec may start as
        vec![..], z.to_vec() or Vec::new()); None when unknown"""
        if call.site is None:
            return None
        bo = self.cn.builder_of(call.site, argno)
        if bo is None:
            return None
        creation, seq = bo
        cr = strip(creation)
        atoms0, const0 = {}, 0
        if cr.k == 'call' and last(cr.name or '') in ('new', 'with_capacity') and 'Vec' in (cr.name or ''):
            pass
        else:
            if cr.k == 'call' and last(cr.name or '') in ('to_vec', 'to_owned', 'into_vec', 'from') and cr.args:
                cr = strip(cr.args[0])
            n0 = self.length(cr, call.site[0]) if cr.k != 'param' else (0, INF)
            if n0[0] == n0[1]:
                const0 = n0[0]
            elif cr.k == 'param':
                atoms0 = {'len(%s)' % self.cn.c(cr): 1}
            else:
                return None
        return self._lin_of_appends(seq, block, atoms0, const0)

    # ---------------------------------------------------------------- sites
    def run(self):
        fn = self.fn
        sites = []
        for b, bl in enumerate(fn.blocks):
            if bl.get('cleanup'):
                continue
            t = bl['term']
            n = len(bl['stmts'])
            if t['k'] == 'assert':
                kind = t['kind']
                if kind.startswith(('MisalignedPointer', 'NullPointer')):
                    continue   # compiler-inserted debug checks on Box/vec! internals
                if kind == 'BoundsCheck':
                    ln_e = norm(self.P.operand(t['ops'][0], b, n))
                    ix_e = norm(self.P.operand(t['ops'][1], b, n))
                    s = Site(fn, b, 'bounds', 'bounds(%s < %s)' % (self.sv(ix_e), self.sv(ln_e)))
                    self.d_bounds(s, ix_e, ln_e, b)
                    sites.append(s)
                elif kind.startswith('Overflow('):
                    a = norm(self.P.operand(t['ops'][0], b, n))
                    c = norm(self.P.operand(t['ops'][1], b, n))
                    op = kind[len('Overflow('):-1]
                    ty = self.operand_ty(t['ops'][0], b)
                    armed = ty in ARMED_INT
                    s = Site(fn, b, 'overflow', 'overflow:%s(%s, %s):%s' % (op, self.sv(a), self.sv(c), ty), armed)
                    self.d_overflow(s, op, a, c, ty, b)
                    sites.append(s)
                elif kind in ('DivisionByZero', 'RemainderByZero'):
                    a = norm(self.P.operand(t['ops'][0], b, n))
                    s = Site(fn, b, 'divzero', '%s(%s)' % (kind, self.sv(a)))
                    # the divisor is the condition's operand: find Eq(divisor, 0)
                    cond = norm(self.P.operand(t['cond'], b, n))
                    div = None
                    if cond.k == 'binop' and cond.name == 'Eq':
                        div = cond.args[0]
                    r = self.iv(div, b) if div is not None else (-INF, INF)
                    if r[0] > 0 or r[1] < 0:
                        s.status, s.reason = 'OK', 'divisor in [%d, %d]' % r
                    sites.append(s)
                elif kind == 'OverflowNeg':
                    a = norm(self.P.operand(t['ops'][0], b, n))
                    ty = self.operand_ty(t['ops'][0], b)
                    s = Site(fn, b, 'overflow', 'overflow:Neg(%s):%s' % (self.sv(a), ty), ty in ARMED_INT)
                    r = self.iv(a, b)
                    if r[0] > ty_range(ty)[0]:
                        s.status, s.reason = 'OK', 'operand in [%d, %d]' % r
                    sites.append(s)
                else:
                    s = Site(fn, b, 'assert', 'assert:' + kind)
                    sites.append(s)
            elif t['k'] == 'call' and t['fn']['k'] == 'def':
                c = t['fn']
                name = c['name']
                ln = last(name)
                if not c['local'] or name not in self.F.fns:
                    if 'panicking' in name or ln in ('panic', 'panic_fmt', 'assert_failed', 'unreachable'):
                        if not self.is_unreachable_arm(b):
                            s = Site(fn, b, 'panic', 'explicit:%s' % ln)
                            sites.append(s)
                    elif ln in PANIC_CALLS and not c['local']:
                        args = [norm(self.P.operand(a, b, n)) for a in t['args']]
                        s = Site(fn, b, ln, '%s(%s)' % (ln, ', '.join(self.sv(a) for a in args)))
                        self.d_call(s, ln, name, args, b)
                        if s.status != 'SKIP':
                            sites.append(s)
                else:
                    # workspace callee with a length precondition
                    need = self.an.need.get(name) or {}
                    if need:
                        callee = self.F.fns[name]
                        args = [norm(self.P.operand(a, b, n)) for a in t['args']]
                        for pi in range(1, callee.arg_count + 1):
                            pn = callee.local_name(pi)
                            if pn in need and pi - 1 < len(args):
                                s = Site(fn, b, 'precond', 'precond:%s(%s: len >= %d given %s)' % (last(name), pn, need[pn], self.sv(args[pi - 1])))
                                self.d_need_len(s, args[pi - 1], need[pn], b)
                                sites.append(s)
        self.cursor_lemma(sites)
        # reviewed table
        for s in sites:
            if s.status is None:
                r = self.an.reviewed.get(s.key()) or self.an.reviewed.get(fn.short + '#*' + s.kind)
                if r:
                    s.status, s.reason = 'REVIEWED', r
        return sites

    def cursor_lemma(self, sites):
        """io::Cursor over a caller slice: k reads of N bytes each (constant trip counts) need len >= sum"""
        fn, P = self.fn, self.P
        cursors = {}
        for b, t in fn.calls():
            if t['fn']['k'] == 'def' and t['fn']['name'].endswith('Cursor<T>>::new') and t['args']:
                a = strip(norm(P.operand(t['args'][0], b, len(fn.blocks[b]['stmts']))))
                if a.k == 'param' and not t['dest']['p']:
                    cursors[t['dest']['l']] = a.name
        if not cursors:
            return
        total = {}
        read_blocks = {}
        for b, t in fn.calls():
            if t['fn']['k'] != 'def':
                continue
            ln = last(t['fn']['name'])
            m = re.match(r'^read_[ui](\d+)$', ln)
            if not m or not t['args']:
                continue
            root = root_local(P, t['args'][0], b, len(fn.blocks[b]['stmts']))
            if root not in cursors:
                continue
            mult = 1
            for comp in fn.sccs():
                if b in comp:
                    mult = None
                    for hb in comp:
                        th = fn.blocks[hb]['term']
                        if th['k'] == 'call' and th['fn']['k'] == 'def' and last(th['fn']['name']) == 'next':
                            it = self.cn.c(norm(P.operand(th['args'][0], hb, len(fn.blocks[hb]['stmts']))))
                            mm = re.search(r'Range::Range\{(\d+), (\d+)\}', it)
                            if mm:
                                mult = int(mm.group(2)) - int(mm.group(1))
                            else:
                                # an iterator over a collection of known size (limbs.iter_mut().rev()): its element count
                                cnt = self.iter_count(norm(P.operand(th['args'][0], hb, len(fn.blocks[hb]['stmts']))), hb, 0)
                                if cnt[0] == cnt[1] and cnt[1] < INF:
                                    mult = cnt[1]
            if mult is None:
                continue
            total[cursors[root]] = total.get(cursors[root], 0) + mult * int(m.group(1)) // 8
            read_blocks[b] = cursors[root]
        for s_ in sites:
            if s_.kind in ('unwrap', 'expect') and s_.status is None:
                t = fn.blocks[s_.block]['term']
                a = strip(norm(P.operand(t['args'][0], s_.block, len(fn.blocks[s_.block]['stmts']))))
                if a.k == 'call' and a.site and a.site[0] in read_blocks:
                    pn = read_blocks[a.site[0]]
                    k = total[pn]
                    if self.need.get(pn, 0) >= k:
                        s_.status, s_.reason = 'OK', 'cursor over %s: %d bytes read in total, len >= %d established' % (pn, k, self.need[pn])
                    else:
                        s_.need = (pn, k)
                        s_.status, s_.reason = 'NEED', 'requires len(%s) >= %d (cursor reads %d bytes in total)' % (pn, k, k)

    def sv(self, e):
        from .rules_i import shorten_vars
        s = shorten_vars(self.cn.c(e))
        return s if len(s) < 140 else s[:140] + '...'

    def operand_ty(self, op, b):
        if op['k'] in ('copy', 'move'):
            ty = self.fn.local_ty(op['pl']['l'])
            for p in op['pl']['p']:
                if isinstance(p, dict) and 'ty' in p:
                    ty = p['ty']
            return ty
        if op['k'] == 'const':
            return op['c'].get('ty')
        return None

    def is_unreachable_arm(self, b):
        return False

    # ---- discharge helpers
    def d_bounds(self, s, ix, ln, b):
        il = self.iv(ix, b)
        ll = self.iv(ln, b) if const_int(ln) is None else (const_int(ln),) * 2
        if il[0] >= 0 and il[1] < ll[0]:
            s.status, s.reason = 'OK', 'index in [%d, %d] < length >= %d' % (il[0], il[1], ll[0])
            return
        if self.lemmas(s, ix, ln, b):
            return
        # express as a precondition when the length is len(param) and the index interval is finite
        le = strip(ln)
        if le.k == 'call' and last(le.name) == 'len' or le.k == 'unop' and le.name == 'PtrMetadata':
            base = strip(le.args[0])
            if base.k == 'param' and il[1] < INF and il[0] >= 0:
                s.need = (base.name, il[1] + 1)
                s.status, s.reason = 'NEED', 'requires len(%s) >= %d' % (base.name, il[1] + 1)

    def lemmas(self, s, ix, ln, b):
        """symbolic loop lemmas on canonical strings"""
        i_s, l_s = self.cn.c(ix), self.cn.c(ln)
        # the slice metadata IS the length: one spelling, so that `i in 0..x.len() - k` meets `len(x[k..])`
        i_s = re.sub(r'\bPtrMetadata\(', 'len(', i_s)
        l_s0 = l_s
        l_s = re.sub(r'\bPtrMetadata\(', 'len(', l_s)
        # FULL: x[i], i in 0..len(x)
        m = re.match(r'^each\(Range::Range\{0, (.*)\}\)$', i_s)
        if m and m.group(1) == l_s:
            s.status, s.reason = 'OK', 'lemma FULL: index ranges over 0..len'
            return True
        # TAIL: x[blk*B + i], i in 0..len(x) - blk*B
        m = re.match(r'^AddWithOverflow\((.*), each\(Range::Range\{0, SubWithOverflow\((.*), (.*)\)\.0\}\)\)\.0$', i_s)
        if m and m.group(1) == m.group(3) and m.group(2) == l_s:
            s.status, s.reason = 'OK', 'lemma TAIL: base + i with i < len - base'
            return True
        m = re.match(r'^AddWithOverflow\(MulWithOverflow\(Div\((.*), (\d+)\), (\d+)\)\.0, each\(Range::Range\{0, SubWithOverflow\((.*), MulWithOverflow\(Div\((.*), (\d+)\), (\d+)\)\.0\)\.0\}\)\)\.0$', i_s)
        if m and m.group(1) == m.group(4) == m.group(5) and m.group(2) == m.group(3) == m.group(6) == m.group(7) and l_s in (m.group(1), 'PtrMetadata(%s)' % m.group(1)[4:-1] if m.group(1).startswith('len(') else ''):
            s.status, s.reason = 'OK', 'lemma TAIL: (len/k)*k + i with i < len - (len/k)*k'
            return True
        if l_s.startswith('PtrMetadata(') and i_s == 'each(Range::Range{0, len(%s)})' % l_s[len('PtrMetadata('):-1]:
            s.status, s.reason = 'OK', 'lemma FULL: index ranges over 0..len'
            return True
        # guard-based: a dominating comparison index < len / len > index on the same expressions
        for p, truth in self.guards(b):
            if p.kind == 'cmp' and len(p.args) == 2:
                a0, a1 = self.cn.c(p.args[0]), self.cn.c(p.args[1])
                o = p.op if truth else G.NEGOP[p.op]
                if (a0 == i_s and a1 == l_s and o == 'Lt') or (a0 == l_s and a1 == i_s and o == 'Gt'):
                    s.status, s.reason = 'OK', 'dominating guard index < length'
                    return True
        return False

    def d_overflow(self, s, op, a, c, ty, b):
        if not s.armed:
            s.status, s.reason = 'UNARMED', 'limb-value arithmetic (%s): enumerated, not armed' % ty
            return
        ra, rc = self.iv(a, b), self.iv(c, b)
        tr = ty_range(ty)
        ra = (max(ra[0], tr[0]), min(ra[1], tr[1]))
        rc = (max(rc[0], tr[0]), min(rc[1], tr[1])) if op not in ('Shl', 'Shr') else rc
        try:
            if op == 'Add':
                lo, hi = ra[0] + rc[0], ra[1] + rc[1]
            elif op == 'Sub':
                lo, hi = ra[0] - rc[1], ra[1] - rc[0]
            elif op == 'Mul':
                cands = [ra[0] * rc[0], ra[0] * rc[1], ra[1] * rc[0], ra[1] * rc[1]] if max(abs(ra[0]), abs(ra[1]), abs(rc[0]), abs(rc[1])) < INF else [-INF, INF]
                lo, hi = min(cands), max(cands)
            elif op in ('Div', 'Rem'):
                if rc[0] > -1 or rc[1] < -1 or ra[0] > tr[0]:
                    s.status, s.reason = 'OK', 'signed division cannot overflow (divisor != -1 or dividend != MIN)'
                return
            elif op in ('Shl', 'Shr'):
                bits = {'u8': 8, 'u16': 16, 'u32': 32, 'u64': 64, 'usize': 64, 'i32': 32, 'u128': 128}.get(ty, 64)
                if rc[0] >= 0 and rc[1] < bits:
                    s.status, s.reason = 'OK', 'shift amount in [%d, %d] < %d' % (rc[0], rc[1], bits)
                return
            else:
                return
        except Exception:
            return
        if lo >= tr[0] and hi <= tr[1]:
            s.status, s.reason = 'OK', 'result in [%d, %d] within %s' % (lo, hi, ty)
            return
        # symbolic: a - b with a dominating guard a >= b / b <= a, or b = a % k / (a / k) * k
        a_s, c_s = self.cn.c(a), self.cn.c(c)
        if op == 'Sub':
            if c_s in ('Rem(%s, %s)' % (a_s, x) for x in ('16', '32', '64')) or re.match(r'^Rem\(%s, \d+\)$' % re.escape(a_s), c_s):
                s.status, s.reason = 'OK', 'x - x %% k'
                return
            m = re.match(r'^MulWithOverflow\(Div\((.*), (\d+)\), (\d+)\)\.0$', c_s)
            if m and m.group(1) == a_s and m.group(2) == m.group(3):
                s.status, s.reason = 'OK', 'x - (x / k) * k'
                return
            for p, truth in self.guards(b):
                if p.kind == 'cmp' and len(p.args) == 2:
                    p0, p1 = self.cn.c(p.args[0]), self.cn.c(p.args[1])
                    o = p.op if truth else G.NEGOP[p.op]
                    if (p0 == a_s and p1 == c_s and o in ('Ge', 'Gt')) or (p0 == c_s and p1 == a_s and o in ('Le', 'Lt')):
                        s.status, s.reason = 'OK', 'dominating guard minuend >= subtrahend'
                        return
            # relational: minuend - subtrahend >= 0 from linear forms and a dominating comparison
            try:
                d_ = self.diff_lower(a, c, b)
            except RecursionError:
                d_ = None
            if d_ is not None and d_ >= 0:
                s.status, s.reason = 'OK', 'minuend - subtrahend >= %d from a dominating linear comparison' % d_
                return
            # len(param) - const : precondition
            ae = strip(a)
            if ae.k == 'call' and last(ae.name) == 'len' and strip(ae.args[0]).k == 'param' and rc[1] < INF:
                s.need = (strip(ae.args[0]).name, rc[1])
                s.status, s.reason = 'NEED', 'requires len(%s) >= %d' % (s.need[0], rc[1])
                return
        if op == 'Mul':
            m = re.match(r'^Div\((.*), (\d+)\)$', a_s)
            if m and c_s == m.group(2):
                s.status, s.reason = 'OK', '(x / k) * k <= x'
                return
            m = re.match(r'^each\(Range::Range\{0, Div\((.*), (\d+)\)\}\)$', a_s)
            if m and c_s == m.group(2):
                s.status, s.reason = 'OK', 'i * k with i < x / k'
                return
        if op == 'Add':
            # i*k + k with i < len/k ; i*k + j, j < k
            m = re.match(r'^MulWithOverflow\(each\(Range::Range\{0, Div\((.*), (\d+)\)\}\), (\d+)\)\.0$', a_s)
            if m and m.group(2) == m.group(3) and rc[1] <= int(m.group(2)):
                s.status, s.reason = 'OK', 'i * k + j <= len with i < len / k, j <= k'
                return
            m = re.match(r'^MulWithOverflow\(Div\((.*), (\d+)\), (\d+)\)\.0$', a_s)
            m2 = re.match(r'^each\(Range::Range\{0, SubWithOverflow\((.*?), (MulWithOverflow.*)\)\.0\}\)$', c_s)
            if m and m2 and m2.group(2) == a_s:
                s.status, s.reason = 'OK', 'base + i with i < len - base'
                return
            # a + b where the loop variable ranges below len - something: covered by bounds lemma later

    def d_need_len(self, s, arg, k, b):
        r = self.length(arg, b)
        if r[0] >= k:
            s.status, s.reason = 'OK', 'argument length >= %d' % r[0]
            return
        a = strip(arg)
        if a.k == 'param':
            s.need = (a.name, k)
            s.status, s.reason = 'NEED', 'requires len(%s) >= %d' % (a.name, k)
            return
        # slice of a param with constant start: x[c..] needs len(x) >= c + k
        if a.k == 'call' and last(a.name) == 'index' and len(a.args) == 2 and strip(a.args[0]).k == 'param':
            rr = strip(a.args[1])
            if rr.k == 'aggr' and rr.name == 'RangeFrom::RangeFrom' and self.iv(rr.args[0], b)[1] < (1 << 31):
                s.need = (strip(a.args[0]).name, self.iv(rr.args[0], b)[1] + k)
                s.status, s.reason = 'NEED', 'requires len(%s) >= %d' % s.need
                return

    def d_call(self, s, ln, name, args, b):
        if ln in ('split_at', 'split_at_mut') and len(args) == 2:
            # x.split_at(k) panics iff k > len(x): the same obligation as x[..k]
            rng = E('aggr', 'RangeTo::RangeTo', [args[1]], c={'akind': 'adt', 'adt': 'core::ops::range::RangeTo', 'variant': 'RangeTo'})
            return self.d_call(s, 'index', name, [args[0], rng], b)
        if ln in ('index', 'index_mut'):
            if len(args) != 2:
                return
            base, r = args
            rr = strip(r)
            # HashMap / other Index impls are not in this code base; scalar index on Vec/slice
            bl = self.length(base, b)
            if rr.k == 'aggr' and rr.name.startswith('Range'):
                kind = rr.name.split('::')[0]
                if kind == 'RangeFull':
                    s.status = 'SKIP'
                    return
                lo_e = rr.args[0] if kind in ('Range', 'RangeFrom') else None
                hi_e = rr.args[1] if kind == 'Range' else rr.args[0] if kind in ('RangeTo',) else None
                ok_hi = True
                why = []
                if hi_e is not None:
                    h = self.iv(hi_e, b)
                    if h[1] <= bl[0]:
                        why.append('end <= %d <= length' % h[1])
                    elif self.sym_le(hi_e, base, b):
                        why.append('end <= length (symbolic)')
                    else:
                        ok_hi = False
                        if strip(base).k == 'param' and h[1] < INF and (h[0] == h[1] or (h[1] < (1 << 31) and self.only_counters(hi_e))):
                            # a bound that depends only on constant-range loop counters takes its maximum in some iteration
                            s.need = (strip(base).name, h[1])
                ok_lo = True
                if lo_e is not None:
                    l_ = self.iv(lo_e, b)
                    if hi_e is not None:
                        h = self.iv(hi_e, b)
                        if l_[1] <= h[0] or self.sym_start_le_end(lo_e, hi_e, b):
                            why.append('start <= end')
                        else:
                            ok_lo = False
                    else:
                        if l_[1] <= bl[0]:
                            why.append('start <= %d <= length' % l_[1])
                        elif self.sym_le(lo_e, base, b):
                            why.append('start <= length (symbolic)')
                        else:
                            ok_lo = False
                            if strip(base).k == 'param' and l_[1] < INF:
                                s.need = (strip(base).name, l_[1])
                if ok_hi and ok_lo:
                    s.status, s.reason = 'OK', '; '.join(why)
                elif s.need:
                    s.status, s.reason = 'NEED', 'requires len(%s) >= %d' % s.need
                return
            # scalar index
            i = self.iv(r, b)
            if i[0] >= 0 and i[1] < bl[0]:
                s.status, s.reason = 'OK', 'index in [%d, %d] < length >= %d' % (i[0], i[1], bl[0])
                return
            if self.lemmas(s, r, E('call', 'len', [base]), b):
                return
            i_s = self.cn.c(r)
            if i_s in ('each(Range::Range{0, len(%s)})' % self.cn.c(base),):
                s.status, s.reason = 'OK', 'lemma FULL'
                return
            # KDF: x = kdf(_, N) has exactly N bytes for N >= 1, and a loop over 0..N is empty for N = 0
            bs = strip(base)
            m = re.match(r'^each\(Range::Range\{0, (.*)\}\)$', i_s)
            if m and bs.k == 'call' and last(bs.name) == 'kdf' and len(bs.args) == 2 and self.cn.c(bs.args[1]) == m.group(1):
                s.status, s.reason = 'OK', 'lemma KDF: index ranges over 0..N of kdf(_, N)'
                return
            if self.sym_lt(r, base, b):
                s.status, s.reason = 'OK', 'index < length (symbolic)'
                return
            if strip(base).k == 'param' and i[1] < INF and i[0] >= 0:
                s.need = (strip(base).name, i[1] + 1)
                s.status, s.reason = 'NEED', 'requires len(%s) >= %d' % s.need
            return
        if ln in ('copy_from_slice', 'clone_from_slice'):
            a, c = self.length(args[0], b), self.length(args[1], b)
            if a[0] == a[1] == c[0] == c[1]:
                s.status, s.reason = 'OK', 'both lengths are %d' % a[0]
                return
            if a[0] == a[1] and strip(args[1]).k == 'param':
                # destination has fixed size; source is a caller slice: exact-length precondition unless guarded
                s.need = (strip(args[1]).name, a[0])
                s.status, s.reason = 'NEED', 'requires len(%s) == %d' % s.need
                return
            sa, sc = self.cn.c(args[0]), self.cn.c(args[1])
            d0 = strip(args[0])
            if c[0] == c[1] and d0.k == 'call' and last(d0.name) == 'index_mut' and len(d0.args) == 2:
                # buf[off..].copy_from_slice(src) with off = the builder's length at an earlier point: the tail appended
                # since then has (length now) - off elements, as linear forms over the same symbolic lengths
                r0 = strip(d0.args[1])
                if r0.k == 'aggr' and r0.name == 'RangeFrom::RangeFrom':
                    try:
                        now = self.site_builder_lin(d0, 0, b)
                        off = self.linform(r0.args[0])
                    except RecursionError:
                        now = None
                    if now is not None and now[0] == off[0] and now[1] - off[1] == c[0]:
                        s.status, s.reason = 'OK', 'dst = buf[len_before..] has exactly the %d elements appended since; src has %d' % (c[0], c[0])
                        return
            m = re.match(r'^index_mut\(.*, RangeTo::RangeTo\{(.*)\}\)$', sa)
            m3 = re.match(r'^index\(.*, Range::Range\{0, (.*)\}\)$', sc)
            if m and m3 and m.group(1) == m3.group(1):
                s.status, s.reason = 'OK', 'dst[..n] <- src[0..n]: equal lengths'
                return
            m4 = re.match(r'^index\(.*, RangeTo::RangeTo\{(.*)\}\)$', sc)
            if m and m4 and m.group(1) == m4.group(1):
                s.status, s.reason = 'OK', 'dst[..n] <- src[..n]: equal lengths (each slice has its own bounds site)'
                return
            m2 = re.match(r'^index\((.*), RangeFrom::RangeFrom\{MulWithOverflow\(Div\(len\((.*)\), (\d+)\), (\d+)\)\.0\}\)$', sc)
            if m and m2 and m.group(1) == 'Rem(len(%s), %s)' % (m2.group(2), m2.group(3)) and m2.group(1) == m2.group(2) and m2.group(3) == m2.group(4):
                s.status, s.reason = 'OK', 'dst[..len %% k] <- src[(len / k) * k ..]: both have len %% k elements'
                return
            return
        if ln in ('unwrap', 'expect'):
            a = strip(args[0])
            sa = self.cn.c(a)
            # infallible by type / by construction
            if a.k == 'call':
                an = a.name or ''
                l2 = last(an)
                if l2.startswith('write_') and ('Vec' in an or 'byteorder' in an or 'WriteBytesExt' in an):
                    s.status, s.reason = 'OK', 'io::Write for Vec<u8> cannot fail'
                    return
                if l2 == 'try_into' and a.args:
                    r = self.length(a.args[0], b)
                    m = re.search(r'\[u8; (\d+)\]', a.ty or '') or re.search(r'\[u8; (\d+)\]', s.fn.local_ty(0))
                    want = None
                    mt = re.search(r'Result<\[u8; (\d+)\]', a.ty or '')
                    if mt:
                        want = int(mt.group(1))
                    if want is None:
                        # infer from the consumer: from_be_bytes:u32
                        want = r[0] if r[0] == r[1] else None
                    if r[0] == r[1] and want is not None and r[0] == want:
                        s.status, s.reason = 'OK', 'try_into on a slice of proven length %d' % r[0]
                        return
                    return
                if l2 == 'pad':
                    s.status, s.reason = 'OK', 'pad() returns Err only if the padded length is not a multiple of 64, excluded by its fill loop (C01 L-LEN64)'
                    return
                if l2 == 'new_unwrap':
                    s.status, s.reason = 'OK', 'const OID literal'
                    return
                if l2.startswith('read_u') and a.args:
                    # Cursor reads: handled by the cursor lemma (precondition on the cursor's slice)
                    return
                if l2 in ('as_ref', 'as_mut') or sa.startswith(('$self.r', '$self.v', '$self.k')):
                    pass
            if a.k == 'aggr' and a.name in ('Option::Some', 'Result::Ok'):
                s.status, s.reason = 'OK', 'value is constructed as Some/Ok on this path'
                return
            return
        if ln == 'insert':
            # Vec::insert(i, v) needs i <= len
            i = self.iv(args[1], b)
            l_ = self.length(args[0], b)
            if i[1] <= l_[0]:
                s.status, s.reason = 'OK', 'insert position <= length'
            return

    def only_counters(self, e, depth=0):
        """the expression is built from constants and the variables of loops over constant ranges only"""
        e = strip(e)
        if depth > 12:
            return False
        if const_int(e) is not None:
            return True
        if e.k == 'field' and e.name == '0' and e.args:
            inner = strip(e.args[0])
            if inner.k == 'field' and inner.name == 'as Some' and inner.args:
                src = strip(inner.args[0])
                if src.k == 'call' and last(src.name) == 'next' and src.args:
                    it = self.iter_source(src.args[0])
                    return it[0] == 'range' and const_int(it[1].args[0]) is not None and const_int(it[1].args[1]) is not None
            if inner.k == 'binop':
                return all(self.only_counters(a, depth + 1) for a in inner.args)
        if e.k in ('binop', 'cast', 'unop') and e.args:
            return all(self.only_counters(a, depth + 1) for a in e.args)
        return False

    def sym_le(self, x, base, b):
        """x <= len(base) by symbolic shape"""
        xs, bs = self.cn.c(x), self.cn.c(base)
        L = 'len(%s)' % bs
        if xs == L:
            return True
        bl_ = self.builder_lin(base, b)
        if bl_ is not None:
            la, lc = self.linform(x)
            if la == bl_[0] and lc <= bl_[1]:
                return True       # start = (symbolic part of the built length) + c with c <= the constant part
        # i*k + k with i in 0..len/k
        m = re.match(r'^AddWithOverflow\(MulWithOverflow\(each\(Range::Range\{0, Div\((.*), (\d+)\)\}\), (\d+)\)\.0, (\d+)\)\.0$', xs)
        if m and m.group(1) == L and m.group(2) == m.group(3) == m.group(4):
            return True
        m = re.match(r'^MulWithOverflow\(each\(Range::Range\{0, Div\((.*), (\d+)\)\}\), (\d+)\)\.0$', xs)
        if m and m.group(1) == L and m.group(2) == m.group(3):
            return True
        m = re.match(r'^MulWithOverflow\(Div\((.*), (\d+)\), (\d+)\)\.0$', xs)
        if m and m.group(1) == L and m.group(2) == m.group(3):
            return True
        m = re.match(r'^SubWithOverflow\((.*), (.*)\)\.0$', xs)
        if m and m.group(1) == L:
            return True   # len - c (the subtraction's own overflow assert covers c <= len)
        m = re.match(r'^Rem\((.*), (\d+)\)$', xs)
        if m and m.group(1) == L:
            return True
        # count_group*64 .. +64 with the loop guard count_group*64 != len and len % 64 == 0 : reviewed instead
        for p, truth in self.guards(b):
            if p.kind == 'cmp' and len(p.args) == 2:
                p0, p1 = self.cn.c(p.args[0]), self.cn.c(p.args[1])
                o = p.op if truth else G.NEGOP[p.op]
                if (p0 == xs and p1 == L and o in ('Le', 'Lt')) or (p0 == L and p1 == xs and o in ('Ge', 'Gt')):
                    return True
        # relational: len(base) - x >= 0 from the linear forms of both and a dominating comparison
        # (len(y[a..]) is len(y) - a, so `k <= len(ct[c1..])` follows from the guard `len(ct) > c1 + k`)
        from .prov import simplify_slices
        L_e = simplify_slices(E('call', 'len', [strip(base)], ty='usize'))
        try:
            d_ = self.diff_lower(L_e, x, b)
        except RecursionError:
            d_ = None
        if d_ is not None and d_ >= 0:
            return True
        return False

    def sym_lt(self, x, base, b):
        xs, bs = self.cn.c(x), self.cn.c(base)
        L = 'len(%s)' % bs
        m = re.match(r'^each\(Range::Range\{0, (.*)\}\)$', xs)
        if m and m.group(1) == L:
            return True
        m = re.match(r'^SubWithOverflow\((.*), (\d+)\)\.0$', xs)
        if m and m.group(1) == L and int(m.group(2)) >= 1:
            return True
        # a locally built vector: index = (symbolic part of its length) + c with c below the constant part
        bl_ = self.builder_lin(base, b)
        if bl_ is not None:
            la, lc = self.linform(x)
            if la == bl_[0] and 0 <= lc < bl_[1]:
                return True
        for p, truth in self.guards(b):
            if p.kind == 'cmp' and len(p.args) == 2:
                p0, p1 = self.cn.c(p.args[0]), self.cn.c(p.args[1])
                o = p.op if truth else G.NEGOP[p.op]
                if (p0 == xs and p1 == L and o == 'Lt') or (p0 == L and p1 == xs and o == 'Gt'):
                    return True
        return False

    def sym_start_le_end(self, lo_e, hi_e, b=None):
        ls, hs = self.cn.c(lo_e), self.cn.c(hi_e)
        # guard len > start + c  and  end == len - c
        m = re.match(r'^SubWithOverflow\((len\(.*\)), (\d+)\)\.0$', hs)
        if m and b is not None:
            for p, truth in self.guards(b):
                if p.kind == 'cmp' and len(p.args) == 2:
                    p0, p1 = self.cn.c(p.args[0]), self.cn.c(p.args[1])
                    o = p.op if truth else G.NEGOP[p.op]
                    if p0 == m.group(1) and o in ('Gt', 'Ge') and p1 == 'AddWithOverflow(%s, %s).0' % (ls, m.group(2)):
                        return True
        if hs == 'AddWithOverflow(%s, %s).0' % (ls, hs.rsplit(', ', 1)[-1][:-3]) and hs.startswith('AddWithOverflow(' + ls):
            return True
        return False


def finalize_needs(an, name, sites, fn):
    """collect NEED sites of a function into its precondition table"""
    need = {}
    for s in sites:
        if s.status == 'NEED' and s.need and s.need[1] >= (1 << 20):
            s.status, s.reason, s.need = None, 'relational length requirement', None
    for s in sites:
        if s.status == 'NEED' and s.need:
            p, k = s.need
            need[p] = max(need.get(p, 0), k)
    return need
