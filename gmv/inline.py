import os
"""MIR-level inlining of helper functions that are not part of the reviewed vocabulary.

The rules anchor on the functions that exist in the tree they were written for (`baseline_fns.json`, frozen by
`./check --freeze-vocab`).  A maintainer who extracts a private helper (the most frequent kind of refactoring) moves
statements out of an anchored function; to every rule that is the same program.  So before any rule runs, every call
to a workspace function that is NOT in the vocabulary is spliced into its caller: the callee's locals and blocks are
appended (renumbered), parameters become assignments, `return` becomes a jump to a continuation block that copies the
return place into the call's destination.  The stand-alone body of the helper stays in the fact base as well.

A changed tree that adds a helper *and* changes behaviour is treated the same way: the rules see the inlined body.
Nothing here looks at what the helper computes.
"""
import copy, json, os

VOCAB = os.path.join(os.path.dirname(os.path.abspath(__file__)), 'baseline_fns.json')
# one-line helpers of the reviewed tree that the rules look through: whether a maintainer keeps them as functions or
# writes their bodies in place is the same program to every rule
TRANSPARENT_HELPERS = {'gm_sm4::el', 'gm_sm4::el_prime', 'gm_zuc::make_u32', 'gm_sm9::fields::getu64'}
MAX_BLOCKS = 4000


def load_vocab():
    if not os.path.exists(VOCAB):
        return None
    return set(json.load(open(VOCAB)))


def _shift_place(pl, L0):
    pl['l'] += L0
    for p in pl['p']:
        if isinstance(p, dict) and 'idx' in p:
            p['idx'] += L0


def _shift_operand(op, L0, prom0):
    if not isinstance(op, dict):
        return
    if op.get('k') in ('copy', 'move') and 'pl' in op:
        _shift_place(op['pl'], L0)
    elif op.get('k') == 'const':
        c = op.get('c') or {}
        if 'promoted' in c:
            c['promoted'] += prom0


def _shift_rvalue(rv, L0, prom0):
    k = rv.get('k')
    for key in ('op', 'a', 'b'):
        if key in rv and isinstance(rv[key], dict):
            _shift_operand(rv[key], L0, prom0)
    if 'pl' in rv and isinstance(rv['pl'], dict):
        _shift_place(rv['pl'], L0)
    if k == 'aggr':
        for o in rv.get('ops', []):
            _shift_operand(o, L0, prom0)


def _copy_blocks(callee, L0, B0, prom0, cont, ret_local):
    out = []
    for bl in callee.blocks:
        nb = copy.deepcopy(bl)
        for st in nb['stmts']:
            if st.get('k') in ('assign', 'setdiscr'):
                if 'lhs' in st:
                    _shift_place(st['lhs'], L0)
                if 'pl' in st and isinstance(st['pl'], dict):
                    _shift_place(st['pl'], L0)
                if 'rv' in st:
                    _shift_rvalue(st['rv'], L0, prom0)
        t = nb['term']
        k = t['k']
        if k == 'goto':
            t['target'] += B0
        elif k == 'switch':
            _shift_operand(t['op'], L0, prom0)
            t['targets'] = [[v, b + B0] for v, b in t['targets']]
            t['otherwise'] += B0
        elif k == 'call':
            for a in t['args']:
                _shift_operand(a, L0, prom0)
            _shift_place(t['dest'], L0)
            if t['target'] is not None:
                t['target'] += B0
            f = t['fn']
            if f.get('k') == 'indirect' and isinstance(f.get('op'), dict):
                _shift_operand(f['op'], L0, prom0)
        elif k == 'drop':
            _shift_place(t['pl'], L0)
            t['target'] += B0
        elif k == 'assert':
            _shift_operand(t['cond'], L0, prom0)
            for o in t['ops']:
                _shift_operand(o, L0, prom0)
            t['target'] += B0
        elif k == 'return':
            nb['term'] = {'k': 'goto', 'target': cont, 'span': t.get('span')}
        elif k == 'tailcall':
            return None
        out.append(nb)
    return out


def _calls_self(F, callee, seen=None, depth=0):
    """conservative recursion test: the callee (transitively, through non-vocabulary helpers) reaches itself"""
    return any(t['fn']['k'] == 'def' and t['fn']['name'] == callee.name for _, t in callee.calls())


def splice(caller, b, callee):
    bl = caller.blocks[b]
    t = bl['term']
    is_closure = '{closure' in callee.name
    if t['target'] is None:
        return False
    if is_closure:
        # "rust-call" ABI: the call passes (environment, tuple of arguments); the body has the tuple spread over _2, _3, ..
        if len(t['args']) != 2 or callee.arg_count < 1 or t['args'][1]['k'] not in ('copy', 'move', 'const'):
            return False
        if callee.arg_count > 1 and t['args'][1]['k'] == 'const':
            return False
    elif len(t['args']) != callee.arg_count:
        return False
    L0 = len(caller.locals)
    B0 = len(caller.blocks)
    if B0 + len(callee.blocks) > MAX_BLOCKS:
        return False
    prom0 = len(caller.promoted)
    cont = B0 + len(callee.blocks)
    new_blocks = _copy_blocks(callee, L0, B0, prom0, cont, L0)
    if new_blocks is None:
        return False
    names = {l.get('name') for l in caller.locals if l.get('name')}
    for l in callee.locals:
        nl = dict(l)
        if nl.get('name') and nl['name'] in names:
            nl['name'] = '%s.%s' % (callee.name.rsplit('::', 1)[-1], nl['name'])
            while nl['name'] in names:
                nl['name'] += "'"
        nl['inlined_from'] = callee.name
        caller.locals.append(nl)
        if nl.get('name'):
            names.add(nl['name'])
    sp = t.get('span')
    if is_closure:
        bl['stmts'].append({'k': 'assign', 'lhs': {'l': L0 + 1, 'p': []}, 'rv': {'k': 'use', 'op': t['args'][0]}, 'span': sp, 'inlined_param': True})
        for i in range(callee.arg_count - 1):
            tp = t['args'][1]['pl']
            src = {'k': 'copy', 'pl': {'l': tp['l'], 'p': list(tp['p']) + [{'f': i, 'name': str(i), 'ty': callee.local_ty(2 + i)}]}}
            bl['stmts'].append({'k': 'assign', 'lhs': {'l': L0 + 2 + i, 'p': []}, 'rv': {'k': 'use', 'op': src}, 'span': sp, 'inlined_param': True})
    else:
        for i, a in enumerate(t['args']):
            bl['stmts'].append({'k': 'assign', 'lhs': {'l': L0 + 1 + i, 'p': []}, 'rv': {'k': 'use', 'op': a}, 'span': sp, 'inlined_param': True})
    caller.blocks.extend(new_blocks)
    caller.blocks.append({'stmts': [{'k': 'assign', 'lhs': t['dest'], 'rv': {'k': 'use', 'op': {'k': 'move', 'pl': {'l': L0, 'p': []}}}, 'span': sp}],
                          'term': {'k': 'goto', 'target': t['target'], 'span': sp}, 'cleanup': False})
    bl['term'] = {'k': 'goto', 'target': B0, 'span': sp, 'inlined_call': callee.name}
    caller.promoted.extend(copy.deepcopy(callee.promoted))
    caller._succ = caller._pred = caller._dom = None
    if hasattr(caller, '_nl'):
        del caller._nl
    return True


def _closure_of(fn, op, depth=0):
    """name of the closure a callee operand holds, when every assignment that defines it (through moves, copies and borrows)
    leads to one `[closure@..]` aggregate"""
    if op.get('k') not in ('copy', 'move') or depth > 12:
        return None
    l = op['pl']['l']
    projs = [p for p in op['pl']['p'] if p != 'deref']
    if projs:
        return None
    defs = []
    for b, i, st in fn.stmts():
        if st['k'] == 'assign' and st['lhs']['l'] == l and not st['lhs']['p']:
            defs.append(st['rv'])
    for b, t in fn.calls():
        if t['dest']['l'] == l and not t['dest']['p']:
            return None
    if len(defs) != 1:
        return None
    rv = defs[0]
    if rv['k'] == 'aggr' and rv.get('akind') == 'closure':
        return rv.get('closure')
    if rv['k'] == 'use' and rv['op'].get('k') in ('copy', 'move'):
        return _closure_of(fn, rv['op'], depth + 1)
    if rv['k'] == 'ref' and not [p for p in rv['pl']['p'] if p != 'deref']:
        return _closure_of(fn, {'k': 'copy', 'pl': {'l': rv['pl']['l'], 'p': []}}, depth + 1)
    return None


def _fn_item_of(fn, op, depth=0):
    """the function item a callee operand holds (a zero-sized constant of a `fn` type), through moves/copies/borrows"""
    if depth > 12:
        return None
    if op.get('k') == 'const':
        c = op.get('c') or {}
        if c.get('k') == 'fn' and (c.get('fn') or c.get('name')):
            return {'name': c.get('fn') or c.get('name'), 'generic': c.get('generic', '')}
        return None
    if op.get('k') not in ('copy', 'move') or [p for p in op['pl']['p'] if p != 'deref']:
        return None
    l = op['pl']['l']
    defs = [st['rv'] for b, i, st in fn.stmts() if st['k'] == 'assign' and st['lhs']['l'] == l and not st['lhs']['p']]
    if len(defs) != 1 or any(t['dest']['l'] == l and not t['dest']['p'] for _, t in fn.calls()):
        return None
    rv = defs[0]
    if rv['k'] == 'use':
        return _fn_item_of(fn, rv['op'], depth + 1)
    if rv['k'] == 'ref' and not [p for p in rv['pl']['p'] if p != 'deref']:
        return _fn_item_of(fn, {'k': 'copy', 'pl': {'l': rv['pl']['l'], 'p': []}}, depth + 1)
    return None


def _tuple_arity(fn, l):
    defs = [st['rv'] for b, i, st in fn.stmts() if st['k'] == 'assign' and st['lhs']['l'] == l and not st['lhs']['p']]
    if len(defs) == 1 and defs[0]['k'] == 'aggr' and defs[0].get('akind') == 'tuple':
        return len(defs[0]['ops'])
    return None


def inline_new_helpers(F, vocab=None, rounds=6, keep=()):
    """returns {caller name: [inlined callee names]}"""
    vocab = load_vocab() if vocab is None else vocab
    done = {}
    if not vocab:
        return done
    new = {n for n in F.fns if n not in vocab or (n in TRANSPARENT_HELPERS and n not in keep)}
    if not new:
        return done
    originals = {n: copy.deepcopy(F.fns[n]) for n in new}     # inline the helper as written, not a partially inlined copy
    for n in new:
        originals[n]._succ = originals[n]._pred = originals[n]._dom = None
    for caller in list(F.fns.values()):
        r = 0
        progress = True
        while progress and r < rounds * 8:
            progress = False
            r += 1
            for b, bl in enumerate(caller.blocks):
                t = bl['term']
                if t['k'] != 'call' or t['fn'].get('k') != 'def':
                    continue
                cn = t['fn']['name']
                if cn not in F.fns and cn.rsplit('::', 1)[-1] in ('call', 'call_mut', 'call_once') and 'ops::function::Fn' in cn and t['args']:
                    # `f(x)` on a generic `F: Fn(..)` parameter: after the helper is inlined the callee value is a known closure
                    tgt = _closure_of(caller, t['args'][0])
                    if tgt is not None and tgt in F.fns:
                        t['fn'] = dict(t['fn'], name=tgt, devirtualised=True)
                        cn = tgt
                    else:
                        # the callee value is a function item (`helper(.., mont_mul)`): a direct call with the tuple spread
                        item = _fn_item_of(caller, t['args'][0])
                        if item is not None and len(t['args']) == 2 and t['args'][1]['k'] in ('copy', 'move') and not t['args'][1]['pl']['p']:
                            n_ = _tuple_arity(caller, t['args'][1]['pl']['l'])
                            if n_ is not None:
                                tl = t['args'][1]['pl']['l']
                                t['args'] = [{'k': 'copy', 'pl': {'l': tl, 'p': [{'f': i_, 'name': str(i_), 'ty': ''}]}} for i_ in range(n_)]
                                t['fn'] = {'k': 'def', 'name': item['name'], 'raw': item.get('raw', item['name']), 'generic': item.get('generic', ''),
                                           'krate': item['name'].split('::')[0], 'local': item['name'] in F.fns, 'devirtualised': True}
                                cn = item['name']
                if cn not in new or cn == caller.name:
                    continue
                callee = originals[cn]
                if _calls_self(F, callee):
                    continue
                if done.get(caller.name, []).count(cn) > 40:
                    continue
                if splice(caller, b, callee):
                    done.setdefault(caller.name, []).append(cn)
                    progress = True
                    break
    # closures whose every use was spliced into the code that creates them: their stand-alone bodies are no longer part of
    # the program as analysed (the parameters of the stand-alone body are unconstrained, its sites would be judged without
    # the caller's guards)
    inlined_names = {c for v in done.values() for c in v if '{closure' in c}
    gone = set()
    for c in inlined_names:
        direct = any(t['fn'].get('k') == 'def' and t['fn'].get('name') == c for f in F.fns.values() if f.name != c for _, t in f.calls())
        makers = [f for f in F.fns.values() if any(st.get('rv', {}).get('k') == 'aggr' and st['rv'].get('akind') == 'closure' and st['rv'].get('closure') == c for _, _, st in f.stmts())]
        indirect = any('ops::function::Fn' in (t['fn'].get('name') or '') for f in makers for _, t in f.calls() if t['fn'].get('k') == 'def')
        if not direct and not indirect:
            gone.add(c)
    F.fully_inlined = gone
    return done


LOCALS = os.path.join(os.path.dirname(os.path.abspath(__file__)), 'baseline_locals.json')


def user_locals(fn):
    """(name, type) of the user-named locals of a function in MIR order (parameters first)"""
    return [(l.get('name'), (l.get('ty') or '').strip()) for l in fn.locals if l.get('name') and not str(l.get('name')).startswith('_')]


def canonical_local_names(F):
    """Rules address a few locals by their source name (`w`, `k`, `ct`, `count_group`).  A rename must not matter: every
    function of the reviewed vocabulary gets its reviewed names back -- parameters by position, locals per type by order
    of declaration when the function still has as many named locals of that type as it had when reviewed.  Purely
    cosmetic (names select which local a rule looks at; what is then compared is its data flow)."""
    import json as _j
    if not os.path.exists(LOCALS):
        return {}
    table = _j.load(open(LOCALS))
    done = {}
    for q, fn in F.fns.items():
        ref = table.get(q)
        if not ref:
            continue
        cur = [(k_, l) for k_, l in enumerate(fn.locals) if l.get('name') and not str(l.get('name')).startswith('_')]
        by_ty_ref, by_ty_cur = {}, {}
        for n_, t_ in ref:
            by_ty_ref.setdefault(t_, []).append(n_)
        for k_, l in cur:
            by_ty_cur.setdefault((l.get('ty') or '').strip(), []).append(k_)
        ren = {}
        for t_, idxs in by_ty_cur.items():
            names = by_ty_ref.get(t_)
            if names and len(names) == len(idxs):
                for k_, n_ in zip(idxs, names):
                    if fn.locals[k_]['name'] != n_:
                        ren[k_] = n_
        if ren:
            taken = {l.get('name') for k_, l in enumerate(fn.locals) if k_ not in ren}
            if not (set(ren.values()) & taken):
                for k_, n_ in ren.items():
                    fn.locals[k_]['name'] = n_
                done[q] = len(ren)
    return done


ADTS = os.path.join(os.path.dirname(os.path.abspath(__file__)), 'baseline_adts.json')


def adt_fields(F):
    return {q: [[(f.get('name'), f.get('ty')) for f in v.get('fields', [])] for v in a.get('variants', [])] for q, a in sorted(F.adts.items())}


def canonical_field_names(F):
    """A renamed struct field gets its reviewed name back in every place that projects it (same ADT, same number of fields
    with the same types in the same order).  Cosmetic, like canonical_local_names."""
    import json as _j
    if not os.path.exists(ADTS):
        return {}
    base = _j.load(open(ADTS))
    cur = adt_fields(F)
    ren = {}
    for q, vs in cur.items():
        bv = base.get(q)
        if not bv or len(bv) != len(vs):
            continue
        for v_, b_ in zip(vs, bv):
            if len(v_) != len(b_) or [t for _, t in v_] != [t for _, t in b_]:
                continue
            for (n_, t_), (bn_, _) in zip(v_, b_):
                if n_ != bn_ and n_ is not None and bn_ is not None:
                    ren.setdefault(n_, set()).add((bn_, t_))
    # a current name that is also the (unchanged) name of a field elsewhere is left alone
    keep = {n_ for vs in cur.values() for v_ in vs for n_, _ in v_} - set(ren)
    ren = {n_: list(x)[0] for n_, x in ren.items() if len(x) == 1 and list(x)[0][0] not in ren}
    if not ren:
        return {}

    def walk(o):
        if isinstance(o, dict):
            if 'f' in o and o.get('name') in ren and (o.get('ty') is None or o.get('ty') == ren[o['name']][1]):
                o['name'] = ren[o['name']][0]
            if isinstance(o.get('fnames'), list):
                o['fnames'] = [ren[x][0] if x in ren else x for x in o['fnames']]
            for v in o.values():
                walk(v)
        elif isinstance(o, list):
            for v in o:
                walk(v)
    for fn in F.fns.values():
        walk(fn.blocks)
        for pr in (fn.promoted or []):
            walk(pr)
    for a in F.adts.values():
        for v in a.get('variants', []):
            for f in v.get('fields', []):
                if f.get('name') in ren:
                    f['name'] = ren[f['name']][0]
    return {k: v[0] for k, v in ren.items()}
