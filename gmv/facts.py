"""Load MIR fact files produced by driver/ and provide basic program-graph analyses.

Everything here is generic (CFG, dominators, reachability with removed edges,
def-use provenance); rules live in rules_*.py.
"""
import json, os, sys
from functools import lru_cache

CRATES = ['gm_sm2', 'gm_sm3', 'gm_sm4', 'gm_sm9', 'gm_zuc']


class Fn:
    def __init__(self, crate, j):
        self.crate = crate
        self.name = j['name']
        self.kind = j['kind']
        self.public = j.get('public', False)
        self.sig = j.get('sig', '')
        self.unsafe = j.get('unsafe', False)
        self.span = j['span']
        self.body = j['body']
        self.promoted = j['promoted']
        self.blocks = self.body['blocks']
        self.locals = self.body['locals']
        self.arg_count = self.body['arg_count']
        self._succ = None
        self._pred = None
        self._dom = None

    # short name: last path component(s) without crate
    @property
    def short(self):
        return self.name.split('::', 1)[1] if '::' in self.name else self.name

    def loc(self, span=None):
        sp = span or self.span
        return '%s:%d' % (relpath(sp['file']), sp['line'])

    # ---- CFG (cleanup/unwind edges are not represented; panics are sinks)
    def succ(self, b):
        if self._succ is None:
            self._succ = [term_succ(bl['term']) for bl in self.blocks]
        return self._succ[b]

    def pred(self, b):
        if self._pred is None:
            self._pred = [[] for _ in self.blocks]
            for i in range(len(self.blocks)):
                for s in self.succ(i):
                    self._pred[s].append(i)
        return self._pred[b]

    def reachable(self, start=0, removed_edges=(), removed_blocks=()):
        """blocks reachable from start, not traversing removed edges (a,b) or entering removed blocks"""
        rem = set(removed_edges)
        rb = set(removed_blocks)
        if start in rb:
            return set()
        seen = {start}
        st = [start]
        while st:
            a = st.pop()
            for b in self.succ(a):
                if (a, b) in rem or b in rb or b in seen:
                    continue
                seen.add(b)
                st.append(b)
        return seen

    def reachable_ds(self, start=0, removed_edges=(), removed_blocks=(), cap=48):
        """like reachable(), but prunes switch edges that contradict what the path itself established about the
        variant of an enum-valued local: `x = Adt::Variant{..}` (aggregate), copies/moves of x, `Try::branch(x)` for
        Result/Option, `d = discriminant(x)`; `switch d` then follows only the matching target.  Sound: only edges
        that no execution of the path can take are dropped.  Needed once validation helpers are inlined: their
        `return Err(..)` and `Ok(..)` meet in one continuation block that the caller's `?` splits again."""
        rem = set(removed_edges)
        rb = set(removed_blocks)
        if start in rb:
            return set()
        seen_states = {}
        out = set()
        work = [(start, ())]
        while work:
            b, envt = work.pop()
            ss = seen_states.setdefault(b, set())
            if envt in ss:
                continue
            if len(ss) >= cap:
                if () in ss:
                    continue
                envt = ()
            ss.add(envt)
            out.add(b)
            env = dict(envt)
            bl = self.blocks[b]
            for st in bl['stmts']:
                if st.get('k') != 'assign':
                    continue
                lhs = st['lhs']
                l = lhs['l']
                if lhs['p']:
                    env.pop(('v', l), None)
                    env.pop(('d', l), None)
                    continue
                rv = st['rv']
                env.pop(('v', l), None)
                env.pop(('d', l), None)
                if rv['k'] == 'aggr' and rv.get('akind') == 'adt' and 'vidx' in rv:
                    env[('v', l)] = rv['vidx']
                elif rv['k'] == 'use' and rv['op']['k'] == 'const' and (rv['op']['c'] or {}).get('ty') == 'bool' and (rv['op']['c'] or {}).get('k') == 'int':
                    env[('d', l)] = int(rv['op']['c']['bits'])      # a bool constant: `switch l` is decided
                elif rv['k'] == 'use' and rv['op']['k'] in ('copy', 'move') and not rv['op']['pl']['p']:
                    src = rv['op']['pl']['l']
                    for tag in ('v', 'd'):
                        if (tag, src) in env:
                            env[(tag, l)] = env[(tag, src)]
                elif rv['k'] == 'discr' and not rv['pl']['p'] and ('v', rv['pl']['l']) in env:
                    env[('d', l)] = env[('v', rv['pl']['l'])]
            t = bl['term']
            succs = self.succ(b)
            if t['k'] == 'call':
                d = t['dest']
                if not d['p']:
                    env.pop(('v', d['l']), None)
                    env.pop(('d', d['l']), None)
                    f = t['fn']
                    nm = f.get('name', '') if f.get('k') == 'def' else ''
                    if nm.endswith('>::from_residual'):
                        if 'std::result::Result' in nm:
                            env[('v', d['l'])] = 1
                        elif 'std::option::Option' in nm:
                            env[('v', d['l'])] = 0
                    if nm.endswith('>::branch') and len(t['args']) == 1 and t['args'][0]['k'] in ('copy', 'move') and not t['args'][0]['pl']['p']:
                        v = env.get(('v', t['args'][0]['pl']['l']))
                        if v is not None:
                            if 'std::result::Result' in nm:
                                env[('v', d['l'])] = v            # Ok(0) -> Continue(0), Err(1) -> Break(1)
                            elif 'std::option::Option' in nm:
                                env[('v', d['l'])] = 1 - v        # Some(1) -> Continue(0), None(0) -> Break(1)
            elif t['k'] == 'switch' and t['op']['k'] in ('copy', 'move') and not t['op']['pl']['p']:
                dv = env.get(('d', t['op']['pl']['l']))
                if dv is not None:
                    hit = [tb for v, tb in t['targets'] if v == str(dv)]
                    succs = hit[:1] if hit else [t['otherwise']]
            envt2 = tuple(sorted(env.items()))
            for s2 in succs:
                if (b, s2) in rem or s2 in rb:
                    continue
                work.append((s2, envt2))
        return out

    def dominators(self):
        """dom[b] = set of blocks dominating b (iterative; bodies are small)"""
        if self._dom is not None:
            return self._dom
        n = len(self.blocks)
        reach = self.reachable(0)
        allb = set(reach)
        dom = {b: set(allb) for b in reach}
        dom[0] = {0}
        changed = True
        order = sorted(reach)
        while changed:
            changed = False
            for b in order:
                if b == 0:
                    continue
                ps = [p for p in self.pred(b) if p in reach]
                if not ps:
                    continue
                new = set.intersection(*[dom[p] for p in ps]) | {b}
                if new != dom[b]:
                    dom[b] = new
                    changed = True
        self._dom = dom
        return dom

    def sccs(self):
        """Tarjan SCCs of the CFG restricted to reachable blocks; returns list of sets with a cycle"""
        index = {}
        low = {}
        stack = []
        onstack = set()
        out = []
        counter = [0]
        sys.setrecursionlimit(10000)

        def strong(v):
            index[v] = low[v] = counter[0]
            counter[0] += 1
            stack.append(v)
            onstack.add(v)
            for w in self.succ(v):
                if w not in index:
                    strong(w)
                    low[v] = min(low[v], low[w])
                elif w in onstack:
                    low[v] = min(low[v], index[w])
            if low[v] == index[v]:
                comp = set()
                while True:
                    w = stack.pop()
                    onstack.discard(w)
                    comp.add(w)
                    if w == v:
                        break
                if len(comp) > 1 or v in self.succ(v):
                    out.append(comp)

        for b in sorted(self.reachable(0)):
            if b not in index:
                strong(b)
        return out

    def natural_loops(self):
        """list of (header, body) for every header with a back edge from a block it dominates (nested loops are
        reported separately, unlike sccs())"""
        if getattr(self, '_nl', None) is not None:
            return self._nl
        dom = self.dominators()
        out = []
        for h in sorted(dom):
            backs = [p for p in self.pred(h) if p in dom and h in dom[p]]
            if not backs:
                continue
            body = {h}
            st = list(backs)
            while st:
                x = st.pop()
                if x in body:
                    continue
                body.add(x)
                for p in self.pred(x):
                    if p in dom:
                        st.append(p)
            out.append((h, body))
        self._nl = out
        return out

    # ---- iteration helpers
    def calls(self):
        """yield (block_idx, term) for every call terminator"""
        for i, bl in enumerate(self.blocks):
            t = bl['term']
            if t['k'] in ('call', 'tailcall'):
                yield i, t

    def stmts(self):
        for i, bl in enumerate(self.blocks):
            for j, st in enumerate(bl['stmts']):
                yield i, j, st

    def local_name(self, l):
        n = self.locals[l].get('name')
        return n if n else '_%d' % l

    def local_ty(self, l):
        return self.locals[l]['ty']

    def arg_local(self, name):
        for l in range(1, self.arg_count + 1):
            if self.locals[l].get('name') == name:
                return l
        return None


def term_succ(t):
    k = t['k']
    if k == 'goto':
        return [t['target']]
    if k == 'switch':
        out = []
        for v, b in t['targets']:
            if b not in out:
                out.append(b)
        if t['otherwise'] not in out:
            out.append(t['otherwise'])
        return out
    if k in ('call',):
        return [t['target']] if t['target'] is not None else []
    if k in ('drop', 'assert'):
        return [t['target']]
    return []


_ROOT = None


def relpath(p):
    if p.startswith('/repo/'):
        return p[len('/repo/'):]
    return p


class Facts:
    def __init__(self, facts_dir):
        self.dir = facts_dir
        self.fns = {}
        self.items = {}
        self.adts = {}
        self.by_crate = {}
        for c in CRATES:
            path = os.path.join(facts_dir, c + '.json')
            if not os.path.exists(path):
                raise FileNotFoundError('fact file missing for crate %s: %s' % (c, path))
            j = json.load(open(path))
            self.by_crate[c] = j
            for f in j['fns']:
                fn = Fn(c, f)
                self.fns[fn.name] = fn
            for it in j['items']:
                self.items[it['name']] = it
            for a in j['adts']:
                self.adts[a['name']] = a

    def fn(self, name):
        return self.fns.get(name)

    def find_fns(self, suffix):
        return [f for n, f in self.fns.items() if n == suffix or n.endswith('::' + suffix)]

    def callees(self, fn):
        out = []
        for b, t in fn.calls():
            c = t['fn']
            if c['k'] == 'def':
                out.append(c['name'])
        return out

    def closure(self, roots):
        """workspace call-graph closure: set of fn names (with bodies) reachable from roots,
        plus the set of external callee names encountered"""
        seen = set()
        ext = set()
        st = list(roots)
        while st:
            n = st.pop()
            if n in seen:
                continue
            f = self.fns.get(n)
            if f is None:
                ext.add(n)
                continue
            seen.add(n)
            for b, t in f.calls():
                c = t['fn']
                if c['k'] == 'def':
                    st.append(c['name'])
                    # closures passed as generic args are reached through aggregates
            for _, _, stt in f.stmts():
                rv = stt.get('rv')
                if rv and rv['k'] == 'aggr' and rv.get('akind') == 'closure' and rv['closure'] not in getattr(self, 'fully_inlined', ()):
                    st.append(rv['closure'])
        return seen, ext


# ---------------------------------------------------------------- pretty printing

def pp_place(fn, pl):
    s = fn.local_name(pl['l'])
    for p in pl['p']:
        if p == 'deref':
            s = '(*%s)' % s
        elif 'f' in p:
            s = '%s.%s' % (s, p['name'])
        elif 'idx' in p:
            s = '%s[%s]' % (s, fn.local_name(p['idx']))
        elif 'cidx' in p:
            s = '%s[%s%d]' % (s, '-' if p['from_end'] else '', p['cidx'])
        elif 'sub_from' in p:
            s = '%s[%d..%s%d]' % (s, p['sub_from'], '-' if p['from_end'] else '', p['sub_to'])
        elif 'downcast' in p:
            s = '(%s as %s)' % (s, p['vname'])
        else:
            s = '%s.?' % s
    return s


def pp_const(c):
    k = c.get('k')
    if 'item' in c:
        return 'const ' + c['item'].split('::')[-1]
    if k == 'int':
        v = int(c['bits'])
        if 'signed' in c:
            return '%s_%s' % (c['signed'], c['ty'])
        return ('%d_%s' % (v, c['ty'])) if v < 4096 else ('0x%x_%s' % (v, c['ty']))
    if k == 'fn':
        return 'fn ' + c['fn']
    if k == 'static_ref':
        return '&static ' + c['static'].split('::')[-1]
    if k == 'slice':
        b = bytes.fromhex(c.get('bytes', ''))
        return 'slice(%r)' % b[:70]
    if k in ('mem_ref', 'bytes'):
        extra = ' promoted[%d]' % c['promoted'] if 'promoted' in c else ''
        return '%s<%s %s>%s' % (k, c['ty'], c.get('bytes', '')[:64], extra)
    if k == 'zst':
        return 'zst<%s>' % c['ty']
    return json.dumps(c)[:80]


def pp_op(fn, o):
    if o['k'] in ('copy', 'move'):
        return ('move ' if o['k'] == 'move' else '') + pp_place(fn, o['pl'])
    if o['k'] == 'const':
        return pp_const(o['c'])
    return '?' + o.get('dbg', '')


def pp_rv(fn, rv):
    k = rv['k']
    if k == 'use':
        return pp_op(fn, rv['op'])
    if k == 'ref':
        return '&%s%s' % ('mut ' if rv['mut'] else '', pp_place(fn, rv['pl']))
    if k == 'binop':
        return '%s(%s, %s)' % (rv['op'], pp_op(fn, rv['a']), pp_op(fn, rv['b']))
    if k == 'unop':
        return '%s(%s)' % (rv['op'], pp_op(fn, rv['a']))
    if k == 'cast':
        return '%s as %s [%s]' % (pp_op(fn, rv['op']), rv['ty'], rv['kind'])
    if k == 'aggr':
        head = rv.get('akind')
        if head == 'adt':
            head = '%s::%s' % (rv['adt'].split('::')[-1], rv['variant'])
        if head == 'closure':
            head = 'closure ' + rv['closure']
        return '%s{%s}' % (head, ', '.join(pp_op(fn, o) for o in rv['ops']))
    if k == 'discr':
        return 'discr(%s)' % pp_place(fn, rv['pl'])
    if k == 'repeat':
        return '[%s; %s]' % (pp_op(fn, rv['op']), rv['count'])
    if k == 'rawptr':
        return '&raw %s' % pp_place(fn, rv['pl'])
    return '?' + rv.get('dbg', '')


def pp_term(fn, t):
    k = t['k']
    if k == 'call':
        c = t['fn']
        name = c['name'] if c['k'] == 'def' else '(indirect %s)' % c['ty']
        return '%s = %s(%s) -> %s' % (pp_place(fn, t['dest']), name,
                                      ', '.join(pp_op(fn, a) for a in t['args']),
                                      'bb%s' % t['target'] if t['target'] is not None else '!')
    if k == 'switch':
        return 'switch %s [%s, otherwise: bb%d]' % (pp_op(fn, t['op']),
                                                   ', '.join('%s: bb%d' % (v, b) for v, b in t['targets']),
                                                   t['otherwise'])
    if k == 'assert':
        return 'assert(%s == %s, %s(%s)) -> bb%d' % (pp_op(fn, t['cond']), t['expected'], t['kind'],
                                                    ', '.join(pp_op(fn, o) for o in t['ops']), t['target'])
    if k == 'goto':
        return 'goto bb%d' % t['target']
    if k == 'drop':
        return 'drop(%s) -> bb%d' % (pp_place(fn, t['pl']), t['target'])
    return k


def pp_fn(fn, out=sys.stdout):
    print('fn %s  [%s] sig=%s' % (fn.name, fn.loc(), fn.sig), file=out)
    for i, l in enumerate(fn.locals):
        print('   let _%d: %s%s' % (i, l['ty'], '  // ' + l['name'] if l.get('name') else ''), file=out)
    for i, bl in enumerate(fn.blocks):
        if bl.get('cleanup'):
            continue
        print(' bb%d:' % i, file=out)
        for st in bl['stmts']:
            if st['k'] == 'assign':
                print('    %s = %s    // L%d' % (pp_place(fn, st['lhs']), pp_rv(fn, st['rv']), st['span']['line']), file=out)
            else:
                print('    %s' % json.dumps(st)[:100], file=out)
        t = bl['term']
        print('    %s    // L%s' % (pp_term(fn, t), t.get('span', {}).get('line', '')), file=out)
    for pi, p in enumerate(fn.promoted):
        print(' promoted[%d]:' % pi, file=out)
        pf = Fn(fn.crate, {'name': fn.name + '::promoted[%d]' % pi, 'kind': 'promoted', 'span': fn.span,
                           'body': p, 'promoted': []})
        for i, bl in enumerate(pf.blocks):
            for st in bl['stmts']:
                if st['k'] == 'assign':
                    print('    %s = %s' % (pp_place(pf, st['lhs']), pp_rv(pf, st['rv'])), file=out)
            print('    %s' % pp_term(pf, bl['term']), file=out)


if __name__ == '__main__':
    F = Facts(sys.argv[1])
    for f in F.find_fns(sys.argv[2]) if len(sys.argv) > 2 else []:
        pp_fn(f)


# ---------------------------------------------------------------- constant items
def item_bytes(it):
    """raw little-endian memory image of a const/static item (None if not evaluable)"""
    if it is None:
        return None
    if 'bytes' in it:
        return bytes.fromhex(it['bytes'])
    v = it.get('value')
    if not v:
        return None
    if v.get('k') == 'int':
        return int(v['bits']).to_bytes(v['size'], 'little')
    if 'bytes' in v:
        return bytes.fromhex(v['bytes'])
    return None


def item_int(it):
    b = item_bytes(it)
    return None if b is None else int.from_bytes(b, 'little')


def layout_leaf_offsets(lay, prefix=''):
    """yield (path, offset, size) for every field of a struct layout whose type is an array of scalars or a scalar"""
    k = lay['k']
    if k == 'struct':
        for f in lay['fields']:
            p = (prefix + '.' if prefix else '') + f['name']
            sub = f['lay']
            if sub['k'] == 'struct':
                for (pp, off, sz) in layout_leaf_offsets(sub, p):
                    yield pp, f['off'] + off, sz
            else:
                yield p, f['off'], sub['size']
    else:
        yield prefix, 0, lay['size']


def _facts_items_by_suffix(self, suffix):
    return [v for k, v in self.items.items() if k == suffix or k.endswith('::' + suffix)]


Facts.items_by_suffix = _facts_items_by_suffix
