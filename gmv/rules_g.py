"""G — guard rules: "sink S is reachable from entry only through the passed edge of check C".

Decision procedure: delete the passed edge of every recognised instance of C
from the CFG; S must become unreachable (path-insensitive over-approximation of
feasible paths, so unreachable in the CFG => unreachable at run time).
"""
from .prov import Prov, E, strip, norm, same, fn_is, last, const_int, const_item


class Pred:
    """normalised branch condition"""

    def __init__(self, kind, args=(), op=None, neg=False, raw=None):
        self.kind = kind      # 'is_zero' 'cmp' 'eq' 'valid' 'bool' 'unknown'
        self.args = list(args)
        self.op = op          # for cmp: Lt Le Gt Ge Eq Ne   (meaning args[0] op args[1]); for valid: callee last name
        self.neg = neg
        self.raw = raw
        self.only = None      # True/False: only that edge of the switch is implied by the predicate (materialised && / ||)

    def show(self):
        s = '%s%s(%s)' % (self.kind, ':' + self.op if self.op else '', ', '.join(a.show() for a in self.args))
        return ('!' if self.neg else '') + s


NEGOP = {'Lt': 'Ge', 'Ge': 'Lt', 'Le': 'Gt', 'Gt': 'Le', 'Eq': 'Ne', 'Ne': 'Eq'}
SWAPOP = {'Lt': 'Gt', 'Gt': 'Lt', 'Le': 'Ge', 'Ge': 'Le', 'Eq': 'Eq', 'Ne': 'Ne'}

VALIDATORS = ('is_valid', 'is_valid_affine_point', 'is_on_curve')


def classify(e):
    """turn a boolean expression into a Pred (truth of Pred == truth of e)"""
    e = strip(e)
    if e.k == 'unop' and e.name == 'Not':
        p = classify(e.args[0])
        p.neg = not p.neg
        return p
    if e.k == 'call':
        ln = last(e.name)
        if ln == 'is_zero' and e.args:
            return Pred('is_zero', [norm(e.args[0])], raw=e)
        if ln in VALIDATORS and e.args:
            return Pred('valid', [norm(e.args[0])], op=ln, raw=e)
        if ln in ('eq', 'ne') and len(e.args) == 2:
            return Pred('eq', [norm(e.args[0]), norm(e.args[1])], neg=(ln == 'ne'), raw=e)
        if ln == 'is_empty' and e.args:
            # x.is_empty()  ==  len(x) == 0
            return Pred('eq', [E('call', 'len', [norm(e.args[0])], ty='usize'), E('const', c={'k': 'int', 'bits': '0', 'ty': 'usize', 'size': 8}, ty='usize')], raw=e)
        if ln == 'is_err' or ln == 'is_ok' or ln == 'is_none' or ln == 'is_some':
            return Pred(ln, [norm(e.args[0])], raw=e)
    if e.k == 'binop' and e.name in NEGOP:
        a, b = strip(e.args[0]), strip(e.args[1])
        # u256_cmp(x, y) OP 0   ==>   x OP y
        for (l, r, op) in ((a, b, e.name), (b, a, SWAPOP[e.name])):
            if l.k == 'call' and last(l.name) == 'u256_cmp' and const_int(r) == 0:
                return Pred('cmp', [norm(l.args[0]), norm(l.args[1])], op=op, raw=e)
        if e.name in ('Eq', 'Ne'):
            return Pred('eq', [norm(a), norm(b)], neg=(e.name == 'Ne'), raw=e)
        return Pred('cmp', [norm(a), norm(b)], op=e.name, raw=e)
    return Pred('unknown', [norm(e)], raw=e)


def bool_switches(fn, P):
    """yield (block, Pred, true_edges, false_edges) for every two-way switch on a bool"""
    INTS = {'u8': 1, 'u16': 2, 'u32': 4, 'u64': 8, 'usize': 8, 'i8': 1, 'i16': 2, 'i32': 4, 'i64': 8, 'isize': 8}
    for b, bl in enumerate(fn.blocks):
        t = bl['term']
        if t['k'] == 'switch' and t['ty'] in INTS:
            # `match x { 2 | 3 => .., 4 => .., _ => .. }`: each listed value is an equality test whose passed edge is the
            # arm's edge (arms shared by several values share the edge); every other edge implies x != value
            e = P.operand(t['op'], b, len(bl['stmts']))
            es = strip(e)
            if es.k == 'discr' and es.args:
                # `cond.then_some(v).ok_or(err)?` (also `.then(..)`, `ok_or_else`, and `if cond { Ok(..) } else { Err(..) }?` folded
                # by the provenance): the Continue edge (discriminant 0) is taken exactly when cond holds
                x = strip(es.args[0])
                if x.k == 'call' and last(x.name or '') == 'branch' and len(x.args) == 1:
                    y = strip(x.args[0])
                    if y.k == 'call' and last(y.name or '') in ('ok_or', 'ok_or_else') and y.args:
                        z = strip(y.args[0])
                        if z.k == 'call' and last(z.name or '') in ('then_some', 'then') and z.args and '<impl bool>' in (z.name or ''):
                            p = classify(z.args[0])
                            cont = [tb for v, tb in t['targets'] if str(v) == '0']
                            brk = [tb for v, tb in t['targets'] if str(v) == '1']
                            if cont and brk:
                                yield b, p, [(b, cont[0])], [(b, brk[0])]
                continue
            if es.k in ('discr',) or (es.k == 'call' and last(es.name) == 'discriminant'):
                continue
            for v, tb in t['targets']:
                try:
                    iv = int(v)
                except (TypeError, ValueError):
                    continue
                cst = E('const', c={'k': 'int', 'bits': str(iv), 'ty': t['ty'], 'size': INTS[t['ty']]}, ty=t['ty'])
                p = Pred('eq', [norm(e), cst], raw=e)
                others = [(b, x) for _, x in t['targets'] if x != tb]
                if t['otherwise'] != tb:
                    others.append((b, t['otherwise']))
                yield b, p, [(b, tb)], sorted(set(others))
            continue
        if t['k'] != 'switch' or t['ty'] != 'bool':
            continue
        e = P.operand(t['op'], b, len(bl['stmts']))
        only = None
        es = strip(e)
        if es.k == 'phi':
            # a materialised `a && b` / `a || b` (bool returned by a helper, `let ok = ..`): phi(false | X) — the true edge
            # implies X; phi(true | X) — the false edge implies not X.  The other edge implies nothing about X.
            consts = [const_int(a) for a in es.args if strip(a).k == 'const']
            rest = [a for a in es.args if strip(a).k != 'const']
            if len(rest) == 1 and consts and None not in consts and len(set(consts)) == 1:
                e = rest[0]
                only = (consts[0] == 0)     # True: only the true edge is informative
        p = classify(e)
        p.only = only
        false_t = [tb for v, tb in t['targets'] if v == '0']
        true_edges = [(b, t['otherwise'])]
        false_edges = [(b, x) for x in false_t]
        # switch on bool with explicit 1 target and otherwise unreachable
        for v, tb in t['targets']:
            if v == '1':
                true_edges = [(b, tb)]
        yield b, p, true_edges, false_edges


def ret_def_sites(fn):
    """definition sites (block, idx; idx = -1 for a call) of the values that are moved into the return place: the
    assignments to `_0` themselves, and — through whole-value moves `_0 = move x` (tail expressions, `?` lowering, the
    return places of inlined helpers) — the definitions of x that reach the move"""
    P = Prov(fn, None)
    out = []
    seen = set()
    work = []
    for b, i, st in fn.stmts():
        if st['k'] == 'assign' and st['lhs']['l'] == 0 and not st['lhs']['p']:
            work.append((b, i))
    for b, t in fn.calls():
        if t['dest']['l'] == 0 and not t['dest']['p']:
            work.append((b, -1))
    while work:
        b, i = work.pop()
        if (b, i) in seen:
            continue
        seen.add((b, i))
        if i == -1:
            out.append((b, -1))
            continue
        st = fn.blocks[b]['stmts'][i]
        rv = st['rv']
        if rv['k'] == 'use' and rv['op']['k'] in ('copy', 'move') and not rv['op']['pl']['p'] and rv['op']['pl']['l'] > fn.arg_count:
            src = rv['op']['pl']['l']
            rs = P.reaching(src, b, i)
            if rs and all(r is not None and r != 'IN' for r in rs) and not P.has_partial_defs(src):
                for r in rs:
                    work.append(r)
                continue
        out.append((b, i))
    return sorted(set(out))


def ret_aliases(fn):
    """locals that hold (at some definition) the value moved into the return place"""
    al = {0}
    for b, i in ret_def_sites(fn):
        if i == -1:
            al.add(fn.blocks[b]['term']['dest']['l'])
        else:
            al.add(fn.blocks[b]['stmts'][i]['lhs']['l'])
    return al


def ok_sinks(fn, variants=('Result::Ok', 'Option::Some')):
    """blocks that build the success value of the function's return place"""
    out = []
    for b, i in ret_def_sites(fn):
        if i == -1:
            continue
        st = fn.blocks[b]['stmts'][i]
        rv = st['rv']
        if rv['k'] == 'aggr' and rv.get('akind') == 'adt':
            nm = '%s::%s' % (last(rv['adt']), rv['variant'])
            if nm in variants:
                out.append(b)
    return sorted(set(out))


def err_sinks(fn):
    return ok_sinks(fn, ('Result::Err', 'Option::None'))


def reachable_without(fn, sinks, removed_edges, start=0):
    r = fn.reachable_ds(start, removed_edges=removed_edges)
    return [s for s in sinks if s in r]


def where(fn, b):
    bl = fn.blocks[b]
    sp = bl['term'].get('span')
    if not sp:
        for st in bl['stmts']:
            if 'span' in st:
                sp = st['span']
                break
    return fn.loc(sp) if sp else fn.loc()


def guard(cx, rule, inst, fn, P, sinks, match, want_truth, what, require_fail_blocks_sink=True, fail_must_pass=None):
    """Generic guard obligation.
    match(pred) -> bool selects the check instances; want_truth is the truth value of the Pred on the passed edge
    (after accounting for pred.neg: we compare the *un-negated* predicate).
    Holds iff at least one instance exists, removing all passed edges makes every sink unreachable, and (optionally)
    no sink is reachable from the failing edge without crossing a passed edge again."""
    passed = []
    failing = []
    sites = []
    for b, p, te, fe in bool_switches(fn, P):
        if not match(p):
            continue
        truth = want_truth if not p.neg else (not want_truth)
        if getattr(p, 'only', None) is not None and p.only != truth:
            continue       # the edge that would count as "passed" does not imply the predicate here
        passed += te if truth else fe
        failing += fe if truth else te
        sites.append(b)
    if not sinks:
        cx.lost(rule, inst, 'no success exit found in %s' % fn.short, fn.loc())
        return False
    if not sites:
        cx.violate(rule, inst, '%s: no such check on any path in %s — %s' % (what, fn.short, 'success exit is unguarded'),
                   where(fn, sinks[0]), {'sinks': sinks})
        return False
    left = reachable_without(fn, sinks, passed)
    if left:
        cx.violate(rule, inst, '%s: success exit bb%d of %s is reachable from entry without passing the check (check sites bb%s)' % (what, left[0], fn.short, sites),
                   where(fn, left[0]), {'sinks': sinks, 'check_blocks': sites, 'bypassing_sinks': left})
        return False
    if require_fail_blocks_sink:
        for (a, b2) in failing:
            r = fn.reachable_ds(b2, removed_edges=passed, removed_blocks=set(fail_must_pass or ()))
            bad = [s for s in sinks if s in r]
            if bad:
                cx.violate(rule, inst, '%s: failing edge bb%d->bb%d of %s still reaches success exit bb%d' % (what, a, b2, fn.short, bad[0]),
                           where(fn, a), {'edge': [a, b2]})
                return False
    cx.hold(rule, inst, '%s: every path to the success exit(s) bb%s of %s passes the check at bb%s' % (what, sinks, fn.short, sites),
            where(fn, sites[0]), {'sinks': sinks, 'check_blocks': sites})
    return True


def call_blocks(fn, suffix):
    return [b for b, t in fn.calls() if t['fn']['k'] == 'def' and fn_is(t['fn']['name'], suffix)]


def call_args(fn, P, b):
    t = fn.blocks[b]['term']
    n = len(fn.blocks[b]['stmts'])
    return [norm(P.operand(a, b, n)) for a in t['args']]


def contains(e, pred):
    return any(pred(x) for x in e.walk())


def has_param(e, name):
    return contains(e, lambda x: x.k == 'param' and x.name == name)


def has_call(e, suffix):
    return contains(e, lambda x: x.k == 'call' and (fn_is(x.name, suffix) or last(x.name) == suffix))


def range_guard(cx, rule, inst, fn, P, sinks, is_value, lo, hi, what, canon=None):
    """sinks are reachable only with lo <= v <= hi established by dominating comparisons of v with constants
    (u256_cmp(v, C) op 0, v.is_zero(), v == / != const).  Every recognised comparison is tested as a must-pass
    guard; the bounds of those that are must-pass are intersected."""
    INF = 1 << 300
    elo, ehi = 0, INF
    used = []
    for b, p, te, fe in bool_switches(fn, P):
        bound = None  # (kind, value, truth on which it holds)
        if p.kind == 'is_zero' and is_value(p.args[0]):
            cand = [('lo', 1, False)]
        elif p.kind == 'cmp' and len(p.args) == 2 and is_value(p.args[0]) and const_int(p.args[1]) is not None:
            c = const_int(p.args[1])
            cand = {'Lt': [('hi', c - 1, True), ('lo', c, False)], 'Le': [('hi', c, True), ('lo', c + 1, False)],
                    'Gt': [('lo', c + 1, True), ('hi', c, False)], 'Ge': [('lo', c, True), ('hi', c - 1, False)],
                    'Eq': [], 'Ne': []}[p.op]
        elif p.kind == 'cmp' and len(p.args) == 2 and is_value(p.args[1]) and const_int(p.args[0]) is not None:
            c = const_int(p.args[0])
            cand = {'Gt': [('hi', c - 1, True), ('lo', c, False)], 'Ge': [('hi', c, True), ('lo', c + 1, False)],
                    'Lt': [('lo', c + 1, True), ('hi', c, False)], 'Le': [('lo', c, True), ('hi', c - 1, False)],
                    'Eq': [], 'Ne': []}[p.op]
        elif p.kind == 'eq' and len(p.args) == 2 and is_value(p.args[0]) and const_int(p.args[1]) == 0:
            cand = [('lo', 1, False)]
        else:
            continue
        for kind, val, truth in cand:
            t = truth if not p.neg else (not truth)
            passed = te if t else fe
            if not reachable_without(fn, sinks, passed):
                if kind == 'lo':
                    elo = max(elo, val)
                else:
                    ehi = min(ehi, val)
                used.append(b)
    ok = elo >= lo and ehi <= hi
    w = where(fn, used[0]) if used else (where(fn, sinks[0]) if sinks else fn.loc())
    est = '[%s, %s]' % (hex(elo), 'unbounded' if ehi == INF else hex(ehi))
    if ok:
        cx.hold(rule, inst, '%s: dominating checks at bb%s establish %s within required [%s, %s]' % (what, sorted(set(used)), est, hex(lo), hex(hi)), w)
    else:
        cx.violate(rule, inst, '%s: dominating checks establish only %s, required [%s, %s]' % (what, est, hex(lo), hex(hi)), w,
                   {'established_lo': hex(elo), 'established_hi': None if ehi == INF else hex(ehi)})
    return ok


def aggr_blocks(fn, adt_variant):
    """blocks containing an aggregate construction `Adt::Variant{..}`; returns list of (block, stmt_idx, rv)"""
    out = []
    for b, i, st in fn.stmts():
        if st['k'] == 'assign' and st['rv']['k'] == 'aggr' and st['rv'].get('akind') == 'adt':
            if '%s::%s' % (last(st['rv']['adt']), st['rv']['variant']) == adt_variant:
                out.append((b, i, st['rv']))
    return out
