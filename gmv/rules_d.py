"""D — discarded pure result: a call to a side-effect-free workspace function whose result is overwritten on every
path before it is read.  Such a statement computes nothing; in `t = t.op()` chain style it means an operation of the
algorithm was dropped."""
from .prov import last


def reads_local(obj, l):
    """does a MIR operand / place / rvalue JSON read local l?"""
    if isinstance(obj, dict):
        if 'l' in obj and 'p' in obj and isinstance(obj.get('p'), list):
            if obj['l'] == l:
                return True
            for p in obj['p']:
                if isinstance(p, dict) and p.get('idx') == l:
                    return True
            return False
        return any(reads_local(v, l) for v in obj.values())
    if isinstance(obj, list):
        return any(reads_local(v, l) for v in obj)
    return False


def dead_results(fn, is_pure_callee):
    out = []
    # definition sites to examine: (start point after the def, block of the producing call, callee, local)
    sites = []
    for b, t in fn.calls():
        c = t['fn']
        if c['k'] != 'def' or not is_pure_callee(c['name']):
            continue
        d = t['dest']
        if d['p'] or t['target'] is None:
            continue
        if not t['args']:
            continue  # accepted idiom: `let mut x = T::zero();` dead constant initialiser (nullary constructor)
        if d['l'] == 0:
            continue
        sites.append(((t['target'], 0), b, c['name'], d['l']))
        # `x = move tmp` immediately consuming the temporary: follow the value into the named local
        tb = fn.blocks[t['target']]
        for i, s_ in enumerate(tb['stmts']):
            if s_['k'] == 'assign' and not s_['lhs']['p'] and s_['rv']['k'] == 'use' and s_['rv']['op']['k'] in ('move', 'copy') \
                    and s_['rv']['op']['pl']['l'] == d['l'] and not s_['rv']['op']['pl']['p'] and s_['lhs']['l'] != 0:
                sites.append(((t['target'], i + 1), b, c['name'], s_['lhs']['l']))
                break
    for (start, b, cname, L) in sites:
        c = {'name': cname}
        # forward search for a read before a full redefinition
        live = False
        seen = set()
        st = [start]
        while st and not live:
            bb, i0 = st.pop()
            if (bb, i0) in seen:
                continue
            seen.add((bb, i0))
            bl = fn.blocks[bb]
            killed = False
            for i in range(i0, len(bl['stmts'])):
                s_ = bl['stmts'][i]
                if s_['k'] != 'assign':
                    continue
                if reads_local(s_['rv'], L) or (s_['lhs']['p'] and reads_local(s_['lhs'], L)):
                    live = True
                    break
                if s_['lhs']['l'] == L and not s_['lhs']['p']:
                    killed = True
                    break
            if live or killed:
                continue
            tt = bl['term']
            if tt['k'] in ('call', 'tailcall'):
                if reads_local(tt['args'], L) or reads_local(tt.get('fn', {}).get('op'), L):
                    live = True
                    continue
                if tt.get('dest') and tt['dest']['l'] == L and not tt['dest']['p']:
                    continue
                if tt.get('dest') and tt['dest']['p'] and reads_local(tt['dest'], L):
                    live = True
                    continue
            elif tt['k'] == 'switch':
                if reads_local(tt['op'], L):
                    live = True
                    continue
            elif tt['k'] == 'assert':
                if reads_local(tt['cond'], L) or reads_local(tt['ops'], L):
                    live = True
                    continue
            elif tt['k'] == 'drop':
                if tt['pl']['l'] == L:
                    live = True  # dropping observes the value (not a Copy scalar)
                    continue
            elif tt['k'] == 'return':
                continue
            from .facts import term_succ
            for s2 in term_succ(tt):
                st.append((s2, 0))
        if not live:
            out.append((b, c['name'], L))
    return out


def d_deadpure(cx, rule, crates, floor_calls=50):
    """zero expected. pure callees = workspace functions without &mut parameters that return a value"""
    F = cx.F
    pure = set()
    for n, f in F.fns.items():
        if f.crate in crates and f.kind != 'Closure' and f.locals[0]['ty'] not in ('()', '!'):
            if not any(f.local_ty(a).startswith('&mut') for a in range(1, f.arg_count + 1)):
                pure.add(n)
    total = 0
    found = []
    for n, f in sorted(F.fns.items()):
        if f.crate not in crates:
            continue
        total += sum(1 for _, t in f.calls() if t['fn']['k'] == 'def' and t['fn']['name'] in pure)
        for b, callee, L in dead_results(f, lambda x: x in pure):
            found.append((f, b, callee, L))
    for f, b, callee, L in found:
        from . import rules_g as G
        cx.violate(rule, '%s@%s' % (f.short, last(callee)), 'the result of %s assigned to `%s` in %s is overwritten before it is ever read (a step of the computation is discarded)' % (last(callee), f.local_name(L), f.short), G.where(f, b))
    cx.add(rule, 'sweep', True, 'liveness sweep over %d calls of value-returning workspace functions in %s: %d discarded result(s)' % (total, list(crates), len(found)))
    cx.floor(rule, 'calls', total, floor_calls, 'pure calls inspected')
    return found
