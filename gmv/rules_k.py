"""K — constants and tables: compare the evaluated initialisers of the
repository's constants (and constant operands at anchored use sites) with the
independent derivations of paramalg."""
from .facts import item_bytes, item_int, layout_leaf_offsets
from . import paramalg as pa, refimpl


def oracle_selfcheck(cx, which):
    """the oracle data itself must reproduce published vectors (guards against typos in /verif/spec)"""
    for name, ok in refimpl.selftest():
        if which and not name.startswith(which):
            continue
        cx.add('K-ORACLE', name, ok, 'reference implementation built from spec/params.json reproduces published vector ' + name)


def find_item(cx, rule, crate, name, expect_int=None, ty=None):
    """anchor lookup: by name within crate, falling back to a same-typed constant with the expected value"""
    cands = [it for it in cx.F.items_by_suffix(name) if it['name'].startswith(crate + '::')]
    if len(cands) == 1:
        return cands[0]
    if len(cands) > 1:
        # same name in several modules (e.g. function-local statics): all must agree, return first
        return cands[0]
    if expect_int is not None:
        for it in cx.F.items.values():
            if it['name'].startswith(crate + '::') and (ty is None or it['ty'] == ty) and item_int(it) == expect_int:
                return it
    cx.lost(rule, '%s::%s' % (crate, name), 'constant %s not found in %s (by name or by value)' % (name, crate))
    return None


def where(it):
    sp = it['span']
    f = sp['file']
    if f.startswith('/repo/'):
        f = f[6:]
    return '%s:%d' % (f, sp['line'])


def k_ints(cx, rule, crate, expected):
    """expected: name -> int"""
    n = 0
    for name, v in expected.items():
        it = find_item(cx, rule, crate, name, v)
        if it is None:
            continue
        got = item_int(it)
        n += 1
        cx.add(rule, '%s::%s' % (crate, name), got == v,
               '%s = %s' % (name, 'derived value' if got == v else ('0x%x, derived 0x%x' % (got if got is not None else -1, v))),
               where(it), {'got': hex(got) if got is not None else None, 'want': hex(v)})
    return n


def k_struct(cx, rule, crate, name, expected):
    """expected: field path -> int"""
    it = find_item(cx, rule, crate, name)
    if it is None:
        return
    b = item_bytes(it)
    if b is None:
        cx.lost(rule, '%s::%s' % (crate, name), 'initialiser not evaluable')
        return
    got = {p: int.from_bytes(b[o:o + s], 'little') for p, o, s in layout_leaf_offsets(it['layout'])}
    bad = [p for p in expected if got.get(p) != expected[p]]
    extra = [p for p in got if p not in expected]
    cx.add(rule, '%s::%s' % (crate, name), not bad and not extra,
           '%s fields %s' % (name, 'match derivation' if not bad and not extra else 'differ: %s %s' % (bad, extra)),
           where(it), {'fields': sorted(got)})


def k_array(cx, rule, crate, name, expected, width):
    it = find_item(cx, rule, crate, name)
    if it is None:
        return
    b = item_bytes(it)
    if b is None:
        cx.lost(rule, '%s::%s' % (crate, name), 'initialiser not evaluable')
        return
    got = [int.from_bytes(b[i:i + width], 'little') for i in range(0, len(b), width)]
    bad = [i for i in range(max(len(got), len(expected))) if i >= len(got) or i >= len(expected) or got[i] != expected[i]]
    cx.add(rule, '%s::%s' % (crate, name), not bad,
           '%s[%d] %s' % (name, len(got), 'all entries match' if not bad else 'entries differ at %s' % bad[:8]),
           where(it), {'entries': len(got), 'bad': bad[:32]})


def k_table(cx, rule, crate, name, rows, label):
    """rows: list of lists of ints (32-byte little-endian limbs each). One obligation per row plus shape."""
    it = find_item(cx, rule, crate, name)
    if it is None:
        return
    b = item_bytes(it)
    if b is None:
        cx.lost(rule, '%s::%s' % (crate, name), 'initialiser not evaluable')
        return
    nrows = len(rows)
    ncols = len(rows[0])
    ok_shape = len(b) == nrows * ncols * 32
    cx.add(rule, '%s::%s#shape' % (crate, name), ok_shape, '%s is %d x %d field elements (%d bytes)' % (name, nrows, ncols, len(b)), where(it))
    if not ok_shape:
        return
    cells = 0
    for w in range(nrows):
        bad = []
        for c in range(ncols):
            off = (w * ncols + c) * 32
            if int.from_bytes(b[off:off + 32], 'little') != rows[w][c]:
                bad.append(c)
            cells += 1
        cx.add(rule, '%s::%s[%d]' % (crate, name, w), not bad,
               '%s row %d: %s' % (label, w, 'all %d cells equal the derived multiples' % ncols if not bad else 'cells %s differ from the derived multiple of the generator' % bad[:6]),
               where(it), {'row': w, 'bad_cells': bad[:16]})
    cx.stat(name + '_cells_checked', cells)
