"""A-POLY — algebraic normal form of the extension-field formulas.

The SM9 tower Fp2 = Fp[u]/(u^2+2), Fp4 = Fp2[v]/(v^2-u), Fp12 = Fp4[w]/(w^3-v) is implemented by functions whose bodies are
straight-line sequences of calls to the ring operations of the level below.  The field-sensitive dataflow of `ExprFlow`
gives, for every return path, each coordinate of the result as an expression over those operations.  Here that expression
is brought into the normal form of a rational function (a quotient of polynomials with rational coefficients) in the
operand coordinates and compared with the normal form of the defining formula: the schoolbook product reduced by the
level's relation, the componentwise sum, `r * a = 1` for an inversion (with the coordinates that the path has tested to be
zero set to zero), ...

Nothing is executed and no solver is involved: two expressions are equal as elements of a commutative ring exactly when
their normal forms coincide, which is a syntactic comparison after normalisation (value numbering modulo the ring axioms).
The operations of the level below are taken as exact ring operations — they are the subject of the same rule one level
down, and of A-CARRY / I-BARRETT / K-* at the bottom.  What the grading rule A-GRADE cannot see (a wrong numeric
coefficient, `2 * a^-1` for `(2a)^-1`, a Karatsuba cross term with the wrong sign) changes the normal form.
"""
from fractions import Fraction
from .prov import last


class Undecided(Exception):
    pass


# ---- polynomials: {monomial: coefficient}, monomial = tuple of (variable, exponent) sorted by variable ------------------
def p_const(c):
    c = Fraction(c)
    return {(): c} if c else {}


def p_var(v):
    return {((v, 1),): Fraction(1)}


def p_add(a, b, sign=1):
    out = dict(a)
    for m, c in b.items():
        c2 = out.get(m, 0) + sign * c
        if c2:
            out[m] = c2
        else:
            out.pop(m, None)
    return out


def p_mul(a, b):
    if len(a) * len(b) > 4000000:
        raise Undecided('polynomial too large')
    out = {}
    for m1, c1 in a.items():
        d1 = dict(m1)
        for m2, c2 in b.items():
            d = dict(d1)
            for v, e in m2:
                d[v] = d.get(v, 0) + e
            m = tuple(sorted(d.items()))
            c = out.get(m, 0) + c1 * c2
            if c:
                out[m] = c
            else:
                out.pop(m, None)
    return out


def p_scale(a, k):
    k = Fraction(k)
    return {m: c * k for m, c in a.items()} if k else {}


def p_subst_zero(a, zero_vars):
    return {m: c for m, c in a.items() if not any(v in zero_vars for v, _ in m)}


def p_subst_one(a, one_vars):
    out = {}
    for m, c in a.items():
        m2 = tuple((v, e) for v, e in m if v not in one_vars)
        c2 = out.get(m2, 0) + c
        if c2:
            out[m2] = c2
        else:
            out.pop(m2, None)
    return out


class Rat:
    __slots__ = ('n', 'd')

    def __init__(self, n, d=None):
        self.n = n
        self.d = d if d is not None else p_const(1)

    @staticmethod
    def const(c):
        return Rat(p_const(c))

    @staticmethod
    def var(v):
        return Rat(p_var(v))

    def __add__(self, o):
        if self.d == o.d:
            return Rat(p_add(self.n, o.n), self.d)
        return Rat(p_add(p_mul(self.n, o.d), p_mul(o.n, self.d)), p_mul(self.d, o.d))

    def __sub__(self, o):
        return self + o.scale(-1)

    def __mul__(self, o):
        return Rat(p_mul(self.n, o.n), p_mul(self.d, o.d))

    def scale(self, k):
        return Rat(p_scale(self.n, k), self.d)

    def inv(self):
        if not self.n:
            raise Undecided('inverse of zero')
        return Rat(self.d, self.n)

    def same(self, o):
        return p_mul(self.n, o.d) == p_mul(o.n, self.d)

    def is_zero(self):
        return not self.n

    def subst_zero(self, zs):
        d = p_subst_zero(self.d, zs)
        if not d:
            raise Undecided('denominator vanishes on this path')
        return Rat(p_subst_zero(self.n, zs), d)

    def subst_one(self, os_):
        if not os_:
            return self
        return Rat(p_subst_one(self.n, os_), p_subst_one(self.d, os_))


# ---- the tower --------------------------------------------------------------------------------------------------------
LEVELS = {
    # level: (number of coordinates, gamma with g^k = gamma, name of the symbol used for this level's generator one level up)
    'Fp2': (2, Rat.const(-2), 'U'),
    'Fp4': (2, Rat.var('U'), 'V'),
    'Fp12': (3, Rat.var('V'), None),
}
BELOW = {'Fp2': None, 'Fp4': 'Fp2', 'Fp12': 'Fp4'}


def l_mul(level, a, b):
    k, gamma, _ = LEVELS[level]
    prod = [Rat.const(0) for _ in range(2 * k - 1)]
    for i in range(k):
        for j in range(k):
            prod[i + j] = prod[i + j] + a[i] * b[j]
    out = prod[:k]
    for i in range(k, 2 * k - 1):
        out[i - k] = out[i - k] + prod[i] * gamma
    return out


def l_gen(level):
    k = LEVELS[level][0]
    return [Rat.const(1 if i == 1 else 0) for i in range(k)]


def l_one(level):
    k = LEVELS[level][0]
    return [Rat.const(1 if i == 0 else 0) for i in range(k)]


# ---- expressions of the level below -------------------------------------------------------------------------------------
def tokenize(s):
    out, i, n = [], 0, len(s)
    while i < n:
        ch = s[i]
        if ch.isspace():
            i += 1
        elif ch in '(),':
            out.append(ch)
            i += 1
        else:
            j = i
            depth = 0
            while j < n and (s[j] not in '(),' or depth > 0) and not (s[j].isspace() and depth == 0):
                if s[j] == '[':
                    depth += 1
                elif s[j] == ']':
                    depth -= 1
                j += 1
            out.append(s[i:j])
            i = j
    return out


def parse(s):
    toks = tokenize(s)
    pos = [0]

    def expr():
        t = toks[pos[0]]
        pos[0] += 1
        if pos[0] < len(toks) and toks[pos[0]] == '(' and t not in '(),':
            pos[0] += 1
            args = []
            if toks[pos[0]] == ')':
                pos[0] += 1
                return (t, args)
            while True:
                args.append(expr())
                sep = toks[pos[0]]
                pos[0] += 1
                if sep == ')':
                    break
                if sep != ',':
                    raise Undecided('cannot parse %r' % s[:80])
            return (t, args)
        return (t, None)
    try:
        e = expr()
    except IndexError:
        raise Undecided('cannot parse %r' % s[:80])
    if pos[0] != len(toks):
        raise Undecided('cannot parse %r' % s[:80])
    return e


ONES = ('one', 'mont_one', 'SM9_MODP_MONT_ONE', 'SM2_MODP_MONT_ONE')
ZEROS = ('zero', 'SM9_ZERO', 'SM2_ZERO')


INV_ARGS = []


def l_norm(level, a):
    """norm of a = sum a_i g^i down to the level below (g^k = gamma): a is invertible iff the norm is non-zero"""
    k, gamma, _ = LEVELS[level]
    if k == 2:
        return a[0] * a[0] - gamma * a[1] * a[1]
    return a[0] * a[0] * a[0] + gamma * a[1] * a[1] * a[1] + gamma * gamma * a[2] * a[2] * a[2] - (gamma * a[0] * a[1] * a[2]).scale(3)


def p_prop(a, b):
    """a == c * b for a non-zero constant c"""
    if not a or not b or len(a) != len(b):
        return False
    m0 = next(iter(b))
    if m0 not in a:
        return False
    c = a[m0] / b[m0]
    return all(m in a and a[m] == c * cb for m, cb in b.items())


def p_divides(d, p):
    """exact multivariate division: does d divide p?  (lexicographic leading terms; both over the rationals)"""
    if not d:
        return False
    vars_ = sorted({v for m in list(d) + list(p) for v, _ in m})

    def key(m):
        dm = dict(m)
        return tuple(dm.get(v, 0) for v in vars_)
    lt_d = max(d, key=key)
    kd = key(lt_d)
    p = dict(p)
    steps = 0
    while p:
        steps += 1
        if steps > 20000:
            raise Undecided('division too long')
        lt_p = max(p, key=key)
        kp = key(lt_p)
        if any(a < b for a, b in zip(kp, kd)):
            return False
        qm = tuple((v, a - b) for v, a, b in zip(vars_, kp, kd) if a - b)
        qc = p[lt_p] / d[lt_d]
        p = p_add(p, p_mul({qm: qc}, d), -1)
    return True


def domain_ok(level, D, A, nonzero):
    """the inverted expression D vanishes only where the operand A is not invertible or where a quantity the path has tested
    to be non-zero vanishes: zero-set(D) is inside zero-set(Norm(A) * product of tested operands), decided as
    D divides (Norm(A) * product)^k for some k <= 3 (sufficient; necessary too over an algebraically closed field for large k)"""
    if D.d != p_const(1) and len(D.d) != 1:
        return False
    if not D.n:
        return False
    if all(not m for m in D.n):
        return True                    # a non-zero constant
    base = l_norm(level, A)
    for v in sorted(nonzero):
        base = base * Rat.var(v)
    if not base.n:
        return False
    pw = base.n
    for k in (1, 2, 3):
        if p_divides(D.n, pw):
            return True
        pw = p_mul(pw, base.n)
    return False


def evaluate(e, level, cache=None):
    """rational function denoted by an expression over the ring operations of the level below `level`"""
    name, args = e
    if args is None:
        if name.startswith('$'):
            return Rat.var(name)
        if name in ONES:
            return Rat.const(1)
        if name in ZEROS:
            return Rat.const(0)
        raise Undecided('unknown operand %s' % name)
    ln = last(name)
    if ln == 'phi':
        raise Undecided('value depends on the path taken')
    a = [evaluate(x, level) for x in args]
    sym = {'Fp4': 'U', 'Fp12': 'V'}.get(level)
    gen_ops = {'Fp4': ('a_mul_u', 'fp_mul_u', 'sqr_u'), 'Fp12': ('a_mul_v', 'fp_mul_v', 'sqr_v')}.get(level, ())
    if ln in ONES and not a:
        return Rat.const(1)
    if ln in ZEROS and not a:
        return Rat.const(0)
    if ln == 'fp_add' and len(a) == 2:
        return a[0] + a[1]
    if ln == 'fp_sub' and len(a) == 2:
        return a[0] - a[1]
    if ln == 'fp_neg' and len(a) == 1:
        return a[0].scale(-1)
    if ln == 'fp_double' and len(a) == 1:
        return a[0].scale(2)
    if ln == 'fp_triple' and len(a) == 1:
        return a[0].scale(3)
    if ln == 'fp_div2' and len(a) == 1:
        return a[0].scale(Fraction(1, 2))
    if ln in ('fp_mul', 'fp_mul_fp', 'fp_mul_fp2') and len(a) == 2:
        return a[0] * a[1]
    if ln == 'fp_sqr' and len(a) == 1:
        return a[0] * a[0]
    if ln == 'fp_inv' and len(a) == 1:
        INV_ARGS.append(a[0])
        return a[0].inv()
    if ln == 'div' and len(a) == 2:
        INV_ARGS.append(a[1])
        return a[0] * a[1].inv()
    if gen_ops and ln == gen_ops[0] and len(a) == 1:
        return a[0] * Rat.var(sym)
    if gen_ops and ln == gen_ops[1] and len(a) == 2:
        return a[0] * a[1] * Rat.var(sym)
    if gen_ops and ln == gen_ops[2] and len(a) == 1:
        return a[0] * a[0] * Rat.var(sym)
    raise Undecided('operation %s is not a ring operation of the level below %s' % (ln, level))


# ---- the rule -----------------------------------------------------------------------------------------------------------
def coords(level, pname):
    return [Rat.var('$%s.c%d' % (pname, i)) for i in range(LEVELS[level][0])]


def spec(level, ln, params):
    """defining formula of function `ln` of `level`: list of coordinates, or ('inverse-of', a) / ('quotient', a, b)"""
    k = LEVELS[level][0]
    A = coords(level, params[0][0]) if params and params[0][1] == level else None
    B = None
    if len(params) > 1:
        B = coords(level, params[1][0]) if params[1][1] == level else Rat.var('$' + params[1][0])
    if A is None:
        return None
    if ln == 'fp_mul' and isinstance(B, list):
        return l_mul(level, A, B)
    if ln == 'fp_sqr':
        return l_mul(level, A, A)
    if ln == 'fp_add' and isinstance(B, list):
        return [x + y for x, y in zip(A, B)]
    if ln == 'fp_sub' and isinstance(B, list):
        return [x - y for x, y in zip(A, B)]
    if ln == 'fp_neg':
        return [x.scale(-1) for x in A]
    if ln == 'fp_double':
        return [x.scale(2) for x in A]
    if ln == 'fp_triple':
        return [x.scale(3) for x in A]
    if ln == 'fp_div2':
        return [x.scale(Fraction(1, 2)) for x in A]
    if ln == 'conjugate' and k == 2:
        return [A[0], A[1].scale(-1)]
    if ln in ('fp_mul_fp', 'fp_mul_fp2') and isinstance(B, Rat):
        return [x * B for x in A]
    if ln in ('a_mul_u', 'a_mul_v'):
        return l_mul(level, A, l_gen(level))
    if ln in ('fp_mul_u', 'fp_mul_v') and isinstance(B, list):
        return l_mul(level, l_mul(level, A, B), l_gen(level))
    if ln in ('sqr_u', 'sqr_v'):
        return l_mul(level, l_mul(level, A, A), l_gen(level))
    if ln == 'fp_inv':
        return ('inverse-of', A)
    if ln == 'div' and isinstance(B, list):
        return ('quotient', A, B)
    return None


GEN_FN_LEVEL = {'a_mul_u': 'Fp2', 'fp_mul_u': 'Fp2', 'sqr_u': 'Fp2', 'a_mul_v': 'Fp4', 'fp_mul_v': 'Fp4', 'sqr_v': 'Fp4'}
POLY_FNS = ['fp_mul', 'fp_sqr', 'fp_inv', 'fp_add', 'fp_sub', 'fp_neg', 'fp_double', 'fp_triple', 'fp_div2', 'conjugate', 'div',
            'fp_mul_fp', 'fp_mul_fp2', 'a_mul_u', 'fp_mul_u', 'sqr_u', 'a_mul_v', 'fp_mul_v', 'sqr_v']


def a_poly(cx, rule, floor, levels=('Fp2', 'Fp4', 'Fp12')):
    from .rules_a import ExprFlow, callee_level, shape_of_ty
    F = cx.F
    n = 0
    for name, fn in sorted(F.fns.items()):
        if not name.startswith('gm_sm9::fields::fp'):
            continue
        lv = callee_level(name)
        ln = last(name)
        if lv in (None, 'Fp') or lv not in levels or ln not in POLY_FNS:
            continue
        if ln in GEN_FN_LEVEL and GEN_FN_LEVEL[ln] != lv:
            continue
        inst = '%s::%s' % (lv, ln)
        params = []
        for i in range(1, fn.arg_count + 1):
            sh = shape_of_ty(fn.local_ty(i))
            params.append((fn.local_name(i), sh if isinstance(sh, str) else None))
        sp = spec(lv, ln, params)
        if sp is None:
            cx.lost(rule, inst, 'no defining formula for %s with parameters %s' % (inst, params), fn.loc())
            continue
        n += 1
        ef = PolyFlow(F, fn)
        ef.result()
        k = LEVELS[lv][0]
        bad = None
        paths = 0
        dom_bad = []
        try:
            for rv, st in zip(ef.ret_vals, ef.final_states):
                paths += 1
                zs = set(st.get('#zero', ()))
                if isinstance(rv, str):
                    # the result is composed from operations of the SAME level on whole elements (x.double() + x, a * b^-1):
                    # those operations are ring operations of this level (each decided by its own instance of this rule), so the
                    # composition is compared with the defining formula with the operands as indeterminates of the level itself
                    A_ = Rat.var('$' + params[0][0])
                    B_ = Rat.var('$' + params[1][0]) if len(params) > 1 else None
                    want_s = {'fp_triple': lambda: A_.scale(3), 'fp_double': lambda: A_.scale(2), 'fp_sqr': lambda: A_ * A_, 'fp_neg': lambda: A_.scale(-1),
                              'div': lambda: A_ * B_.inv(), 'fp_mul': lambda: A_ * B_, 'fp_add': lambda: A_ + B_, 'fp_sub': lambda: A_ - B_,
                              'fp_div2': lambda: A_.scale(Fraction(1, 2))}.get(ln)
                    if want_s is None:
                        raise Undecided('the returned value is not built coordinate by coordinate (%s)' % rv[:80])
                    got_s = evaluate(parse(rv), None)
                    if not got_s.same(want_s()):
                        bad = 'the composition %s is not the defining formula' % rv[:120]
                        break
                    continue
                if not isinstance(rv, list) or len(rv) != k:
                    raise Undecided('the returned value is not built coordinate by coordinate (%s)' % ef.show(rv)[:80])
                del INV_ARGS[:]
                got = [evaluate(parse(ef.show(x)), lv).subst_zero(zs) for x in rv]
                inv_args = list(INV_ARGS)
                if isinstance(sp, tuple) and sp[0] in ('inverse-of', 'quotient') and not all(x.subst_zero(zs).is_zero() for x in sp[-1]):
                    # domain: the formula is the inverse only where every inverted sub-expression is non-zero
                    a_dom = [x.subst_zero(zs) for x in sp[-1]]
                    nzs = set(st.get('#nonzero', ()))
                    for D in inv_args:
                        Dz = D.subst_zero(zs)
                        if not domain_ok(lv, Dz, a_dom, nzs):
                            dom_bad.append('%s inverts an expression that can vanish for an invertible operand%s (it does not divide a power of the operand\'s norm times the operands tested non-zero on this path%s): the inner inverse of 0 yields 0 and the result is not the inverse'
                                           % (inst, (' on the path where %s = 0' % sorted(zs)) if zs else '', (' %s' % sorted(nzs)) if nzs else ''))
                            break
                if isinstance(sp, tuple) and sp[0] == 'inverse-of':
                    a = [x.subst_zero(zs) for x in sp[1]]
                    if all(x.is_zero() for x in a):
                        continue          # inverse of zero: any value
                    prod = l_mul(lv, got, a)
                    want = l_one(lv)
                    okp = all(p.same(w) for p, w in zip(prod, want))
                    what = 'result * operand = %s, not 1' % show_vec(prod)
                elif isinstance(sp, tuple) and sp[0] == 'quotient':
                    a = [x.subst_zero(zs) for x in sp[1]]
                    b = [x.subst_zero(zs) for x in sp[2]]
                    prod = l_mul(lv, got, b)
                    okp = all(p.same(w) for p, w in zip(prod, a))
                    what = 'result * divisor = %s, not the dividend' % show_vec(prod)
                else:
                    want = [x.subst_zero(zs) for x in sp]
                    okp = all(g.same(w) for g, w in zip(got, want))
                    what = 'coordinates %s differ from the defining formula' % [i for i, (g, w) in enumerate(zip(got, want)) if not g.same(w)]
                if not okp:
                    bad = '%s%s' % (what, (' on the path where %s = 0' % sorted(zs)) if zs else '')
                    break
        except Undecided as e:
            cx.lost(rule, inst, '%s could not be brought into polynomial normal form: %s' % (inst, e), fn.loc())
            continue
        cx.add(rule, inst, bad is None and paths > 0,
               '%s equals its defining formula in %s as a rational function of the operand coordinates on all %d return path(s)%s' % (inst, lv, paths, '' if bad is None else ': ' + bad), fn.loc())
        if isinstance(sp, tuple) and sp[0] in ('inverse-of', 'quotient') and paths > 0:
            cx.add(rule, inst + '/domain', not dom_bad,
                   '%s: on every return path the inverted sub-expressions vanish only where the operand is not invertible or where a tested-non-zero operand vanishes%s' % (inst, '' if not dom_bad else ': ' + dom_bad[0]), fn.loc())
    cx.floor(rule, 'functions', n, floor, 'extension-field functions compared with their defining formula')


def show_vec(v):
    def one(r):
        if len(r.n) > 3 or len(r.d) > 1:
            return '<%d terms>/<%d terms>' % (len(r.n), len(r.d))
        return ' + '.join('%s*%s' % (c, '*'.join('%s^%d' % ve for ve in m) or '1') for m, c in r.n.items()) or '0'
    return '(' + ', '.join(one(r) for r in v) + ')'


def _mk_polyflow():
    from .rules_a import ExprFlow

    class PolyFlow(ExprFlow):
        """ExprFlow that remembers, per path, which operand coordinates an `is_zero()` test has found to be zero"""

        def refine_edge(self, b, s2, st):
            t = self.fn.blocks[b]['term']
            if t['k'] != 'switch' or t['op']['k'] not in ('copy', 'move'):
                return st
            v = self.read(st, t['op']['pl'])
            false_t = [tb for x, tb in t['targets'] if str(x) == '0']
            true_t = [tb for x, tb in t['targets'] if str(x) == '1'] or [t['otherwise']]
            on_true = s2 in true_t and s2 not in false_t
            on_false = s2 in false_t and s2 not in true_t
            if isinstance(v, str) and v.startswith('is_zero($') and v.endswith(')'):
                if on_true:
                    st = dict(st)
                    st['#zero'] = tuple(sorted(set(st.get('#zero', ())) | {v[len('is_zero('):-1]}))
                elif on_false:
                    st = dict(st)
                    st['#nonzero'] = tuple(sorted(set(st.get('#nonzero', ())) | {v[len('is_zero('):-1]}))
                return st
            import re as _re
            m = _re.match(r'^(eq|ne)\((\$[A-Za-z0-9_.]+), (one\(\)|mont_one\(\)|[A-Z0-9_]*MONT_ONE)\)$', v) if isinstance(v, str) else None
            if m is None and isinstance(v, str):
                m = _re.match(r'^(Eq|Ne)\(u256_cmp\((\$[A-Za-z0-9_.]+), (one\(\)|mont_one\(\)|[A-Z0-9_]*MONT_ONE)\), 0\)$', v)
            if m and ((m.group(1) in ('eq', 'Eq') and on_true) or (m.group(1) in ('ne', 'Ne') and on_false)):
                st = dict(st)
                st['#one'] = tuple(sorted(set(st.get('#one', ())) | {m.group(2)}))
            return st
    return PolyFlow


class _Lazy:
    def __call__(self, *a, **k):
        global PolyFlow
        PolyFlow = _mk_polyflow()
        return PolyFlow(*a, **k)


PolyFlow = _Lazy()


# ---- curve formulas -----------------------------------------------------------------------------------------------------
CURVE_FNS = [
    # (function, kind, curve coefficient a, level whose ring operations the body uses)
    ('gm_sm2::p256_ecc::<impl p256_ecc::Point>::point_dbl', 'dbl', -3, None),
    ('gm_sm2::p256_ecc::<impl p256_ecc::Point>::point_add', 'add', -3, None),
    ('gm_sm2::p256_ecc::<impl p256_ecc::Point>::to_affine_point', 'affine', -3, None),
    ('gm_sm9::points::<impl points::Point>::point_double', 'dbl', 0, None),
    ('gm_sm9::points::<impl points::Point>::point_add', 'add', 0, None),
    ('gm_sm9::points::<impl points::Point>::point_neg', 'neg', 0, None),
    ('gm_sm9::points::<impl points::Point>::to_affine_point', 'affine', 0, None),
    ('gm_sm9::points::<impl points::TwistPoint>::point_double', 'dbl', 0, 'Fp4'),
    ('gm_sm9::points::<impl points::TwistPoint>::point_add', 'add', 0, 'Fp4'),
    ('gm_sm9::points::<impl points::TwistPoint>::point_neg', 'neg', 0, 'Fp4'),
    ('gm_sm9::points::twist_point_add_full', 'add', 0, 'Fp4'),
]


def a_poly_curve(cx, rule, crate, floor):
    """generic (non-exceptional) return paths of the Jacobian formulas equal the chord-and-tangent law: with x = X/Z^2,
    y = Y/Z^3, doubling gives lambda = (3x^2+a)/(2y), addition lambda = (y2-y1)/(x2-x1), x3 = lambda^2 - x1 - x2,
    y3 = lambda (x1 - x3) - y1, as identities of rational functions of the input coordinates (the result may be any
    representative: X3 = x3 Z3^2, Y3 = y3 Z3^3, Z3 != 0).  Paths that return an operand, the identity or delegate to
    another point function are the exceptional cases and belong to S-JADD."""
    F = cx.F
    n = 0
    for q, kind, a_coef, lvl in CURVE_FNS:
        if not q.startswith(crate):
            continue
        fn = cx.fn(q, rule)
        if fn is None:
            continue
        inst = fn.short
        names = [fn.local_name(i) for i in range(1, fn.arg_count + 1)]
        ef = PolyFlow(F, fn)
        ef.result()
        generic = 0
        bad = None
        try:
            for rv, st in zip(ef.ret_vals, ef.final_states):
                if not (isinstance(rv, list) and len(rv) == 3):
                    continue
                zs = set(st.get('#zero', ()))
                ones = set(st.get('#one', ()))
                X3, Y3, Z3 = [evaluate(parse(ef.show(c)), lvl).subst_zero(zs).subst_one(ones) for c in rv]
                P1 = [Rat.var('$%s.%s' % (names[0], c)).subst_one(ones) for c in 'xyz']
                x1 = P1[0] * (P1[2] * P1[2]).inv()
                y1 = P1[1] * (P1[2] * P1[2] * P1[2]).inv()
                if kind == 'affine':
                    okp = X3.same(x1) and Y3.same(y1) and Z3.same(Rat.const(1))
                    what = 'the result is not (X/Z^2, Y/Z^3, 1)'
                elif kind == 'neg':
                    okp = X3.same(P1[0]) and Y3.same(P1[1].scale(-1)) and Z3.same(P1[2])
                    what = 'the result is not (X, -Y, Z)'
                else:
                    if kind == 'dbl':
                        lam = (x1 * x1).scale(3) + Rat.const(a_coef)
                        lam = lam * (y1.scale(2)).inv()
                        x2 = x1
                    else:
                        P2 = [Rat.var('$%s.%s' % (names[1], c)).subst_one(ones) for c in 'xyz']
                        x2 = P2[0] * (P2[2] * P2[2]).inv()
                        y2 = P2[1] * (P2[2] * P2[2] * P2[2]).inv()
                        lam = (y2 - y1) * (x2 - x1).inv()
                    x3 = lam * lam - x1 - x2
                    y3 = lam * (x1 - x3) - y1
                    if Z3.is_zero():
                        okp, what = False, 'Z3 is identically zero'
                    else:
                        okx = X3.same(x3 * Z3 * Z3)
                        oky = Y3.same(y3 * Z3 * Z3 * Z3)
                        okp = okx and oky
                        what = 'the %s coordinate of the result is not the chord-and-tangent value' % ('x' if not okx else 'y')
                generic += 1
                if not okp:
                    bad = what + ((' (path with %s = 1)' % sorted(ones)) if ones else '')
                    break
        except Undecided as e:
            cx.lost(rule, inst, '%s could not be brought into polynomial normal form: %s' % (inst, e), fn.loc())
            continue
        n += 1
        cx.add(rule, inst, bad is None and generic > 0,
               '%s: %d generic return path(s) equal the %s as rational functions of the operand coordinates%s' % (inst, generic, {'dbl': 'tangent law (a = %d)' % a_coef, 'add': 'chord law', 'neg': 'negation', 'affine': 'affine map'}[kind], '' if bad is None else ': ' + bad), fn.loc())
    cx.floor(rule, 'curve-functions/' + crate, n, floor, 'Jacobian formula functions compared with the group law')


# ---- path summaries of loop-free functions --------------------------------------------------------------------------------
def path_summary(F, fn):
    """{(branch decisions on the path) => returned expression} of a loop-free function, from the field-sensitive dataflow:
    insensitive to temporaries, to the order of independent statements, to `let mut r; r = x; r` versus `x`, and to early
    returns versus if/else.  None for functions with loops or values the dataflow does not compose."""
    from .rules_a import ExprFlow

    class PathFlow(ExprFlow):
        fold_consts = True

        def refine_edge(self, b, s2, st):
            t = self.fn.blocks[b]['term']
            if t['k'] != 'switch' or t['op']['k'] not in ('copy', 'move'):
                return st
            v = self.show(self.read(st, t['op']['pl']))
            vals = [str(x) for x, tb in t['targets'] if tb == s2]
            if v.isdigit():
                # a decision on a constant (the counter of a constant-trip loop): only the matching edge is taken, and the
                # decision is not part of the summary
                hit = [tb for x, tb in t['targets'] if str(x) == v]
                taken = hit[0] if hit else t['otherwise']
                return st if s2 == taken else None
            if s2 == t['otherwise'] and not vals:
                lab = 'else(%s)' % ','.join(sorted(str(x) for x, _ in t['targets']))
            else:
                lab = ','.join(sorted(vals))
            if t['ty'] == 'bool':
                lab = {'0': 'false', '1': 'true', 'else(0)': 'true', 'else(1)': 'false'}.get(lab, lab)
            st = dict(st)
            st['#path'] = tuple(st.get('#path', ())) + ((v, lab),)
            return st
    import time as _time
    if fn.natural_loops():
        # only counted while-loops are unrolled by constant propagation; iterator protocols are not modelled
        if any(t['fn'].get('k') == 'def' and last(t['fn']['name']) in ('next', 'into_iter', 'iter', 'iter_mut') for _, t in fn.calls()):
            return None
    ef = PathFlow(F, fn)
    ef.joined = False
    ef.deadline = _time.time() + 1.0
    ef.abort_on_join = True
    ef.max_len = 0
    try:
        ef.result()
    except (TimeoutError, RecursionError, MemoryError):
        return None
    if ef.joined or not ef.ret_vals:
        return None           # a loop whose trip count is not a constant, or too many paths
    out = set()
    for rv, st in zip(ef.ret_vals, ef.final_states):
        conds = tuple(sorted(set(st.get('#path', ()))))
        s = ef.show(rv)
        if '?' in s:
            return None
        out.add('%s => %s' % (' & '.join('%s=%s' % c for c in conds) or 'always', s))
    return sorted(out)


# ---- I-CMP: the limb comparison over the finite domain of limb orderings ----------------------------------------------------
def limb_compare(cx, rule, qual):
    """u256_cmp touches its operands only through comparisons of corresponding limbs, so its behaviour is a function of the
    81 possible orderings (a[i] <, =, > b[i] for i = 0..3).  The path summary (constant-trip loops unrolled by constant
    propagation) is evaluated for each of them: exactly one return path must be consistent with the ordering and its value
    must be the lexicographic comparison from the most significant limb down (1, 0, -1)."""
    import itertools, re
    fn = cx.fn(qual, rule)
    if fn is None:
        return
    summ = path_summary(cx.F, fn)
    inst = fn.short
    if summ is None:
        cx.lost(rule, inst, 'no path summary for %s (a loop whose trip count is not constant, or a value the dataflow does not compose)' % inst, fn.loc())
        return
    names = [fn.local_name(i) for i in range(1, fn.arg_count + 1)]
    if len(names) != 2:
        cx.lost(rule, inst, 'expected two operands', fn.loc())
        return
    a, b = names
    paths = []
    for line in summ:
        cond_s, val = line.rsplit(' => ', 1)
        conds = []
        ok = True
        if cond_s != 'always':
            for c in cond_s.split(' & '):
                m = re.match(r'^(Gt|Lt|Ge|Le|Eq|Ne)\(\$(\w+)\.(\d), \$(\w+)\.(\d)\)=(true|false)$', c)
                if not m or m.group(3) != m.group(5) or {m.group(2), m.group(4)} != {a, b}:
                    ok = False
                    break
                op, i, truth = m.group(1), int(m.group(3)), m.group(6) == 'true'
                if m.group(2) == b:        # b.i OP a.i  ==  a.i SWAP(OP) b.i
                    op = {'Gt': 'Lt', 'Lt': 'Gt', 'Ge': 'Le', 'Le': 'Ge', 'Eq': 'Eq', 'Ne': 'Ne'}[op]
                conds.append((op, i, truth))
        if not ok:
            cx.lost(rule, inst, 'a decision of %s is not a comparison of corresponding limbs: %s' % (inst, cond_s[:120]), fn.loc())
            return
        try:
            v = int(val)
        except ValueError:
            cx.lost(rule, inst, 'a returned value of %s is not a constant: %s' % (inst, val[:80]), fn.loc())
            return
        if v >= 1 << 31:
            v -= 1 << 32
        paths.append((conds, v))
    TEST = {'Gt': lambda s: s > 0, 'Lt': lambda s: s < 0, 'Ge': lambda s: s >= 0, 'Le': lambda s: s <= 0, 'Eq': lambda s: s == 0, 'Ne': lambda s: s != 0}
    bad = None
    for signs in itertools.product((-1, 0, 1), repeat=4):          # signs[i] = sign(a[i] - b[i])
        want = 0
        for i in (3, 2, 1, 0):
            if signs[i]:
                want = signs[i]
                break
        hits = [v for conds, v in paths if all(TEST[op](signs[i]) == truth for op, i, truth in conds)]
        if len(hits) != 1 or hits[0] != want:
            bad = 'for limb orderings (a[i] ? b[i], i = 0..3) = %s the function returns %s, the comparison of the 256-bit values is %d' % (signs, hits, want)
            break
    cx.add(rule, inst, bad is None, '%s is the lexicographic comparison from limb 3 down on all 81 limb orderings (%d return paths)%s' % (inst, len(paths), '' if bad is None else ': ' + bad), fn.loc())
