"""Run-time plumbing shared by all property checks: fact extraction with a
content-hash cache, obligation bookkeeping, known findings, evidence files."""
import fcntl, hashlib, json, os, re, shutil, subprocess, sys, time

VERIF = os.path.dirname(os.path.dirname(os.path.abspath(__file__)))
REPO = os.environ.get('GMV_REPO', '/repo')
WORK = os.path.join(VERIF, '.work')
DRIVER = os.path.join(VERIF, 'driver', 'target', 'release', 'gmv-driver')
CRATES = ['gm_sm2', 'gm_sm3', 'gm_sm4', 'gm_sm9', 'gm_zuc']
# function-count floors per crate, counted on the pinned tree (fail closed if a crate loses its bodies)
FN_FLOORS = {'gm_sm2': 90, 'gm_sm3': 8, 'gm_sm4': 20, 'gm_sm9': 150, 'gm_zuc': 15}


def sh(cmd, **kw):
    return subprocess.run(cmd, shell=True, stdout=subprocess.PIPE, stderr=subprocess.STDOUT, text=True, **kw)


def tree_hash(repo):
    """hash of every source-relevant file of the working tree (not git state: edits count)"""
    hsh = hashlib.sha256()
    files = []
    for root, dirs, fs in os.walk(repo):
        dirs[:] = sorted(d for d in dirs if d not in ('target', '.git'))
        for f in sorted(fs):
            if f.endswith(('.rs', '.toml', '.lock', '.md', '.pem', '.der', '.json')):
                files.append(os.path.join(root, f))
    for p in files:
        hsh.update(os.path.relpath(p, repo).encode())
        hsh.update(b'\0')
        with open(p, 'rb') as fh:
            hsh.update(fh.read())
        hsh.update(b'\0')
    if os.path.exists(DRIVER):
        st = os.stat(DRIVER)
        hsh.update(('%d:%d' % (st.st_size, int(st.st_mtime))).encode())
    return hsh.hexdigest()[:20]


def nightly_sysroot():
    r = sh('rustc +nightly --print sysroot')
    return r.stdout.strip()


def build_driver():
    if os.path.exists(DRIVER):
        return
    r = sh('cargo +nightly build --release --offline', cwd=os.path.join(VERIF, 'driver'),
           env=dict(os.environ, CARGO_NET_OFFLINE='true'))
    if r.returncode != 0 or not os.path.exists(DRIVER):
        sys.stdout.write(r.stdout)
        raise SystemExit('ERROR: cannot build driver')


def extract(repo, out_dir, target_dir):
    """run the MIR fact extractor over the workspace at `repo`"""
    build_driver()
    os.makedirs(out_dir, exist_ok=True)
    os.makedirs(target_dir, exist_ok=True)
    # cargo's freshness cache would skip the wrapper: drop the members' fingerprints
    fp = os.path.join(target_dir, 'debug', '.fingerprint')
    if os.path.isdir(fp):
        for d in os.listdir(fp):
            if d.startswith('gm-'):
                shutil.rmtree(os.path.join(fp, d), ignore_errors=True)
    env = dict(os.environ)
    env.update({
        'LD_LIBRARY_PATH': nightly_sysroot() + '/lib',
        'RUSTFLAGS': '-Zmir-opt-level=0 -Awarnings',
        'RUSTC_WORKSPACE_WRAPPER': DRIVER,
        'GMV_FACTS_DIR': out_dir,
        'CARGO_TARGET_DIR': target_dir,
        'CARGO_NET_OFFLINE': 'true',
    })
    env.pop('RUSTC_WRAPPER', None)
    r = sh('cargo +nightly check --offline --workspace --lib', cwd=repo, env=env)
    missing = [c for c in CRATES if not os.path.exists(os.path.join(out_dir, c + '.json'))]
    if r.returncode != 0 or missing:
        sys.stdout.write(r.stdout[-6000:])
        raise SystemExit('ERROR: fact extraction failed (rc=%d, missing=%s): the tree does not build' % (r.returncode, missing))


def ensure_facts(repo=REPO):
    """facts for the CURRENT working tree of repo; cached by content hash"""
    os.makedirs(WORK, exist_ok=True)
    lock = open(os.path.join(WORK, 'lock'), 'w')
    fcntl.flock(lock, fcntl.LOCK_EX)
    try:
        hsh = tree_hash(repo)
        d = os.path.join(WORK, 'facts', hsh)
        ok = os.path.exists(os.path.join(d, 'COMPLETE'))
        if not ok:
            if os.path.isdir(d):
                shutil.rmtree(d)
            t = time.time()
            extract(repo, d, os.path.join(WORK, 'target'))
            open(os.path.join(d, 'COMPLETE'), 'w').write('%.1f\n' % (time.time() - t))
            # keep the cache small: drop all but the 6 most recent fact sets
            base = os.path.join(WORK, 'facts')
            ds = sorted((os.path.getmtime(os.path.join(base, x)), x) for x in os.listdir(base))
            for _, x in ds[:-6]:
                shutil.rmtree(os.path.join(base, x), ignore_errors=True)
        return d, hsh
    finally:
        fcntl.flock(lock, fcntl.LOCK_UN)
        lock.close()


# ---------------------------------------------------------------- obligations
HOLDS, VIOLATED, LOST = 'HOLDS', 'VIOLATED', 'ANCHOR-LOST'


class Ob:
    def __init__(self, rule, inst, status, what, where='', detail=None):
        self.rule = rule
        self.inst = inst
        self.status = status
        self.what = what
        self.where = where
        self.detail = detail or {}

    @property
    def key(self):
        return '%s/%s' % (self.rule, self.inst)

    def to_json(self):
        return {'rule': self.rule, 'instance': self.inst, 'status': self.status, 'what': self.what,
                'where': self.where, 'detail': self.detail}


class Cx:
    """context of one property check run"""

    def __init__(self, prop, F, tier='quick'):
        self.prop = prop
        self.F = F
        self.tier = tier
        self.obs = []
        self.notes = []
        self.stats = {}
        self.not_decided = []

    def add(self, rule, inst, ok, what, where='', detail=None):
        st = HOLDS if ok else VIOLATED
        self.obs.append(Ob(rule, inst, st, what, where, detail))
        return ok

    def hold(self, rule, inst, what, where='', detail=None):
        self.obs.append(Ob(rule, inst, HOLDS, what, where, detail))

    def violate(self, rule, inst, what, where='', detail=None):
        self.obs.append(Ob(rule, inst, VIOLATED, what, where, detail))

    def lost(self, rule, inst, what, where='', detail=None):
        self.obs.append(Ob(rule, inst, LOST, 'anchor lost: ' + what, where, detail))

    def floor(self, rule, inst, count, floor, what):
        """fail closed when a rule matches fewer sites than were confirmed by hand"""
        if count < floor:
            self.obs.append(Ob(rule, inst, LOST, 'instance count %d below floor %d: %s' % (count, floor, what)))
            return False
        self.obs.append(Ob(rule, inst + '#floor', HOLDS, '%s: %d instance(s) >= floor %d' % (what, count, floor)))
        return True

    def fn(self, suffix, rule='ANCHOR'):
        """resolve an anchored function by qualified-name suffix; reports ANCHOR-LOST when absent/ambiguous"""
        fs = self.F.find_fns(suffix)
        if len(fs) == 1:
            return fs[0]
        self.lost(rule, suffix, 'function %s: %d candidates' % (suffix, len(fs)))
        return None

    def stat(self, k, v):
        self.stats[k] = v


def load_known():
    p = os.path.join(VERIF, 'known_findings.json')
    if not os.path.exists(p):
        return []
    return json.load(open(p))['findings']


def sanitize(s):
    return re.sub(r'[^A-Za-z0-9_.-]+', '_', s)[:150]


def finish(cx, t0, explain=None):
    """print verdict lines, write evidence, return exit code"""
    prop = cx.prop
    known = [k for k in load_known() if k['property'] == prop]
    open_keys = {k['key']: k for k in known if k.get('status') == 'open'}
    ev_dir = os.path.join(VERIF, 'evidence')
    rp_dir = os.path.join(ev_dir, 'replay')
    os.makedirs(rp_dir, exist_ok=True)
    nviol = 0
    known_hit = []
    lines = []
    if os.environ.get('GMV_LIST'):
        for ob in cx.obs:
            if ob.rule.startswith(os.environ['GMV_LIST']) or os.environ['GMV_LIST'] == 'all':
                print('  [%s] %s: %s  @%s' % (ob.status, ob.key, ob.what, ob.where))
    for ob in cx.obs:
        if ob.status == HOLDS:
            continue
        if ob.status == VIOLATED and ob.key in open_keys:
            known_hit.append(ob)
            lines.append('KNOWN-FINDING: property=%s %s %s' % (prop, ob.key, open_keys[ob.key].get('what', ob.what)))
            continue
        nviol += 1
        path = os.path.join(rp_dir, '%s-%s.json' % (prop, sanitize(ob.key)))
        if not os.environ.get('GMV_NO_EVIDENCE'):
            json.dump({'property': prop, 'key': ob.key, **ob.to_json()}, open(path, 'w'), indent=1)
        print('%s %s [%s] %s' % (ob.status, ob.key, ob.where, ob.what))
        lines.append('VIOLATION property=%s replay=%s' % (prop, path))
    for l in lines:
        print(l)
    total = len(cx.obs)
    held = sum(1 for o in cx.obs if o.status == HOLDS)
    rules = sorted({o.rule for o in cx.obs})
    distinct = len({(o.rule, o.inst) for o in cx.obs if o.status == HOLDS and not o.inst.endswith('#floor')})
    samples = [o.to_json() for o in cx.obs if o.status != HOLDS][:20]
    # a spread of held obligations, one per rule first
    seen = set()
    for o in cx.obs:
        if o.status == HOLDS and o.rule not in seen and len(samples) < 60:
            seen.add(o.rule)
            samples.append(o.to_json())
    wall = time.time() - t0
    ev = {
        'property_id': prop,
        'tier': cx.tier,
        'seed': int(os.environ.get('VERIF_SEED', '0') or 0),
        'level': 'other',
        'coverage': {
            'explanation': ('Static analysis of the type-checked program (rustc MIR, mir-opt-level 0, real build flags) '
                            'and of the evaluated constant initialisers of /repo\'s current working tree; no gm-rs code is executed. '
                            'Rules applied: %s. %d obligations evaluated, %d held, %d violated/lost (%d matched open known findings). '
                            'Clauses NOT decided: %s' % (', '.join(rules), total, held, total - held, len(known_hit),
                                                        '; '.join(cx.not_decided) or 'none listed')),
            'obligations': total,
            'discharged': held,
            'evaluations': total,
            'distinct_nontrivial': distinct,
            'rule': 'one obligation = one (rule, anchored instance) pair evaluated on the MIR/constant facts; non-trivial = matched at least one concrete site and held',
            'samples': samples,
            'checker_cmd': './check %s --tier %s' % (prop, cx.tier),
            'trusted_base': ['rustc nightly MIR construction and callee resolution (Instance::try_resolve)',
                             'CPython big integers', 'spec/params.json (self-validated against published test vectors)',
                             'reviewed tables in gmv/ (one line of reason each)'],
            'rules': rules,
            'not_decided': cx.not_decided,
            'known_findings_matched': [o.key for o in known_hit],
            'stats': cx.stats,
            'exhaustive': False,
        },
        'assumptions': ['MIR reflects the compiled program', 'cargo check of lib targets with default features covers what cargo build builds'],
        'wall_s': round(wall, 2),
        'violations': nviol,
    }
    if not os.environ.get('GMV_NO_EVIDENCE'):
        json.dump(ev, open(os.path.join(ev_dir, prop + '.json'), 'w'), indent=1)
    print('%s: %d obligations, %d held, %d known findings, %d violations (%.1fs)' % (prop, total, held, len(known_hit), nviol, wall))
    return 1 if nviol else 0
