"""I-SCALAR / I-CHAIN: structure of the scalar multiplications (shared by C11 and C13)."""
import re
from ..prov import Prov, norm, last
from ..builder import Canon
from .. import rules_i as I, rules_g as G, frame as FR


def after_table(s, n):
    """an array table read at a computed index in the main loop must see the completed table: the version made of the
    creation and all n entry stores; that exact version is dropped from the text (a Vec table carries none)"""
    full = '#{' + '|'.join(sorted(['E'] + ['[%d]' % k for k in range(n)])) + '}'
    return s.replace(']' + full, ']')


def tnorm(s, names=('pre_table',)):
    """one notation T[i] for an element of the window table whether it is kept in a Vec (`index(new(), i)`) or in an
    array (`pre_table[i]`, `var:pre_table=repeat{zero()}[i]`)"""
    out = s
    for nm in names:
        out = re.sub(r'var:%s=repeat\{[^{}]*(?:\{[^{}]*\})?[^{}]*\}\[' % re.escape(nm), 'T[', out)
        out = re.sub(r'(?<![\w:$.])(?:var:)?%s\[' % re.escape(nm), 'T[', out)
    # index(new(), X) / index_mut(new(), X) -> T[X] (balanced)
    for head in ('index_mut(new(), ', 'index(new(), '):
        while head in out:
            i = out.index(head)
            j = i + len(head)
            depth = 1
            while j < len(out) and depth:
                if out[j] in '([{':
                    depth += 1
                elif out[j] in ')]}':
                    depth -= 1
                j += 1
            out = out[:i] + 'T[' + out[i + len(head):j - 1] + ']' + out[j:]
    return out


def table_names(fn):
    """names of array-typed locals of points that receive element stores (the window table kept in an array)"""
    out = set()
    for b, i, s in fn.stmts():
        if s['k'] == 'assign' and len(s['lhs']['p']) == 1 and isinstance(s['lhs']['p'][0], dict) and ('idx' in s['lhs']['p'][0] or 'cidx' in s['lhs']['p'][0]):
            l = s['lhs']['l']
            ty = fn.local_ty(l) or ''
            if ty.startswith('[') and 'Point' in ty and fn.locals[l].get('name'):
                out.add(fn.locals[l]['name'])
    return tuple(sorted(out)) or ('pre_table',)


def addition_chain(cx, rule, fn, table_local_create='new()', want=16, dbl=('point_dbl', 'point_double'), add=('point_add',)):
    """pre_table[k] = (k+1) * P : every entry is built from earlier entries by doublings/additions whose
    multiplicities add up to k+1 (abstract interpretation of the table construction in the integers)"""
    F = cx.F
    P = Prov(fn, F, cut_loops=True); cn = Canon(fn, P)
    mult = {}
    order = []
    ok = True
    why = ''
    dom = fn.dominators()
    stores = []
    tn = table_names(fn)
    for b, i, s in fn.stmts():
        if s['k'] == 'assign' and s['lhs']['p'] and s['lhs']['p'][0] == 'deref' and len(s['lhs']['p']) == 1:
            tgt = cn.c(norm(P.local(s['lhs']['l'], b, i)))
            m = re.match(r'^index_mut\(new\(\), (\d+)\)$', tgt)
            if m:
                stores.append((len(dom.get(b, ())), b, i, int(m.group(1)), tnorm(I.shorten_vars(cn.c(norm(P.rvalue(s['rv'], b, i, 0)))), tn)))
        elif s['k'] == 'assign' and len(s['lhs']['p']) == 1 and isinstance(s['lhs']['p'][0], dict) and fn.locals[s['lhs']['l']].get('name') in tn:
            pr = s['lhs']['p'][0]
            k = pr.get('cidx')
            if k is None and 'idx' in pr:
                from ..prov import const_int as _ci
                k = _ci(norm(P.local(pr['idx'], b, i)))
            if k is not None:
                stores.append((len(dom.get(b, ())), b, i, int(k), tnorm(I.shorten_vars(cn.c(norm(P.rvalue(s['rv'], b, i, 0)))), tn)))
    stores.sort()
    def val(x):
        x = x.strip()
        if x == '$self':
            return 1
        # an array table: the read must see exactly the (single) store of that entry -- `T[k]#{[k]}`; a version that
        # includes E (the entry as created) means the entry may not have been written yet
        m = re.match(r'^T\[(\d+)\](?:#\{\[(\d+)\]\})?$', x)
        if m and (m.group(2) is None or m.group(2) == m.group(1)):
            return mult.get(int(m.group(1)))
        return None
    for _, b, i, k, v in stores:
        m = re.match(r'^(?:G[12]\.)?(\w+)\((.*)\)$', v)
        r = None
        if v == '$self':
            r = 1
        elif m and m.group(1) in dbl:
            a = val(m.group(2))
            r = 2 * a if a else None
        elif m and m.group(1) in add:
            parts = split_args(m.group(2))
            if len(parts) == 2:
                a, c = val(parts[0]), val(parts[1])
                r = a + c if a and c else None
        if r is None:
            ok = False
            why = 'entry %d is built from an entry that is not yet defined or by an unknown operation: %s' % (k, v)
            break
        mult[k] = r
    bad = [k for k, v in mult.items() if v != k + 1]
    missing = [k for k in range(want) if k not in mult]
    cx.add(rule, fn.short, ok and not bad and not missing, 'window table entry k holds (k+1)*P for k < %d (multiplicities %s)%s' % (want, mult if bad or missing else 'all match', (' — ' + why) if why else ''), fn.loc(), {'multiplicities': mult})


def split_args(s):
    out, depth, cur = [], 0, ''
    for ch in s:
        if ch in '([{':
            depth += 1
        elif ch in ')]}':
            depth -= 1
        if ch == ',' and depth == 0:
            out.append(cur.strip()); cur = ''
        else:
            cur += ch
    if cur.strip():
        out.append(cur.strip())
    return out


def loop_conds(fn, F, rng, call=None):
    P = Prov(fn, F, cut_loops=True); cn = Canon(fn, P)
    fl = I.find_loop(fn, P, cn, rng, call)
    if fl is None:
        return None
    hdr, loop, latches = fl
    out = []
    for b in sorted(loop):
        t = fn.blocks[b]['term']
        if t['k'] == 'switch':
            out.append(I.shorten_vars(cn.c(norm(P.operand(t['op'], b, len(fn.blocks[b]['stmts']))))))
    return out


def alts(s):
    """alternatives of a top-level phi(..|..) canonical string"""
    if not s.startswith('phi(') or not s.endswith(')'):
        return [s]
    body = s[4:-1]
    out, depth, cur = [], 0, ''
    i = 0
    while i < len(body):
        ch = body[i]
        if ch in '([{':
            depth += 1
        elif ch in ')]}':
            depth -= 1
        if depth == 0 and body[i:i + 3] == ' | ':
            out.append(cur); cur = ''; i += 3
            continue
        cur += ch
        i += 1
    out.append(cur)
    return sorted(out)


def sm2_scalar(cx):
    F = cx.F
    fn = cx.fn('gm_sm2::p256_ecc::<impl p256_ecc::Point>::scalar_mul', 'I-SCALAR')
    if fn is None:
        return
    addition_chain(cx, 'I-CHAIN', fn, want=15)
    I_ = 'each(Range::Range{0, len($scalar)})'
    J_ = 'each(Range::Range{0, 16})'
    IDX = 'Shr($scalar[SubWithOverflow(3, %s).0], MulWithOverflow(SubWithOverflow(15, %s).0, 4).0)' % (I_, J_)
    tr = I.transfer(fn, F, 'Range::Range{0, 16}', ['r', 'index'], containing_call='point_add')
    want_r = 'point_dbl(point_dbl(point_dbl(point_dbl(phi(point_add(T[(BitAnd(SubWithOverflow(%s, 1).0, 15) as usize)], var:r@in) | var:r@in)))))' % IDX
    cx.add('I-SCALAR', 'sm2/scalar_mul/step', tr is not None and after_table(tnorm(tr.get('r') or '', table_names(fn)), 15) == want_r and tr.get('index') == IDX,
           'per 4-bit window (most significant first): r = 16 * (r + T[(w-1) & 15] if w != 0 else r), w = (scalar[3-i] >> 4(15-j)) & 15', fn.loc(), {'got': tr})
    conds = loop_conds(fn, F, 'Range::Range{0, 16}', 'point_add') or []
    want = ['Ne(BitAnd(%s, 15), 0)' % IDX, 'Eq(AddWithOverflow(%s, 1).0, len($scalar))' % I_, 'Eq(AddWithOverflow(%s, 1).0, 16)' % J_]
    cx.add('I-SCALAR', 'sm2/scalar_mul/conds', sorted(c for c in conds if not c.startswith('discr(')) == sorted(want),
           'the table entry is added iff the window is non-zero; the four doublings are skipped only after the last window: %s' % conds, fn.loc())
    g = cx.fn('gm_sm2::p256_ecc::g_mul', 'I-SCALAR')
    if g is not None:
        LI = 'each(Range::Range{0, 4})'        # limb index and limb of `for (i, w) in g.iter().enumerate()`, in index form
        M = 'each(Range::Range{0, 8})'
        RAW = '((Shr($g[%s], MulWithOverflow(8, %s).0) as u8) as usize)' % (LI, M)
        ROW = 'AddWithOverflow(MulWithOverflow(8, %s).0, %s).0' % (LI, M)
        tr = I.transfer(g, F, 'Range::Range{0, 8}', ['r', 'raw_index'])
        want_r = 'phi(point_add(var:r@in, to_jacobi(SM2P256_PRECOMPUTED[%s][SubWithOverflow(MulWithOverflow(%s, 2).0, 2).0], SM2P256_PRECOMPUTED[%s][SubWithOverflow(MulWithOverflow(%s, 2).0, 1).0])) | var:r@in)' % (ROW, RAW, ROW, RAW)
        cx.add('I-SCALAR', 'sm2/g_mul/step', tr is not None and tr.get('r') == want_r and tr.get('raw_index') == RAW,
               'fixed-base comb: for byte m of limb i add table[8i+m][2b-2 .. 2b-1] (x, y of b*256^(8i+m)*G) when the byte b is non-zero', g.loc(), {'got': tr})
        conds = loop_conds(g, F, 'Range::Range{0, 8}') or []
        cx.add('I-SCALAR', 'sm2/g_mul/conds', [c for c in conds if not c.startswith('discr(')] == ['Ne(%s, 0)' % RAW], 'a table point is added iff the scalar byte is non-zero: %s' % conds, g.loc())
        tj = cx.fn('gm_sm2::p256_ecc::to_jacobi', 'I-SCALAR')
        if tj is not None:
            P = Prov(tj, F); cn = Canon(tj, P)
            cps = sorted((FR.arg_canon(tj, P, cn, b, 0), FR.arg_canon(tj, P, cn, b, 1)) for b in FR.calls_of(tj, 'copy_from_slice'))
            cx.add('I-SCALAR', 'sm2/to_jacobi', cps == sorted([('zero().x', '$x'), ('zero().y', '$y'), ('zero().z', 'SM2_MODP_MONT_ONE')]) or
                   [c[1] for c in cps] == sorted(['$x', '$y', 'SM2_MODP_MONT_ONE']) or
                   (not cps and [v for _, v in I.returns(tj, F, True)] == ['Point::Point{$x, $y, SM2_MODP_MONT_ONE}']), 'table coordinates become the Jacobian point (x, y, 1): %s' % cps, tj.loc())


def sm9_scalar(cx):
    F = cx.F
    fn = cx.fn('gm_sm9::points::<impl points::Point>::point_mul', 'I-SCALAR')
    if fn is not None:
        addition_chain(cx, 'I-CHAIN', fn, want=16)
        B = 'sm9_u256_get_booth($k, 5, each(rev(Range::Range{0, 52})))'
        T = lambda b: 'T[(SubWithOverflow(%s, 1).0 as usize)]' % b
        tr = I.transfer(fn, F, 'rev(Range::Range{0, 52})', ['r', 'r_infinity', 'booth'])
        if tr is not None and tr.get('r'):
            tr['r'] = after_table(tnorm(tr['r'], table_names(fn)), 16)
        want = sorted(['G1.point_add(point_double_x5(var:r@in), %s)' % T(B), 'G1.point_sub(point_double_x5(var:r@in), %s)' % T('Neg(%s)' % B), T(B), 'point_double_x5(var:r@in)', 'var:r@in'])
        cx.add('I-SCALAR', 'sm9/point_mul/step', tr is not None and alts(tr['r']) == want and tr['booth'] == B and alts(tr['r_infinity']) == ['0', 'var:r_infinity@in'],
               '5-bit signed windows from the top: first non-zero digit loads T[d-1]; afterwards r = 32r (+ T[d-1] | - T[-d-1])', fn.loc(), {'got': tr})
        conds = loop_conds(fn, F, 'rev(Range::Range{0, 52})') or []
        cx.add('I-SCALAR', 'sm9/point_mul/conds', sorted(c for c in conds if not c.startswith('discr(')) == sorted(['r_infinity@in', 'Ne(%s, 0)' % B, 'Gt(%s, 0)' % B, 'Lt(%s, 0)' % B]),
               'branches: still-at-infinity, digit != 0, digit > 0, digit < 0: %s' % conds, fn.loc())
        x5 = cx.fn('gm_sm9::points::<impl points::Point>::point_double_x5', 'I-SCALAR')
        if x5 is not None:
            r = [v for _, v in I.returns(x5, F, True)]
            cx.add('I-SCALAR', 'sm9/point_double_x5', r == ['G1.point_double(G1.point_double(G1.point_double(G1.point_double(G1.point_double($self)))))'], 'five doublings per 5-bit window: %s' % r, x5.loc())
        for q, neg in (('gm_sm9::points::<impl points::Point>::point_sub', 'G1.point_add($self, G1.point_neg($rhs))'),):
            f2 = cx.fn(q, 'I-SCALAR')
            if f2 is not None:
                r = [v for _, v in I.returns(f2, F, True)]
                cx.add('I-SCALAR', 'sm9/point_sub', r == [neg], 'P - Q = P + (-Q): %s' % r, f2.loc())
    g = cx.fn('gm_sm9::points::<impl points::Point>::g_mul', 'I-SCALAR')
    if g is not None:
        B = 'sm9_u256_get_booth($k, 7, each(rev(Range::Range{0, 37})))'
        ROW = 'index(new(), (each(rev(Range::Range{0, 37})) as usize))'
        T = lambda b: 'index(%s, (SubWithOverflow(%s, 1).0 as usize))' % (ROW, b)
        tr = I.transfer(g, F, 'rev(Range::Range{0, 37})', ['r', 'r_infinity'])
        want = sorted(['G1.point_add(var:r@in, %s)' % T(B), 'G1.point_sub(var:r@in, %s)' % T('Neg(%s)' % B), T(B), 'var:r@in'])
        # the table point built where it is used instead of in a table of points prepared beforehand: the same
        # (x, y, 1) = (row_i[2j], row_i[2j+1], 1) with j = d - 1
        RI = 'SM9_P256_PRECOMPUTED[(each(rev(Range::Range{0, 37})) as usize)]'
        J2 = lambda b: 'MulWithOverflow((SubWithOverflow(%s, 1).0 as usize), 2).0' % b
        T2 = lambda b: 'Point::Point{%s[%s], %s[AddWithOverflow(%s, 1).0], one()}' % (RI, J2(b), RI, J2(b))
        want2 = sorted(['G1.point_add(var:r@in, %s)' % T2(B), 'G1.point_sub(var:r@in, %s)' % T2('Neg(%s)' % B), T2(B), 'var:r@in'])
        direct = tr is not None and alts(tr['r']) == want2
        if direct:
            want = want2
        cx.add('I-SCALAR', 'sm9/g_mul/step', tr is not None and alts(tr['r']) == want and alts(tr['r_infinity']) == ['0', 'var:r_infinity@in'],
               '7-bit signed comb: window i uses row i of the table; digit d adds row[i][d-1] or subtracts row[i][-d-1]', g.loc(), {'got': tr})
        # table rows -> points: (x, y) = (row[2j], row[2j+1]), z = 1
        P = Prov(g, F, cut_loops=True); cn = Canon(g, P)
        ag = G.aggr_blocks(g, 'Point::Point')
        pts = [[I.shorten_vars(cn.c(norm(P.operand(o, b, i)))) for o in rv['ops']] for b, i, rv in ag]
        ROWI = 'SM9_P256_PRECOMPUTED[each(Range::Range{0, len(SM9_P256_PRECOMPUTED)})]'
        Jx = 'each(Range::Range{0, Div(len(%s), 2)})' % ROWI
        want_pt = ['%s[MulWithOverflow(%s, 2).0]' % (ROWI, Jx), '%s[AddWithOverflow(MulWithOverflow(%s, 2).0, 1).0]' % (ROWI, Jx), 'one()']
        cx.add('I-SCALAR', 'sm9/g_mul/table-points', want_pt in pts or direct, 'row[2j], row[2j+1] are the affine x, y of table point j (z = 1): %s' % pts[:1], g.loc())
    t = cx.fn('gm_sm9::points::<impl points::TwistPoint>::point_mul', 'I-SCALAR')
    if t is not None:
        tr = I.transfer(t, F, 'Range::Range{0, 256}', ['r'])
        cx.add('I-SCALAR', 'sm9/twist_point_mul/step', tr is not None and alts(tr['r']) == sorted(['G2.point_double(var:r@in)', 'twist_point_add_full(G2.point_double(var:r@in), $self)']),
               'G2 double-and-add over the 256 bits: r = 2r (+ P when the bit is set)', t.loc(), {'got': tr})
        conds = loop_conds(t, F, 'Range::Range{0, 256}') or []
        cx.add('I-SCALAR', 'sm9/twist_point_mul/conds', [c for c in conds if not c.startswith('discr(')] == ['Eq(u256_to_bits($k)[each(Range::Range{0, 256})], 49)'], 'the addition is taken iff bit i (most significant first) is \'1\': %s' % conds, t.loc())
        gm = cx.fn('gm_sm9::points::<impl points::TwistPoint>::g_mul', 'I-SCALAR')
        if gm is not None:
            r = [v for _, v in I.returns(gm, F, True)]
            cx.add('I-SCALAR', 'sm9/twist_g_mul', r == ['G2.point_mul(SM9_U256_MONT_G2, $k)'], 'G2 fixed-base multiplication multiplies the generator P2: %s' % r, gm.loc())
    b = cx.fn('gm_sm9::u256::u256_to_bits', 'I-SCALAR')
    if b is not None:
        sh = I.fn_shape(b, F)
        need = ["store bits[index@in] = phi(48 | 49)", "loop index' = phi(AddWithOverflow(index@in, 1).0 | index@in)", "loop w' = phi($a[each(rev(Range::Range{0, 4}))] | Shl(w@in, 1))"]
        P = Prov(b, F, cut_loops=True); cn = Canon(b, P)
        sw = [I.shorten_vars(cn.c(norm(P.operand(b.blocks[x]['term']['op'], x, len(b.blocks[x]['stmts']))))) for x in range(len(b.blocks)) if b.blocks[x]['term']['k'] == 'switch']
        cx.add('I-SCALAR', 'sm9/u256_to_bits', all(n in sh for n in need) and 'Ne(BitAnd(w@in, 0x8000000000000000), 0)' in sw,
               'bits are produced most-significant limb and bit first (test of the top bit, then shift left)', b.loc(), {'shape': sh.split('\n'), 'switches': sw})
    bo = cx.fn('gm_sm9::u256::sm9_u256_get_booth', 'I-SCALAR')
    if bo is not None:
        r = I.returns(bo, F, True)
        MASK = 'SubWithOverflow(Shl(1, $window_size), 1).0'
        first = 'SubWithOverflow((BitAnd(Shl($a[0], 1), %s) as i32), (BitAnd($a[0], %s) as i32)).0' % (MASK, MASK)
        J = '(SubWithOverflow(MulWithOverflow($i, $window_size).0, 1).0 as usize)'
        N = 'Div(%s, 64)' % J
        JJ = 'Rem(%s, 64)' % J
        WB = 'phi(BitOr(Shr($a[%s], %s), Shl($a[AddWithOverflow(%s, 1).0], SubWithOverflow(64, %s).0)) | Shr($a[%s], %s))' % (N, JJ, N, JJ, N, JJ)
        rest = 'SubWithOverflow((BitAnd(%s, %s) as i32), (BitAnd(Shr(%s, 1), %s) as i32)).0' % (WB, MASK, WB, MASK)
        got = sorted(I.shorten_vars(v) for _, v in r)
        cx.add('I-SCALAR', 'sm9/get_booth', got == sorted([first, rest]), 'signed window digit = (bits[iw-1 .. iw+w-1] & mask) - ((bits >> 1) & mask) with the limb-straddling read', bo.loc(), {'got': got})
        P = Prov(bo, F, cut_loops=True); cn = Canon(bo, P)
        sw = sorted(I.shorten_vars(cn.c(norm(P.operand(bo.blocks[x]['term']['op'], x, len(bo.blocks[x]['stmts']))))) for x in range(len(bo.blocks)) if bo.blocks[x]['term']['k'] == 'switch')
        cx.add('I-SCALAR', 'sm9/get_booth/straddle', sw == sorted(['Eq($i, 0)', 'Lt(SubWithOverflow(64, %s).0, (AddWithOverflow($window_size, 1).0 as usize))' % JJ, 'Lt(%s, 3)' % N]),
               'the next limb is merged exactly when fewer than w+1 bits remain in the current limb and a next limb exists: %s' % sw, bo.loc())


def curve_predicates(cx):
    F = cx.F
    def ret(q, commut=('fp_mul', 'fp_add')):
        fn = cx.fn(q, 'I-CURVE')
        if fn is None:
            return None, None
        P = Prov(fn, F, cut_loops=True); cn = Canon(fn, P); cn.commut = set(commut)
        from ..builder import select_conds
        out = []
        for b, i, st in fn.stmts():
            if st['k'] == 'assign' and st['lhs']['l'] == 0 and not st['lhs']['p']:
                out.append((tuple(select_conds(fn, P, b, cn)), cn.c(norm(P.rvalue(st['rv'], b, i, 0)))))
        for b, t in fn.calls():
            if t['dest']['l'] == 0 and not t['dest']['p'] and t['target'] is not None:
                out.append((tuple(select_conds(fn, P, b, cn)), cn.c(norm(P.local(0, t['target'], 0)))))
        return fn, out
    fn, r = ret('gm_sm2::p256_ecc::<impl p256_ecc::Point>::is_valid_affine_point')
    if fn:
        want = 'eq(fp_sqr($self.y), fp_add(SM2_MODP_MONT_B, fp_mul($self.x, fp_add(SM2_MODP_MONT_A, fp_sqr($self.x)))))'
        cx.add('I-CURVE', 'sm2/is_valid_affine_point', [v for _, v in r] == [want], 'affine membership: y^2 == x(x^2 + a) + b: %s' % r, fn.loc())
    fn, r = ret('gm_sm2::p256_ecc::<impl p256_ecc::Point>::is_valid')
    if fn:
        Z2 = 'fp_sqr($self.z)'; Z4 = 'fp_sqr(%s)' % Z2
        want = 'eq(fp_sqr($self.y), fp_add(fp_mul($self.x, fp_add(fp_mul(SM2_MODP_MONT_A, %s), fp_sqr($self.x))), fp_mul(SM2_MODP_MONT_B, fp_mul(%s, %s))))' % (Z4, Z2, Z4)
        vals = sorted(v for _, v in r)
        cx.add('I-CURVE', 'sm2/is_valid', vals == sorted(['1', want]) or vals == sorted(['true', want]), 'Jacobian membership: y^2 == x(x^2 + a z^4) + b z^6, infinity accepted: %s' % vals, fn.loc())
    fn, r = ret('gm_sm9::points::<impl points::Point>::is_on_curve')
    if fn:
        Z2 = 'fp_sqr($self.z)'
        want = 'Eq(u256_cmp(phi(fp_sqr($self.y) | fp_sqr($self.y)), phi(fp_add(SM9_MODP_MONT_FIVE, fp_mul($self.x, fp_sqr($self.x))) | fp_add(fp_mul($self.x, fp_sqr($self.x)), fp_mul(SM9_MODP_MONT_FIVE, fp_mul(%s, fp_sqr(%s)))))), 0)' % (Z2, Z2)
        # the same two comparisons written as two returns (early return for the affine case)
        A_ = 'Eq(u256_cmp(fp_sqr($self.y), fp_add(SM9_MODP_MONT_FIVE, fp_mul($self.x, fp_sqr($self.x)))), 0)'
        J_ = 'Eq(u256_cmp(fp_sqr($self.y), fp_add(fp_mul($self.x, fp_sqr($self.x)), fp_mul(SM9_MODP_MONT_FIVE, fp_mul(%s, fp_sqr(%s))))), 0)' % (Z2, Z2)
        split_ok = sorted(v for _, v in r) == sorted([A_, J_]) and any('SM9_MODP_MONT_ONE' in ' '.join(c) for c, v in r if v == A_)
        # y^2 (and x^3) computed once before the two right-hand sides; which side goes with z == 1 is decided by A-CURVE
        # (the affine form is not weighted-homogeneous unless z is the constant 1 on its path)
        want2 = 'Eq(u256_cmp(fp_sqr($self.y), phi(fp_add(SM9_MODP_MONT_FIVE, fp_mul($self.x, fp_sqr($self.x))) | fp_add(fp_mul($self.x, fp_sqr($self.x)), fp_mul(SM9_MODP_MONT_FIVE, fp_mul(%s, fp_sqr(%s)))))), 0)' % (Z2, Z2)
        cx.add('I-CURVE', 'sm9/is_on_curve', [v for _, v in r] in ([want], [want2]) or split_ok, 'y^2 == x^3 + 5 (Z = 1) / y^2 == x^3 + 5 z^6: %s' % r, fn.loc())


def acc_defs(cx, inst, fn, var, rng, call=None):
    """I-ACC: the accumulator of a scalar multiplication is written only (a) before the loops (its start value) and
    (b) inside the window loop whose one-iteration transfer function is decided by I-SCALAR.  A write anywhere else
    (another loop, a fast path beside the window loop) changes the multiple that is computed while the window step
    still matches."""
    F = cx.F
    P = Prov(fn, F, cut_loops=True); cn = Canon(fn, P)
    fl = I.find_loop(fn, P, cn, rng, call)
    if fl is None:
        cx.lost('I-ACC', inst, 'window loop over %s not found in %s' % (rng, fn.short), fn.loc())
        return
    hdr, loop, latches = fl
    ls = [i for i, l in enumerate(fn.locals) if l.get('name') == var]
    if len(ls) != 1:
        cx.lost('I-ACC', inst, 'accumulator `%s` not found in %s' % (var, fn.short), fn.loc())
        return
    in_any_loop = set()
    for h, body in fn.natural_loops():
        in_any_loop |= set(body)
    bad = []
    n = 0
    for (b, i, kind) in P.defs.get(ls[0], []):
        n += 1
        if b in loop or b not in in_any_loop:
            continue
        bad.append(b)
    cx.add('I-ACC', inst, not bad and n >= 2, 'accumulator `%s` of %s has %d definition(s); outside the window loop over %s only its start value is written%s'
           % (var, fn.short, n, rng, '' if not bad else ' — but it is also written in another loop at bb%s' % sorted(set(bad))),
           G.where(fn, bad[0]) if bad else fn.loc())


def acc_rules(cx, which):
    T = {
        'sm2': [('sm2/scalar_mul', 'gm_sm2::p256_ecc::<impl p256_ecc::Point>::scalar_mul', 'r', 'Range::Range{0, 16}', 'point_add'),
                ('sm2/g_mul', 'gm_sm2::p256_ecc::g_mul', 'r', 'Range::Range{0, 8}', None)],
        'sm9': [('sm9/point_mul', 'gm_sm9::points::<impl points::Point>::point_mul', 'r', 'rev(Range::Range{0, 52})', None),
                ('sm9/g_mul', 'gm_sm9::points::<impl points::Point>::g_mul', 'r', 'rev(Range::Range{0, 37})', None),
                ('sm9/twist_point_mul', 'gm_sm9::points::<impl points::TwistPoint>::point_mul', 'r', 'Range::Range{0, 256}', None)],
    }[which]
    for inst, q, var, rng, call in T:
        fn = cx.fn(q, 'I-ACC')
        if fn is not None:
            acc_defs(cx, inst, fn, var, rng, call)
