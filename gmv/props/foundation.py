"""Foundations: a property holds only if the layers it is built on hold.  SM2 signatures, encryption, key agreement and
encodings stand on the SM2 field/curve arithmetic (C11) and on SM3 (C01); the SM9 schemes stand on the tower and group
arithmetic (C13), the pairing (C12) and SM3; the SM4 modes on the block cipher (C02); EEA3/EIA3 on ZUC (C08).  A fault
in a low-level helper (a limb comparison that skips limb 0, a dropped carry, a mixed addition without its doubling case,
a changed GT encoding) breaks every property above it, so the check of each property also evaluates the obligations of
its foundations on the current tree.  Duplicated obligations (rules a property already ran itself) are dropped."""
import importlib

FOUNDATION = {
    'C03': ['C11', 'C01'], 'C04': ['C11', 'C01'], 'C05': ['C11', 'C01'], 'C06': ['C11', 'C01'], 'C15': ['C11', 'C01'], 'C19': ['C11'],
    'C07': ['C02'], 'C18': ['C08'],
    'C09': ['C13', 'C12', 'C01'], 'C10': ['C13', 'C12', 'C01'], 'C17': ['C13', 'C12', 'C01'], 'C16': ['C13', 'C01'], 'C12': ['C13'],
    'C14': ['C11', 'C13'],
}


def run(cx, prop):
    own = len(cx.obs)
    nd = list(cx.not_decided)
    for q in FOUNDATION.get(prop, []):
        mod = importlib.import_module('gmv.props.' + q)
        mod.run(cx)
        from . import purity
        purity.run(cx, q)
    cx.not_decided = nd            # the foundations' own caveats are listed in their evidence
    # drop duplicates (same rule/instance evaluated twice gives the same verdict)
    seen = set()
    out = []
    for ob in cx.obs:
        k = (ob.key, ob.status)
        if k in seen:
            continue
        seen.add(k)
        out.append(ob)
    cx.stat('foundation_properties', FOUNDATION.get(prop, []))
    cx.stat('own_obligations', own)
    cx.obs = out
