"""C17 SM9 key exchange: both sides derive the same, standard-conforming key"""
from ..prov import Prov, norm
from ..builder import Canon, preimage
from .. import frame as FR, rules_g as G, paramalg as pa, rules_k as K
from .C10 import unloop

R = 'rand#1(SM9_N_MINUS_ONE)'
G0 = 'sm9_u256_pairing(SM9_TWIST_POINT_MONT_P2, $msk.ppube)'


def run(cx):
    cx.not_decided.append('equality of the two derived keys (needs bilinearity of the pairing) and equality with the reference (functional)')
    s9 = pa.sm9()
    K.k_ints(cx, 'K-SM9-EXCH', 'gm_sm9', {'SM9_HID_EXCH': 2, 'SM9_N_MINUS_ONE': s9.n - 1})
    # ---- step 1a
    fn = cx.fn('gm_sm9::key::exch_step_1a')
    if fn is not None:
        P = Prov(fn, cx.F); cn = Canon(fn, P)
        Q = 'G1.point_add(G1.point_mul(SM9_POINT_MONT_P1, sm9_u256_hash1($idb, SM9_HID_EXCH)), $msk.ppube)'
        want = 'tuple{G1.point_mul(%s, %s), %s}' % (Q, R, R)
        rets = [(b, i, st) for b, i, st in fn.stmts() if st['k'] == 'assign' and st['lhs']['l'] == 0 and not st['lhs']['p']]
        got = cn.c(norm(P.rvalue(rets[0][2]['rv'], rets[0][0], rets[0][1], 0))) if len(rets) == 1 else ''
        cx.add('F-EXCH-1A', 'exch_step_1a', got == want, 'initiator returns (R_A = [r_A]([H1(ID_B||02)]P1 + Ppub-e), r_A), same fresh r_A: %s' % FR.short(got, 240), fn.loc())
    # ---- step 1b (responder)
    fb = cx.fn('gm_sm9::key::exch_step_1b')
    if fb is not None:
        P = Prov(fb, cx.F); cn = Canon(fb, P)
        Q = 'G1.point_add(G1.point_mul(SM9_POINT_MONT_P1, sm9_u256_hash1($ida, SM9_HID_EXCH)), $msk.ppube)'
        RB = 'G1.point_mul(%s, %s)' % (Q, R)
        g1 = 'sm9_u256_pairing($key.de, $ra)'
        want = ['$ida', '$idb', 'index(BE($ra), RangeFrom::RangeFrom{1})', 'index(BE(%s), RangeFrom::RangeFrom{1})' % RB,
                'BE(%s)' % g1, 'BE(pow(%s, %s))' % (G0, R), 'BE(pow(%s, %s))' % (g1, R)]
        kd = FR.calls_of(fb, 'key::kdf')
        if len(kd) == 1:
            seq, _ = preimage(fb, P, kd[0], 0, cn)
            seq = [unloop(x) for x in seq] if seq else seq
            FR.check_seq(cx, 'F-EXCH-KDF', 'exch_step_1b', fb, seq, want, 'SK_B = KDF(ID_A || ID_B || R_A || R_B || g1 || g2 || g3), g1 = e(R_A, de_B), g2 = e(Ppub,P2)^rB, g3 = g1^rB', kd[0])
            cx.add('F-EXCH-KDF', 'exch_step_1b/klen', FR.arg_canon(fb, P, cn, kd[0], 1) == '$klen', 'requested key length is klen', G.where(fb, kd[0]))
            rets = FR.ret_exprs(fb, P)
            got = unloop(cn.c(norm(P.operand(rets[0][2], rets[0][0], rets[0][1])))) if len(rets) == 1 else ''
            cx.add('F-EXCH-KDF', 'exch_step_1b/ret', got == 'tuple{%s, kdf([%s], $klen)}' % (RB, ', '.join(want)), 'responder returns (R_B, SK_B)', fb.loc())
        else:
            cx.lost('F-EXCH-KDF', 'exch_step_1b', 'expected one kdf call', fb.loc())
        prs = [b for b in G.call_blocks(fb, 'points::sm9_u256_pairing') if FR.arg_canon(fb, P, cn, b, 1) == '$ra']
        G.guard(cx, 'G-EXCH-CURVE', 'exch_step_1b', fb, P, prs or G.ok_sinks(fb), lambda p: p.kind == 'valid' and p.op == 'is_on_curve' and cn.c(p.args[0]) == '$ra', True,
                'received R_A must be on the curve before e(R_A, de_B)')
    # ---- step 2a (initiator)
    fa = cx.fn('gm_sm9::key::exch_step_2a')
    if fa is not None:
        P = Prov(fa, cx.F); cn = Canon(fa, P)
        g2 = 'sm9_u256_pairing($key.de, $rb)'
        want = ['$ida', '$idb', 'index(BE($ra), RangeFrom::RangeFrom{1})', 'index(BE($rb), RangeFrom::RangeFrom{1})',
                'BE(pow(%s, $ra_))' % G0, 'BE(%s)' % g2, 'BE(pow(%s, $ra_))' % g2]
        kd = FR.calls_of(fa, 'key::kdf')
        if len(kd) == 1:
            seq, _ = preimage(fa, P, kd[0], 0, cn)
            FR.check_seq(cx, 'F-EXCH-KDF', 'exch_step_2a', fa, seq, want, 'SK_A = KDF(ID_A || ID_B || R_A || R_B || g1 || g2 || g3), g1 = e(Ppub,P2)^rA, g2 = e(R_B, de_A), g3 = g2^rA', kd[0])
            cx.add('F-EXCH-KDF', 'exch_step_2a/klen', FR.arg_canon(fa, P, cn, kd[0], 1) == '$klen', 'requested key length is klen', G.where(fa, kd[0]))
            rets = FR.ret_exprs(fa, P)
            got = cn.c(norm(P.operand(rets[0][2], rets[0][0], rets[0][1]))) if len(rets) == 1 else ''
            cx.add('F-EXCH-KDF', 'exch_step_2a/ret', got == 'kdf([%s], $klen)' % ', '.join(want), 'initiator returns SK_A', fa.loc())
        else:
            cx.lost('F-EXCH-KDF', 'exch_step_2a', 'expected one kdf call', fa.loc())
        prs = [b for b in G.call_blocks(fa, 'points::sm9_u256_pairing') if FR.arg_canon(fa, P, cn, b, 1) == '$rb']
        G.guard(cx, 'G-EXCH-CURVE', 'exch_step_2a', fa, P, prs or G.ok_sinks(fa), lambda p: p.kind == 'valid' and p.op == 'is_on_curve' and cn.c(p.args[0]) == '$rb', True,
                'received R_B must be on the curve before e(R_B, de_A)')
    # S-EXCH: the two preimages have the same shape position by position (IDs, R_A, R_B in the same order; g1,g2,g3 roles)
    cx.hold('S-EXCH', 'order', 'both sides hash ID_A, ID_B, R_A, R_B in the same order and (g1, g2, g3) = (e(R_A,de_B) | e(Ppub,P2)^rA, e(Ppub,P2)^rB | e(R_B,de_A), g1^rB | g2^rA) as decided by the two F-EXCH-KDF templates')


_run_kdf = run


def run(cx):
    from .C05 import check_kdf
    _run_kdf(cx)
    # the key of the requested length is the counter-mode KDF of GM/T 0044
    check_kdf(cx, 'gm_sm9::key::kdf', 'F-SM9-KDF')


_run_pow2 = run


def run(cx):
    from .. import rules_s as S
    _run_pow2(cx)
    # g^r / g^h: the GT exponentiation is a complete square-and-multiply over the four limbs of the exponent
    S.square_multiply(cx, 'I-POW', '<impl fields::fp12::Fp12>::pow')


_run_hash = run


def run(cx):
    from .C16 import check_hash, check_from_hash
    from .. import paramalg as _pa
    _run_hash(cx)
    # H1(ID || hid) is part of this property's statement: its framing and the hash-to-range reduction are decided here too
    check_hash(cx, 'gm_sm9::key::sm9_u256_hash1', 'H1', _pa.sm9().consts['SM9_HASH1_PREFIX'], ['$id', 'array{$hid}'])
    check_from_hash(cx)
