"""C08 ZUC keystream matches the specification however it is requested"""
from .. import rules_k as K, rules_p as RP, rules_i as I, rules_g as G, frame as FR, paramalg as pa
from ..prov import Prov, norm, last, const_int
from ..builder import Canon, root_local
from ..facts import pp_place

TAPS = 'add31(add31(add31(add31(add31($self.s[0], rot31($self.s[0], 8)), rot31($self.s[4], 20)), rot31($self.s[10], 21)), rot31($self.s[13], 17)), rot31($self.s[15], 15))'
HELPERS = {
    'make_u31': 'BitOr(BitOr(Shl($k, 23), Shl($d, 8)), $iv)',
    'sbox': 'BitOr(BitOr(BitOr(Shl((S0[((Shr($x, 24) as u8) as usize)] as u32), 24), Shl((S1[((Shr($x, 16) as u8) as usize)] as u32), 16)), Shl((S0[((Shr($x, 8) as u8) as usize)] as u32), 8)), (S1[(($x as u8) as usize)] as u32))',
    'rot31': 'BitAnd(BitOr(Shl($a, $k), Shr($a, SubWithOverflow(31, $k).0)), 0x7fffffff)',
    'add31': 'wrapping_add(BitAnd(wrapping_add($a, $b), 0x7fffffff), Shr(wrapping_add($a, $b), 31))',
    'l1': 'BitXor(BitXor(BitXor(BitXor($x, rotate_left($x, 2)), rotate_left($x, 10)), rotate_left($x, 18)), rotate_left($x, 24))',
    'l2': 'BitXor(BitXor(BitXor(BitXor($x, rotate_left($x, 8)), rotate_left($x, 14)), rotate_left($x, 22)), rotate_left($x, 30))',
}


def self_stores(fn, F):
    P = Prov(fn, F, cut_loops=True); cn = Canon(fn, P)
    out = []
    from ..prov import strip as _strip
    def is_self(l, b, i):
        # `self`, or the receiver of an inlined helper that was handed `self`
        if l == 1:
            return True
        e = _strip(norm(P.local(l, b, i)))
        return e.k == 'param' and e.name == 'self'
    for b, i, st in fn.stmts():
        if st['k'] == 'assign' and st['lhs']['p'] and st['lhs']['p'][0] == 'deref' and is_self(st['lhs']['l'], b, i):
            idx = [cn.c(norm(P.local(p['idx'], b, i))) for p in st['lhs']['p'] if isinstance(p, dict) and 'idx' in p]
            fld = [p['name'] for p in st['lhs']['p'] if isinstance(p, dict) and 'f' in p]
            ve = norm(P.rvalue(st['rv'], b, i, 0))
            from ..prov import strip as _st
            vs = _st(ve)
            if not idx and vs.k == 'aggr' and vs.name == 'array' and 1 < len(vs.args) <= 16:
                # the whole array field assigned from a literal: the same as its element stores in order
                for k_, a_ in enumerate(vs.args):
                    out.append(('.'.join(fld) + '[%d]' % k_, I.shorten_vars(cn.c(a_))))
                continue
            out.append(('.'.join(fld) + ''.join('[%s]' % x for x in idx), I.shorten_vars(cn.c(ve))))
    return out


M31 = 0x7fffffff
SPEC31 = {'s0': (1 + (1 << 8)) % M31, 's4': 1 << 20, 's10': 1 << 21, 's13': 1 << 17, 's15': 1 << 15}


def fold_bound(B):
    """largest value of (x & M) + (x >> 31) over 0 <= x <= B"""
    best = 0
    for q in range(0, min(B >> 31, 64) + 1):
        hi = min(B, ((q + 1) << 31) - 1)
        best = max(best, (hi - (q << 31)) + q)
    if (B >> 31) > 64:
        best = max(best, M31 + (B >> 31))
    return best


class Lin31:
    """value of an LFSR feedback expression as (linear form over the register cells and u modulo 2^31-1, upper bound), under
    the register invariant `every cell and u are at most 2^31-1`.  Rules (all exact consequences of 2^31 = 1 mod 2^31-1):
    rot31(a,k) with a <= M is 2^k*a mod M and <= M; x -> (x & M) + (x >> 31) keeps the residue and maps [0,B] into
    [0,fold_bound(B)]; x % M keeps the residue and is < M; +, * by a constant and << k act on the residue and the bound as
    on integers provided the bound stays inside the type.  None = not expressible (the caller falls back to the exact
    template)."""

    def __init__(self, cn, F):
        self.cn, self.F = cn, F
        self.why = None

    def fail(self, why):
        if self.why is None:
            self.why = why
        return None

    def width(self, e):
        t = (e.ty or '').strip()
        return {'u8': 8, 'u16': 16, 'u32': 32, 'u64': 64, 'usize': 64, 'u128': 128}.get(t)

    def ev(self, e, depth=0):
        from ..prov import strip
        import re as _re
        e = strip(e)
        if depth > 60:
            return self.fail('expression too deep')
        c = const_int(e) if e.k == 'const' else None
        if c is not None:
            return ({'1': c % M31} if c % M31 else {}, c)
        t = self.cn.c(e)
        m = _re.match(r'^\$(?:self\.)?s\[(\d+)\]$', t)
        if m:
            return ({'s' + m.group(1): 1}, M31)
        if t == '$u':
            return ({'u': 1}, M31)
        if e.k == 'cast' and e.args:
            a = self.ev(e.args[0], depth + 1)
            if a is None:
                return None
            w = {'u8': 8, 'u16': 16, 'u32': 32, 'u64': 64, 'usize': 64, 'u128': 128}.get((e.ty or '').strip())
            if w is None or a[1] >= (1 << w):
                return self.fail('cast of a value bounded by %d to %s may truncate' % (a[1], e.ty))
            return a
        if e.k == 'field' and e.name == '0' and e.args and strip(e.args[0]).k == 'binop':
            return self.ev(e.args[0], depth + 1)
        if e.k == 'call':
            ln = last(e.name)
            if ln == 'rot31' and len(e.args) == 2:
                a = self.ev(e.args[0], depth + 1); k = const_int(strip(e.args[1]))
                if a is None or k is None or not 0 < k < 31:
                    return self.fail('rot31 by a non-constant amount')
                if a[1] > M31:
                    return self.fail('rot31 of a value that may exceed 31 bits (bound %d)' % a[1])
                return ({x: v * (1 << k) % M31 for x, v in a[0].items()}, M31)
            if ln in ('add31', 'wrapping_add') and len(e.args) == 2:
                a = self.ev(e.args[0], depth + 1); b = self.ev(e.args[1], depth + 1)
                if a is None or b is None:
                    return None
                # the fold written with wrapping_add: (c & M).wrapping_add(c >> 31)
                fb = self.fold(e.args[0], e.args[1], depth) if ln == 'wrapping_add' else None
                if fb is not None:
                    return fb
                if a[1] + b[1] >= (1 << 32):
                    return self.fail('%s of values bounded by %d and %d may wrap' % (ln, a[1], b[1]))
                lin = self.add(a[0], b[0])
                return (lin, fold_bound(a[1] + b[1]) if ln == 'add31' else a[1] + b[1])
            if ln == 'sum' and len(e.args) == 1:
                return self.itersum(e.args[0], depth)
            return self.fail('call of %s' % ln)
        if e.k == 'binop' and len(e.args) == 2:
            n = e.name.replace('WithOverflow', '')
            if n == 'Add':
                fb = self.fold(e.args[0], e.args[1], depth)
                if fb is not None:
                    return fb
                a = self.ev(e.args[0], depth + 1); b = self.ev(e.args[1], depth + 1)
                if a is None or b is None:
                    return None
                if a[1] + b[1] >= (1 << 64):
                    return self.fail('sum may overflow')
                return (self.add(a[0], b[0]), a[1] + b[1])
            if n in ('Mul', 'Shl'):
                a = self.ev(e.args[0], depth + 1); k = const_int(strip(e.args[1]))
                if n == 'Mul' and k is None:
                    a = self.ev(e.args[1], depth + 1); k = const_int(strip(e.args[0]))
                if a is None or k is None:
                    return self.fail('%s by a non-constant' % n)
                f = (1 << k) if n == 'Shl' else k
                if n == 'Shl' and k >= 64 or a[1] * f >= (1 << 64):
                    return self.fail('%s may overflow 64 bits' % n)
                return ({x: v * f % M31 for x, v in a[0].items()}, a[1] * f)
            if n == 'Rem' and const_int(strip(e.args[1])) == M31:
                a = self.ev(e.args[0], depth + 1)
                return None if a is None else (a[0], min(a[1], M31 - 1))
            if n == 'BitAnd' and M31 in (const_int(strip(e.args[0])), const_int(strip(e.args[1]))):
                x = e.args[1] if const_int(strip(e.args[0])) == M31 else e.args[0]
                xs = strip(x)
                if xs.k == 'binop' and xs.name == 'BitOr' and len(xs.args) == 2:
                    # rot31 written out: ((a << k) | (a >> (31 - k))) & M with a <= M
                    for sl, sr in ((strip(xs.args[0]), strip(xs.args[1])), (strip(xs.args[1]), strip(xs.args[0]))):
                        if sl.k == 'binop' and sl.name == 'Shl' and sr.k == 'binop' and sr.name == 'Shr' and self.cn.c(sl.args[0]) == self.cn.c(sr.args[0]):
                            k = const_int(strip(sl.args[1])); k2 = const_int(strip(sr.args[1]))
                            a = self.ev(sl.args[0], depth + 1)
                            if a is not None and k is not None and k2 is not None and 0 < k < 31 and k + k2 == 31 and a[1] <= M31 and self.width(sl) in (None, 32):
                                return ({y: v * (1 << k) % M31 for y, v in a[0].items()}, M31)
                a = self.ev(x, depth + 1)
                if a is None:
                    return None
                if a[1] <= M31:
                    return a
                return self.fail('masking a value that may exceed 31 bits (bound %d) drops the carry: the residue mod 2^31-1 is lost' % a[1])
            if n == 'BitOr':
                # rot31 written out: ((a << k) | (a >> (31 - k))) -- only under the 31-bit mask, handled by the caller
                return self.fail('BitOr')
            return self.fail('operator %s' % n)
        return self.fail('expression %s' % FR.short(t, 80))

    def add(self, a, b):
        out = dict(a)
        for x, v in b.items():
            out[x] = (out.get(x, 0) + v) % M31
        return {x: v for x, v in out.items() if v}

    def fold(self, p, q, depth):
        """(x & M) + (x >> 31) in either order"""
        from ..prov import strip
        for lo, hi in ((strip(p), strip(q)), (strip(q), strip(p))):
            if lo.k == 'binop' and lo.name == 'BitAnd' and hi.k == 'binop' and hi.name == 'Shr' and const_int(strip(hi.args[1])) == 31:
                x = lo.args[1] if const_int(strip(lo.args[0])) == M31 else lo.args[0] if const_int(strip(lo.args[1])) == M31 else None
                if x is not None and self.cn.c(x) == self.cn.c(hi.args[0]):
                    a = self.ev(x, depth + 1)
                    if a is None:
                        return None
                    return (a[0], fold_bound(a[1]))
        return None

    def itersum(self, it, depth):
        """sum of `array.iter().map(|&t| t as wider)` (or of the array's iterator itself)"""
        from ..prov import strip
        it = strip(it)
        conv = None
        if it.k == 'call' and last(it.name) == 'map' and len(it.args) == 2:
            cl = strip(it.args[1])
            g = self.F.fns.get((cl.c or {}).get('closure')) if cl.k == 'aggr' and cl.c else None
            r = I.returns(g, self.F) if g is not None else None
            if not r or len(r) != 1 or r[0][1] not in ('($_2 as u64)', '$_2', '($_2 as u128)'):
                return self.fail('sum over a map whose closure is not a widening cast')
            it = strip(it.args[0])
        while it.k == 'call' and last(it.name) in ('iter', 'into_iter', 'copied', 'cloned') and it.args:
            it = strip(it.args[0])
        while it.k in ('ref', 'deref') and it.args:
            it = strip(it.args[0])
        if not (it.k == 'aggr' and it.name == 'array'):
            return self.fail('sum over something other than a literal array of terms')
        lin, bound = {}, 0
        for x in it.args:
            a = self.ev(x, depth + 1)
            if a is None:
                return None
            lin = self.add(lin, a[0]); bound += a[1]
        return (lin, bound)


def lfsr_semantic(cx, fn, mode_u):
    """the new cell of one LFSR step decided through Lin31: (ok, text) or None when the stored value is not of the form
    `if v == 0 {2^31-1} else {v}`"""
    from ..prov import strip
    P = Prov(fn, cx.F, cut_loops=True); cn = Canon(fn, P)
    cand = []
    for b, i, st in fn.stmts():
        if st['k'] == 'assign' and st['lhs']['p'] and st['lhs']['p'][0] == 'deref' and any(isinstance(p, dict) and (p.get('cidx') == 15 or 'idx' in p and cn.c(norm(P.local(p['idx'], b, i))) == '15') for p in st['lhs']['p']):
            cand.append(norm(P.rvalue(st['rv'], b, i, 0)))
    if len(cand) != 1:
        return None
    e = strip(cand[0])
    if not (e.k == 'phi' and len(e.args) == 2):
        return None
    alts = [strip(a) for a in e.args]
    v = [a for a in alts if not (a.k == 'const' and const_int(a) == M31)]
    if len(v) != 1:
        return None
    ev = Lin31(cn, cx.F)
    r = ev.ev(v[0])
    want = dict(SPEC31)
    if mode_u:
        want['u'] = 1
    if r is None:
        return (False, 'the new cell is not a sum of register terms reduced mod 2^31-1 (%s)' % ev.why, v[0], cn)
    lin, bound = r
    if lin != want:
        diff = sorted(set(lin.items()) ^ set(want.items()))
        return (False, 'the new cell is %s mod 2^31-1, the specification has %s (differs in %s)' % (sorted(lin.items()), sorted(want.items()), diff), v[0], cn)
    if bound > M31:
        return (False, 'the new cell has the right residue but may be as large as %d = 2^31-1 + %d: it no longer fits the 31-bit cell (one more reduction is needed)' % (bound, bound - M31), v[0], cn)
    return (True, 'the new cell = 2^15 s15 + 2^17 s13 + 2^21 s10 + 2^20 s4 + (1+2^8) s0%s mod 2^31-1 and is at most 2^31-1 (bound %d)' % (' + u' if mode_u else '', bound), v[0], cn)


def lfsr(cx, name, new_cell):
    fn = cx.fn('<impl ZUC>::' + name, 'I-ZUC')
    if fn is None:
        return
    st = self_stores(fn, cx.F)
    want = [('s[each(Range::Range{0, 15})]', 'phi($self.s[AddWithOverflow(each(Range::Range{0, 15}), 1).0])'), ('s[15]', 'phi(0x7fffffff | %s)' % new_cell)]
    want2 = [(a, b.replace('phi($self.s[AddWithOverflow(each(Range::Range{0, 15}), 1).0])', '$self.s[AddWithOverflow(each(Range::Range{0, 15}), 1).0]')) for a, b in want]
    # the new cell: decided semantically (residue mod 2^31-1 and 31-bit bound) whenever it is a reduced sum of register
    # terms, whatever the order of the terms and the way the reduction is written; otherwise the exact template
    sem = lfsr_semantic(cx, fn, '$u' in new_cell)
    cell_ok = sem[0] if sem is not None else (bool(st) and st[-1] == want[1])
    shift = st[:-1] if st and st[-1][0] == 's[15]' else st
    ok = shift in ([want[0]], [want2[0]])
    if not ok and shift == []:
        # the shift written as `self.s.copy_within(1..16, 0)`: same move of cells 1..15 down by one, provided the taps
        # were read before it (every add31/rot31 call dominates it, and the new cell is an expression over the register
        # as it was on entry) and the new cell is stored after it
        P_ = Prov(fn, cx.F, cut_loops=True); cn_ = Canon(fn, P_)
        cw = [b for b in FR.calls_of(fn, 'copy_within')]
        dom = fn.dominators()
        if len(cw) == 1:
            a_ = [cn_.c(x) for x in G.call_args(fn, P_, cw[0])]
            taps = [b for b in FR.calls_of(fn, 'add31')] + [b for b in FR.calls_of(fn, 'rot31')]
            stores15 = [b for b, i, s_ in fn.stmts() if s_['k'] == 'assign' and s_['lhs']['p'] and s_['lhs']['p'][0] == 'deref'
                        and any(isinstance(p, dict) and ('cidx' in p or 'idx' in p) for p in s_['lhs']['p'])]
            ok = (a_[1:] in (['Range::Range{1, 16}', '0'], ['RangeFrom::RangeFrom{1}', '0']) and a_[0].endswith('$self.s') and all(t in dom.get(cw[0], ()) for t in taps)
                  and all(cw[0] in dom.get(b, ()) for b in stores15))
    cx.add('I-ZUC', name, ok and cell_ok, '%s: s16 = %s (0 replaced by 2^31-1), then the register shifts by one cell%s' % (name, FR.short(new_cell, 120), ' -- ' + sem[1] if sem is not None else ''), fn.loc(), {'got': st})
    P = Prov(fn, cx.F, cut_loops=True); cn = Canon(fn, P)
    cell_txt = (new_cell,) if sem is None else (new_cell, sem[3].c(sem[2]))
    z = [p for _, p, _, _ in G.bool_switches(fn, P) if p.kind == 'eq' and cn.c(p.args[0]) in cell_txt and const_int(p.args[1]) == 0]
    cx.add('I-ZUC', name + '/zero', len(z) == 1, 'the replacement by 2^31-1 is taken exactly when the new cell is 0', fn.loc())


def run(cx):
    cx.not_decided.append('equality of the words with the ZUC-128 specification keystream: decided only through structural identity of every component (tables, LFSR taps and modes, BR, F, L1/L2, S-box layout, initialisation schedule) and the request-split independence argument, not by evaluation')
    F = cx.F
    K.oracle_selfcheck(cx, 'zuc')
    z = pa.zuc()
    K.k_array(cx, 'K-ZUC', 'gm_zuc', 'S0', z.s0, 1)
    K.k_array(cx, 'K-ZUC', 'gm_zuc', 'S1', z.s1, 1)
    K.k_array(cx, 'K-ZUC', 'gm_zuc', 'D', z.d, 4)
    deferred = {}
    for name, want in HELPERS.items():
        if name in ('add31', 'rot31') and 'gm_zuc::' + name not in F.fns and not any(FR.calls_of(g, name) for q, g in F.fns.items() if q.startswith(('gm_zuc::', '<impl ZUC>'))):
            # the LFSR arithmetic helper is gone and nothing calls it: the new cell is then decided by Lin31 alone
            cx.hold('I-ZUC', name, '%s: not present and not called (the LFSR feedback is decided through its residue and bound)' % name, 'gm-zuc/src/lib.rs')
            continue
        f = cx.fn('gm_zuc::' + name, 'I-ZUC')
        if f is not None:
            r = [x[1] for x in I.returns(f, F)]
            if name == 'make_u31' and r != [want]:
                # decided together with its only use (I-ZUC/new/load composes the body with the call's arguments)
                deferred['make_u31'] = (r, f)
                continue
            cx.add('I-ZUC', name, r == [want], '%s = %s' % (name, [FR.short(x, 160) for x in r]), f.loc())
    lfsr(cx, 'lfsr_with_work_mode', TAPS)
    lfsr(cx, 'lfsr_with_initialization_mode', 'add31(%s, $u)' % TAPS)
    br = cx.fn('<impl ZUC>::bit_reconstruction', 'I-ZUC')
    if br is not None:
        st = self_stores(br, F)
        want = [('x[0]', 'BitOr(Shl(BitAnd($self.s[15], 0x7fff8000), 1), BitAnd($self.s[14], 65535))'),
                ('x[1]', 'BitOr(Shl(BitAnd($self.s[11], 65535), 16), Shr($self.s[9], 15))'),
                ('x[2]', 'BitOr(Shl(BitAnd($self.s[7], 65535), 16), Shr($self.s[5], 15))'),
                ('x[3]', 'BitOr(Shl(BitAnd($self.s[2], 65535), 16), Shr($self.s[0], 15))')]
        cx.add('I-ZUC', 'bit_reconstruction', st == want, 'X0..X3 = s15H||s14L, s11L||s9H, s7L||s5H, s2L||s0H', br.loc(), {'got': st})
    ff = cx.fn('<impl ZUC>::f', 'I-ZUC')
    if ff is not None:
        st = self_stores(ff, F)
        W1 = 'wrapping_add($self.r1, $self.x[1])'; W2 = 'BitXor($self.r2, $self.x[2])'
        want = [('r1', 'sbox(l1(BitOr(Shl(%s, 16), Shr(%s, 16))))' % (W1, W2)), ('r2', 'sbox(l2(BitOr(Shl(%s, 16), Shr(%s, 16))))' % (W2, W1))]
        r = [I.shorten_vars(x[1]) for x in I.returns(ff, F)]
        cx.add('I-ZUC', 'f', sorted(st) == sorted(want) and r == ['wrapping_add(BitXor($self.x[0], $self.r1), $self.r2)'],
               'W = (X0 ^ R1) + R2; R1 = S(L1(W1L||W2H)), R2 = S(L2(W2L||W1H)) with W1 = R1 + X1, W2 = R2 ^ X2 (old registers)', ff.loc(), {'stores': st, 'ret': r})
    # ---- initialisation
    nw = cx.fn('<impl ZUC>::new', 'I-ZUC')
    if nw is None:
        for n_, (r_, f_) in deferred.items():
            cx.add('I-ZUC', n_, False, '%s = %s (its use in ZUC::new was not found)' % (n_, r_), f_.loc())
    if nw is not None:
        P = Prov(nw, F, cut_loops=True); cn = Canon(nw, P)
        st = I.stores(nw, F, 's')
        E16 = 'each(Range::Range{0, 16})'
        load_ok = st == [(E16, 'make_u31(($k[%s] as u32), D[%s], ($iv[%s] as u32))' % (E16, E16, E16))]
        how = ''
        if not load_ok and len(st) == 1 and st[0][0] == E16:
            # the composed cell, whatever is precomputed: make_u31's body with the call's arguments substituted must be
            # k_i << 23 | d_i << 8 | iv_i, where a constant table rendered by value stands for `D[i] << 8` only after each of
            # its sixteen entries was compared with the oracle's d_i << 8
            import re as _re2
            mu = F.fns.get('gm_zuc::make_u31')
            body = [x[1] for x in I.returns(mu, F)] if mu is not None else []
            m_ = _re2.match(r'^make_u31\(\(\$k\[%s\] as u32\), (.*), \(\$iv\[%s\] as u32\)\)$' % (_re2.escape(E16), _re2.escape(E16)), st[0][1])
            pn = [l_.get('name') for l_ in mu.locals[1:1 + mu.arg_count]] if mu is not None else []
            if m_ and len(body) == 1 and len(pn) == 3:
                mid = m_.group(1)
                t_ = _re2.match(r'^arr:0x([0-9a-f]+)\[%s\]$' % _re2.escape(E16), mid)
                if t_:
                    hx = t_.group(1).rjust(128, '0')
                    vals = [int(hx[k_:k_ + 8], 16) for k_ in range(0, 128, 8)][::-1] if len(hx) == 128 else None
                    if vals == [d_ << 8 for d_ in z.d]:
                        mid = 'Shl(D[%s], 8)' % E16
                cell = body[0].replace('$' + pn[0], 'K').replace('$' + pn[2], 'IV').replace('$' + pn[1], mid)
                load_ok = cell in ('BitOr(BitOr(Shl(K, 23), Shl(D[%s], 8)), IV)' % E16,)
                how = ' (cell composed from the helper body: %s)' % cell[:80]
        cx.add('I-ZUC', 'new/load', load_ok, 's_i = k_i || d_i || iv_i for i in 0..16%s' % how, nw.loc())
        if 'make_u31' in deferred:
            r_, f_ = deferred.pop('make_u31')
            cx.add('I-ZUC', 'make_u31', load_ok and bool(how), 'make_u31 = %s: with the arguments of its call in ZUC::new it gives k << 23 | d << 8 | iv' % [FR.short(x, 160) for x in r_], f_.loc())
        ag = G.aggr_blocks(nw, 'ZUC::ZUC')
        ops_ = [I.shorten_vars(cn.c(norm(P.operand(o, ag[0][0], ag[0][1])))) for o in ag[0][2]['ops']] if len(ag) == 1 else []
        if ops_:
            # the LFSR field is the array the load loop filled (stores through s[i] or through s.iter_mut() elements)
            from ..builder import root_local as _root
            o0 = ag[0][2]['ops'][0]
            rl_ = _root(P, o0, ag[0][0], ag[0][1]) if o0['k'] in ('copy', 'move') else None
            if rl_ is not None and nw.locals[rl_].get('name') == 's':
                ops_[0] = 's'
        ok = ops_ == ['s', '0', '0', 'repeat{0}']
        cx.add('I-ZUC', 'new/regs', ok, 'R1 = R2 = 0 at the start of initialisation', nw.loc())
        lp = I.find_loop(nw, P, cn, 'Range::Range{0, 32}')
        seq = []
        if lp:
            hdr, loop, latches = lp
            for b in sorted(loop, key=lambda x: len(nw.dominators().get(x, ()))):
                t = nw.blocks[b]['term']
                if t['k'] == 'call' and t['fn']['k'] == 'def' and t['fn']['local']:
                    seq.append((last(t['fn']['name']), [I.shorten_vars(cn.c(a)) for a in G.call_args(nw, P, b)][1:]))
        import re as _re
        def _obj(t_):
            # ZUC::ZUC{ .. } (balanced) -> ZUC
            while 'ZUC::ZUC{' in t_:
                k_ = t_.index('ZUC::ZUC{'); j_ = k_ + len('ZUC::ZUC{'); d_ = 1
                while j_ < len(t_) and d_:
                    d_ += t_[j_] == '{'; d_ -= t_[j_] == '}'; j_ += 1
                t_ = t_[:k_] + 'ZUC' + t_[j_:]
            return t_
        seq = [(n_, [_obj(a_)[:60] for a_ in as_]) for n_, as_ in seq]
        want = [('bit_reconstruction', []), ('f', []), ('lfsr_with_initialization_mode', ['Shr(f(ZUC), 1)'])]
        cx.add('I-ZUC', 'new/init-rounds', seq == want, '32 initialisation rounds of BR; W = F(); LFSRWithInitialisationMode(W >> 1): %s' % seq, nw.loc())
        after = []
        if lp:
            for b, t in nw.calls():
                if b not in lp[1] and t['fn']['k'] == 'def' and t['fn']['local'] and lp[0] in nw.dominators().get(b, ()):
                    after.append((last(t['fn']['name']), [cn.c(a) for a in G.call_args(nw, P, b)][1:]))
        cx.add('I-ZUC', 'new/discard', after in ([('generate_keystream', ['1'])], [('bit_reconstruction', []), ('f', []), ('lfsr_with_work_mode', [])]), 'one work-mode step whose output word is discarded follows the 32 rounds: %s' % after, nw.loc())
    # ---- keystream generation and request-split independence
    gk = cx.fn('<impl ZUC>::generate_keystream', 'P-SPLIT')
    if gk is not None:
        P = Prov(gk, F, cut_loops=True); cn = Canon(gk, P)
        lp = I.find_loop(gk, P, cn, 'Range::Range{0, $n}')
        if lp is None:
            cx.violate('P-SPLIT', 'generate_keystream/loop', 'the loop `for _ in 0..n` was not found', gk.loc())
            return
        hdr, loop, latches = lp
        # calls that receive self mutably
        muts = [(b, last(t['fn']['name'])) for b, t in gk.calls() if t['fn']['k'] == 'def' and t['fn']['local'] and t['args'] and gk.local_ty(t['args'][0]['pl']['l']).startswith('&mut ')]
        order = [n for b, n in sorted(muts, key=lambda x: len(gk.dominators().get(x[0], ())))]
        cx.add('P-SPLIT', 'generate_keystream/step', order == ['bit_reconstruction', 'f', 'lfsr_with_work_mode'], 'one keystream word = BR; Z = F() ^ X3; LFSRWithWorkMode, in this order: %s' % order, gk.loc())
        outside = [n for b, n in muts if b not in loop]
        cx.add('P-SPLIT', 'generate_keystream/no-outside-mutation', not outside, 'the generator state is not touched outside the per-word loop body: %s' % (outside or 'none'), gk.loc())
        # every state-changing call is executed on EVERY iteration: removing its block disconnects loop entry from the back edge
        body_entry = [s_ for s_ in gk.succ(hdr) if s_ in loop]
        uncond = True
        for b, n in muts:
            if b in loop:
                for lt in latches:
                    r = gk.reachable(hdr, removed_blocks={b})
                    if lt in r and lt != b:
                        uncond = False
        cx.add('P-SPLIT', 'generate_keystream/unconditional', uncond, 'BR, F and the LFSR step run on every iteration (no iteration-dependent skipping)', gk.loc())
        # no argument other than self flows into the state-changing calls; no direct stores to *self
        extra = [(n, len(gk.blocks[b]['term']['args'])) for b, n in muts if len(gk.blocks[b]['term']['args']) != 1]
        direct = [pp_place(gk, st['lhs']) for b, i, st in gk.stmts() if st['k'] == 'assign' and st['lhs']['l'] == 1 and st['lhs']['p']]
        cx.add('P-SPLIT', 'generate_keystream/no-request-flow', not extra and not direct, 'nothing derived from the request size, the loop counter or the output vector reaches the state (calls take only self; no direct stores): %s %s' % (extra, direct), gk.loc())
        # switches inside the loop: only the iterator
        sw = [b for b in loop if gk.blocks[b]['term']['k'] == 'switch']
        sw_ok = all(cn.c(norm(P.operand(gk.blocks[b]['term']['op'], b, len(gk.blocks[b]['stmts'])))).startswith('discr(next(') for b in sw)
        cx.add('P-SPLIT', 'generate_keystream/branches', sw_ok, 'the only branch in the loop is the iterator test', gk.loc())
        ps = [FR.arg_canon(gk, P, cn, b, 1) for b in FR.calls_of(gk, 'push')]
        cx.add('P-SPLIT', 'generate_keystream/word', ps in (['BitXor(f($self), $self.x[3]#{call:f})'], ['BitXor(f($self), $self.x[3]#{call:bit_reconstruction})']),
               'each pushed word is F() ^ X3 with X3 read in the version left by this step\'s bit reconstruction (F does not write X: I-ZUC/f), before the LFSR step: %s' % ps, gk.loc())
        cx.add('P-SPLIT', 'generate_keystream/count', FR.arg_canon(gk, P, cn, hdr, 0) == 'into_iter(Range::Range{0, $n})', 'exactly n words per request', gk.loc())
    a = F.adts.get('gm_zuc::ZUC')
    if a:
        pub = [f['name'] for v in a['variants'] for f in v['fields'] if f['public']]
        cx.add('P-SPLIT', 'ZUC/private', not pub and a.get('freeze') is True, 'generator state fields are private and free of interior mutability (only generate_keystream advances it)', '')
    muters = [n for n, f in F.fns.items() if f.crate == 'gm_zuc' and f.public and '<impl ZUC>' in n and f.arg_count >= 1 and f.local_ty(1).startswith('&mut ')]
    cx.add('P-SPLIT', 'ZUC/public-mutators', [last(m) for m in muters] == ['generate_keystream'], 'the only public method taking &mut self is generate_keystream: %s' % [last(m) for m in muters], '')
