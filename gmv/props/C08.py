"""C08 ZUC keystream matches the specification however it is requested"""
from .. import rules_k as K, paramalg as pa


def run(cx):
    cx.not_decided.append('equality of the generated words with the ZUC-128 specification keystream (functional)')
    K.oracle_selfcheck(cx, 'zuc')
    z = pa.zuc()
    K.k_array(cx, 'K-ZUC', 'gm_zuc', 'S0', z.s0, 1)
    K.k_array(cx, 'K-ZUC', 'gm_zuc', 'S1', z.s1, 1)
    K.k_array(cx, 'K-ZUC', 'gm_zuc', 'D', z.d, 4)
