"""C08 ZUC keystream matches the specification however it is requested"""
from .. import rules_k as K, rules_p as RP, rules_i as I, rules_g as G, frame as FR, paramalg as pa
from ..prov import Prov, norm, last, const_int
from ..builder import Canon, root_local
from ..facts import pp_place

TAPS = 'add31(add31(add31(add31(add31($self.s[0], rot31($self.s[0], 8)), rot31($self.s[4], 20)), rot31($self.s[10], 21)), rot31($self.s[13], 17)), rot31($self.s[15], 15))'
HELPERS = {
    'make_u31': 'BitOr(BitOr(Shl($k, 23), Shl($d, 8)), $iv)',
    'sbox': 'BitOr(BitOr(BitOr(Shl((S0[((Shr($x, 24) as u8) as usize)] as u32), 24), Shl((S1[((Shr($x, 16) as u8) as usize)] as u32), 16)), Shl((S0[((Shr($x, 8) as u8) as usize)] as u32), 8)), (S1[(($x as u8) as usize)] as u32))',
    'rot31': 'BitAnd(BitOr(Shl($a, $k), Shr($a, SubWithOverflow(31, $k).0)), 0x7fffffff)',
    'add31': 'wrapping_add(BitAnd(wrapping_add($a, $b), 0x7fffffff), Shr(wrapping_add($a, $b), 31))',
    'l1': 'BitXor(BitXor(BitXor(BitXor($x, rotate_left($x, 2)), rotate_left($x, 10)), rotate_left($x, 18)), rotate_left($x, 24))',
    'l2': 'BitXor(BitXor(BitXor(BitXor($x, rotate_left($x, 8)), rotate_left($x, 14)), rotate_left($x, 22)), rotate_left($x, 30))',
}


def self_stores(fn, F):
    P = Prov(fn, F, cut_loops=True); cn = Canon(fn, P)
    out = []
    from ..prov import strip as _strip
    def is_self(l, b, i):
        # `self`, or the receiver of an inlined helper that was handed `self`
        if l == 1:
            return True
        e = _strip(norm(P.local(l, b, i)))
        return e.k == 'param' and e.name == 'self'
    for b, i, st in fn.stmts():
        if st['k'] == 'assign' and st['lhs']['p'] and st['lhs']['p'][0] == 'deref' and is_self(st['lhs']['l'], b, i):
            idx = [cn.c(norm(P.local(p['idx'], b, i))) for p in st['lhs']['p'] if isinstance(p, dict) and 'idx' in p]
            fld = [p['name'] for p in st['lhs']['p'] if isinstance(p, dict) and 'f' in p]
            out.append(('.'.join(fld) + ''.join('[%s]' % x for x in idx), I.shorten_vars(cn.c(norm(P.rvalue(st['rv'], b, i, 0))))))
    return out


def lfsr(cx, name, new_cell):
    fn = cx.fn('<impl ZUC>::' + name, 'I-ZUC')
    if fn is None:
        return
    st = self_stores(fn, cx.F)
    want = [('s[each(Range::Range{0, 15})]', 'phi($self.s[AddWithOverflow(each(Range::Range{0, 15}), 1).0])'), ('s[15]', 'phi(0x7fffffff | %s)' % new_cell)]
    want2 = [(a, b.replace('phi($self.s[AddWithOverflow(each(Range::Range{0, 15}), 1).0])', '$self.s[AddWithOverflow(each(Range::Range{0, 15}), 1).0]')) for a, b in want]
    ok = st in (want, want2)
    if not ok and st == want[1:]:
        # the shift written as `self.s.copy_within(1..16, 0)`: same move of cells 1..15 down by one, provided the taps
        # were read before it (every add31/rot31 call dominates it) and the new cell is stored after it
        P_ = Prov(fn, cx.F, cut_loops=True); cn_ = Canon(fn, P_)
        cw = [b for b in FR.calls_of(fn, 'copy_within')]
        dom = fn.dominators()
        if len(cw) == 1:
            a_ = [cn_.c(x) for x in G.call_args(fn, P_, cw[0])]
            taps = [b for b in FR.calls_of(fn, 'add31')] + [b for b in FR.calls_of(fn, 'rot31')]
            stores15 = [b for b, i, s_ in fn.stmts() if s_['k'] == 'assign' and s_['lhs']['p'] and s_['lhs']['p'][0] == 'deref'
                        and any(isinstance(p, dict) and ('cidx' in p or 'idx' in p) for p in s_['lhs']['p'])]
            ok = (a_[1:] == ['Range::Range{1, 16}', '0'] and a_[0].endswith('$self.s') and all(t in dom.get(cw[0], ()) for t in taps)
                  and all(cw[0] in dom.get(b, ()) for b in stores15))
    cx.add('I-ZUC', name, ok, '%s: s16 = %s (0 replaced by 2^31-1), then the register shifts by one cell' % (name, FR.short(new_cell, 120)), fn.loc(), {'got': st})
    P = Prov(fn, cx.F, cut_loops=True); cn = Canon(fn, P)
    z = [p for _, p, _, _ in G.bool_switches(fn, P) if p.kind == 'eq' and cn.c(p.args[0]) == new_cell and const_int(p.args[1]) == 0]
    cx.add('I-ZUC', name + '/zero', len(z) == 1, 'the replacement by 2^31-1 is taken exactly when the new cell is 0', fn.loc())


def run(cx):
    cx.not_decided.append('equality of the words with the ZUC-128 specification keystream: decided only through structural identity of every component (tables, LFSR taps and modes, BR, F, L1/L2, S-box layout, initialisation schedule) and the request-split independence argument, not by evaluation')
    F = cx.F
    K.oracle_selfcheck(cx, 'zuc')
    z = pa.zuc()
    K.k_array(cx, 'K-ZUC', 'gm_zuc', 'S0', z.s0, 1)
    K.k_array(cx, 'K-ZUC', 'gm_zuc', 'S1', z.s1, 1)
    K.k_array(cx, 'K-ZUC', 'gm_zuc', 'D', z.d, 4)
    for name, want in HELPERS.items():
        f = cx.fn('gm_zuc::' + name, 'I-ZUC')
        if f is not None:
            r = [x[1] for x in I.returns(f, F)]
            cx.add('I-ZUC', name, r == [want], '%s = %s' % (name, [FR.short(x, 160) for x in r]), f.loc())
    lfsr(cx, 'lfsr_with_work_mode', TAPS)
    lfsr(cx, 'lfsr_with_initialization_mode', 'add31(%s, $u)' % TAPS)
    br = cx.fn('<impl ZUC>::bit_reconstruction', 'I-ZUC')
    if br is not None:
        st = self_stores(br, F)
        want = [('x[0]', 'BitOr(Shl(BitAnd($self.s[15], 0x7fff8000), 1), BitAnd($self.s[14], 65535))'),
                ('x[1]', 'BitOr(Shl(BitAnd($self.s[11], 65535), 16), Shr($self.s[9], 15))'),
                ('x[2]', 'BitOr(Shl(BitAnd($self.s[7], 65535), 16), Shr($self.s[5], 15))'),
                ('x[3]', 'BitOr(Shl(BitAnd($self.s[2], 65535), 16), Shr($self.s[0], 15))')]
        cx.add('I-ZUC', 'bit_reconstruction', st == want, 'X0..X3 = s15H||s14L, s11L||s9H, s7L||s5H, s2L||s0H', br.loc(), {'got': st})
    ff = cx.fn('<impl ZUC>::f', 'I-ZUC')
    if ff is not None:
        st = self_stores(ff, F)
        W1 = 'wrapping_add($self.r1, $self.x[1])'; W2 = 'BitXor($self.r2, $self.x[2])'
        want = [('r1', 'sbox(l1(BitOr(Shl(%s, 16), Shr(%s, 16))))' % (W1, W2)), ('r2', 'sbox(l2(BitOr(Shl(%s, 16), Shr(%s, 16))))' % (W2, W1))]
        r = [I.shorten_vars(x[1]) for x in I.returns(ff, F)]
        cx.add('I-ZUC', 'f', sorted(st) == sorted(want) and r == ['wrapping_add(BitXor($self.x[0], $self.r1), $self.r2)'],
               'W = (X0 ^ R1) + R2; R1 = S(L1(W1L||W2H)), R2 = S(L2(W2L||W1H)) with W1 = R1 + X1, W2 = R2 ^ X2 (old registers)', ff.loc(), {'stores': st, 'ret': r})
    # ---- initialisation
    nw = cx.fn('<impl ZUC>::new', 'I-ZUC')
    if nw is not None:
        P = Prov(nw, F, cut_loops=True); cn = Canon(nw, P)
        st = I.stores(nw, F, 's')
        E16 = 'each(Range::Range{0, 16})'
        cx.add('I-ZUC', 'new/load', st == [(E16, 'make_u31(($k[%s] as u32), D[%s], ($iv[%s] as u32))' % (E16, E16, E16))], 's_i = k_i || d_i || iv_i for i in 0..16', nw.loc())
        ag = G.aggr_blocks(nw, 'ZUC::ZUC')
        ops_ = [I.shorten_vars(cn.c(norm(P.operand(o, ag[0][0], ag[0][1])))) for o in ag[0][2]['ops']] if len(ag) == 1 else []
        if ops_:
            # the LFSR field is the array the load loop filled (stores through s[i] or through s.iter_mut() elements)
            from ..builder import root_local as _root
            o0 = ag[0][2]['ops'][0]
            rl_ = _root(P, o0, ag[0][0], ag[0][1]) if o0['k'] in ('copy', 'move') else None
            if rl_ is not None and nw.locals[rl_].get('name') == 's':
                ops_[0] = 's'
        ok = ops_ == ['s', '0', '0', 'repeat{0}']
        cx.add('I-ZUC', 'new/regs', ok, 'R1 = R2 = 0 at the start of initialisation', nw.loc())
        lp = I.find_loop(nw, P, cn, 'Range::Range{0, 32}')
        seq = []
        if lp:
            hdr, loop, latches = lp
            for b in sorted(loop, key=lambda x: len(nw.dominators().get(x, ()))):
                t = nw.blocks[b]['term']
                if t['k'] == 'call' and t['fn']['k'] == 'def' and t['fn']['local']:
                    seq.append((last(t['fn']['name']), [I.shorten_vars(cn.c(a))[:60] for a in G.call_args(nw, P, b)][1:]))
        import re as _re
        seq = [(n_, [_re.sub(r'ZUC::ZUC\{[^{}]*(\{[^{}]*\}[^{}]*)*\}', 'ZUC', a_) for a_ in as_]) for n_, as_ in seq]
        want = [('bit_reconstruction', []), ('f', []), ('lfsr_with_initialization_mode', ['Shr(f(ZUC), 1)'])]
        cx.add('I-ZUC', 'new/init-rounds', seq == want, '32 initialisation rounds of BR; W = F(); LFSRWithInitialisationMode(W >> 1): %s' % seq, nw.loc())
        after = []
        if lp:
            for b, t in nw.calls():
                if b not in lp[1] and t['fn']['k'] == 'def' and t['fn']['local'] and lp[0] in nw.dominators().get(b, ()):
                    after.append((last(t['fn']['name']), [cn.c(a) for a in G.call_args(nw, P, b)][1:]))
        cx.add('I-ZUC', 'new/discard', after in ([('generate_keystream', ['1'])], [('bit_reconstruction', []), ('f', []), ('lfsr_with_work_mode', [])]), 'one work-mode step whose output word is discarded follows the 32 rounds: %s' % after, nw.loc())
    # ---- keystream generation and request-split independence
    gk = cx.fn('<impl ZUC>::generate_keystream', 'P-SPLIT')
    if gk is not None:
        P = Prov(gk, F, cut_loops=True); cn = Canon(gk, P)
        lp = I.find_loop(gk, P, cn, 'Range::Range{0, $n}')
        if lp is None:
            cx.violate('P-SPLIT', 'generate_keystream/loop', 'the loop `for _ in 0..n` was not found', gk.loc())
            return
        hdr, loop, latches = lp
        # calls that receive self mutably
        muts = [(b, last(t['fn']['name'])) for b, t in gk.calls() if t['fn']['k'] == 'def' and t['fn']['local'] and t['args'] and gk.local_ty(t['args'][0]['pl']['l']).startswith('&mut ')]
        order = [n for b, n in sorted(muts, key=lambda x: len(gk.dominators().get(x[0], ())))]
        cx.add('P-SPLIT', 'generate_keystream/step', order == ['bit_reconstruction', 'f', 'lfsr_with_work_mode'], 'one keystream word = BR; Z = F() ^ X3; LFSRWithWorkMode, in this order: %s' % order, gk.loc())
        outside = [n for b, n in muts if b not in loop]
        cx.add('P-SPLIT', 'generate_keystream/no-outside-mutation', not outside, 'the generator state is not touched outside the per-word loop body: %s' % (outside or 'none'), gk.loc())
        # every state-changing call is executed on EVERY iteration: removing its block disconnects loop entry from the back edge
        body_entry = [s_ for s_ in gk.succ(hdr) if s_ in loop]
        uncond = True
        for b, n in muts:
            if b in loop:
                for lt in latches:
                    r = gk.reachable(hdr, removed_blocks={b})
                    if lt in r and lt != b:
                        uncond = False
        cx.add('P-SPLIT', 'generate_keystream/unconditional', uncond, 'BR, F and the LFSR step run on every iteration (no iteration-dependent skipping)', gk.loc())
        # no argument other than self flows into the state-changing calls; no direct stores to *self
        extra = [(n, len(gk.blocks[b]['term']['args'])) for b, n in muts if len(gk.blocks[b]['term']['args']) != 1]
        direct = [pp_place(gk, st['lhs']) for b, i, st in gk.stmts() if st['k'] == 'assign' and st['lhs']['l'] == 1 and st['lhs']['p']]
        cx.add('P-SPLIT', 'generate_keystream/no-request-flow', not extra and not direct, 'nothing derived from the request size, the loop counter or the output vector reaches the state (calls take only self; no direct stores): %s %s' % (extra, direct), gk.loc())
        # switches inside the loop: only the iterator
        sw = [b for b in loop if gk.blocks[b]['term']['k'] == 'switch']
        sw_ok = all(cn.c(norm(P.operand(gk.blocks[b]['term']['op'], b, len(gk.blocks[b]['stmts'])))).startswith('discr(next(') for b in sw)
        cx.add('P-SPLIT', 'generate_keystream/branches', sw_ok, 'the only branch in the loop is the iterator test', gk.loc())
        ps = [FR.arg_canon(gk, P, cn, b, 1) for b in FR.calls_of(gk, 'push')]
        cx.add('P-SPLIT', 'generate_keystream/word', ps == ['BitXor(f($self), $self.x[3])'], 'each pushed word is F() ^ X3 of the current state: %s' % ps, gk.loc())
        cx.add('P-SPLIT', 'generate_keystream/count', FR.arg_canon(gk, P, cn, hdr, 0) == 'into_iter(Range::Range{0, $n})', 'exactly n words per request', gk.loc())
    a = F.adts.get('gm_zuc::ZUC')
    if a:
        pub = [f['name'] for v in a['variants'] for f in v['fields'] if f['public']]
        cx.add('P-SPLIT', 'ZUC/private', not pub and a.get('freeze') is True, 'generator state fields are private and free of interior mutability (only generate_keystream advances it)', '')
    muters = [n for n, f in F.fns.items() if f.crate == 'gm_zuc' and f.public and '<impl ZUC>' in n and f.arg_count >= 1 and f.local_ty(1).startswith('&mut ')]
    cx.add('P-SPLIT', 'ZUC/public-mutators', [last(m) for m in muters] == ['generate_keystream'], 'the only public method taking &mut self is generate_keystream: %s' % [last(m) for m in muters], '')
