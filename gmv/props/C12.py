"""C12 SM9 pairing is the bilinear, non-degenerate R-ate pairing of GM/T 0044.1"""
from .. import rules_k as K, paramalg as pa


def run(cx):
    cx.not_decided.append('bilinearity, non-degeneracy and equality with a textbook pairing (functional)')
    s = pa.sm9()
    names = ['SM9_P', 'SM9_P_MINUS_TWO', 'SM9_P_PRIME', 'SM9_MODP_2E512', 'SM9_MODP_MONT_ONE', 'SM9_MODP_MONT_FIVE',
             'SM9_MONT_ALPHA1', 'SM9_MONT_ALPHA2', 'SM9_MONT_ALPHA3', 'SM9_MONT_ALPHA4', 'SM9_MONT_ALPHA5']
    K.k_ints(cx, 'K-SM9-FROB', 'gm_sm9', {k: s.consts[k] for k in names})
    for n in ('SM9_MONT_BETA', 'SM9_POINT_MONT_P1', 'SM9_TWIST_POINT_MONT_P2'):
        K.k_struct(cx, 'K-SM9-GEN', 'gm_sm9', n, s.struct_consts[n])
