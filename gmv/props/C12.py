"""C12 SM9 pairing is the bilinear, non-degenerate R-ate pairing of GM/T 0044.1"""
import re
from .. import rules_k as K, rules_i as I, rules_g as G, frame as FR, paramalg as pa
from ..prov import Prov, norm, last, const_int
from ..builder import Canon


def line_fn_shape(cx, fn):
    """(pre stores, lw stores, returned point) of a chord-line evaluation function, canonical with commutative fp_mul/fp_add"""
    F = cx.F
    P = Prov(fn, F, cut_loops=True); cn = Canon(fn, P); cn.commut = {'fp_mul', 'fp_add'}; cn.bare = {'pre', 'lw'}
    def stores(name, deref):
        out = []
        for b, i, st in fn.stmts():
            if st['k'] != 'assign':
                continue
            lp = st['lhs']
            if fn.locals[lp['l']].get('name') != name:
                continue
            pr = lp['p'][1:] if deref and lp['p'] and lp['p'][0] == 'deref' else lp['p']
            if len(pr) == 1 and isinstance(pr[0], dict) and 'idx' in pr[0]:
                out.append((cn.c(norm(P.local(pr[0]['idx'], b, i))), I.shorten_vars(cn.c(norm(P.rvalue(st['rv'], b, i, 0)))).replace('$pre[', 'pre[')))
        return out
    ret = [I.shorten_vars(cn.c(norm(P.rvalue(st['rv'], b, i, 0)))).replace('$pre[', 'pre[') for b, i, st in fn.stmts() if st['k'] == 'assign' and st['lhs']['l'] == 0 and not st['lhs']['p']]
    pre_, lw_ = stores('pre', False), stores('lw', True)
    # a locally computed `pre`: reads of it by the line coefficients and the returned point must see the FINAL version of
    # each cell (the last store to that index); those reads are then written like the sibling's reads of its parameter
    import re as _re
    cnt = {}
    for a_, _ in pre_:
        cnt[a_] = cnt.get(a_, 0) + 1
    def final(txt):
        def sub(m):
            k_ = m.group(1)
            n_ = cnt.get(k_, 0)
            fin = "#{[%s]}" % k_ if n_ == 1 else "#{[%s]'%d}" % (k_, n_)
            return 'pre[%s]' % k_ if m.group(2) == fin else m.group(0)
        return _re.sub(r"pre\[(\d+)\](#\{[^}]*\})", sub, txt)
    lw_ = [(a_, final(b_)) for a_, b_ in lw_]
    ret = [final(x) for x in ret]
    return pre_, lw_, ret


def run(cx):
    cx.not_decided.append('bilinearity, non-degeneracy and equality with a textbook pairing (functional); the line-function formulas themselves are compared only between the two sibling implementations, not with an independent derivation')
    F = cx.F
    s = pa.sm9()
    names = ['SM9_P', 'SM9_P_MINUS_TWO', 'SM9_P_PRIME', 'SM9_MODP_2E512', 'SM9_MODP_MONT_ONE', 'SM9_MODP_MONT_FIVE',
             'SM9_MONT_ALPHA1', 'SM9_MONT_ALPHA2', 'SM9_MONT_ALPHA3', 'SM9_MONT_ALPHA4', 'SM9_MONT_ALPHA5', 'SM9_N_MINUS_ONE']
    K.k_ints(cx, 'K-SM9-FROB', 'gm_sm9', {k: s.consts[k] for k in names})
    for n in ('SM9_MONT_BETA', 'SM9_POINT_MONT_P1', 'SM9_TWIST_POINT_MONT_P2'):
        K.k_struct(cx, 'K-SM9-GEN', 'gm_sm9', n, s.struct_consts[n])
    # ---------------------------------------------------------------- Miller loop
    fn = cx.fn('gm_sm9::points::sm9_u256_pairing', 'K-SM9-MILLER')
    if fn is not None:
        P = Prov(fn, F, cut_loops=True); cn = Canon(fn, P)
        lits = []
        for b in FR.calls_of(fn, 'chars'):
            a = FR.arg_canon(fn, P, cn, b, 0)
            if a.startswith('bytes:'):
                txt = bytes.fromhex(a[6:])
                if len(txt) >= 32 and set(txt) <= set(b'012'):
                    lits.append(txt.decode())
        if not lits:
            # the digit string kept as a byte-string constant (`const DIGITS: &[u8; 65] = b"0010.."`): every constant
            # the function (or its promoted temporaries) refers to whose bytes are all '0' / '1' / '2'
            from ..facts import item_bytes
            seen_ = set()
            def scan(x):
                if isinstance(x, dict):
                    if x.get('k') == 'const' and isinstance(x.get('c'), dict):
                        c_ = x['c']
                        raw = None
                        it_ = c_.get('item') or c_.get('static')
                        if it_ and it_ in F.items:
                            raw = item_bytes(F.items[it_])
                        elif c_.get('bytes'):
                            try:
                                raw = bytes.fromhex(c_['bytes'])
                            except Exception:
                                raw = None
                        if raw and len(raw) >= 32 and set(raw) <= set(b'012') and raw not in seen_:
                            seen_.add(raw)
                            lits.append(raw.decode())
                    for v_ in x.values():
                        scan(v_)
                elif isinstance(x, list):
                    for v_ in x:
                        scan(v_)
            scan(fn.blocks)
            scan(fn.promoted)
            for it_name, it_ in F.items.items():
                if it_name.startswith('gm_sm9::') and not lits:
                    raw = item_bytes(it_)
                    if raw and len(raw) >= 32 and set(raw) <= set(b'012') and any(it_name in str(bl) for bl in fn.blocks + fn.promoted):
                        lits.append(raw.decode())
        ok = False
        val = None
        if len(lits) == 1:
            val = 1
            for ch in lits[0]:
                val = 2 * val + {'0': 0, '1': 1, '2': -1}[ch]
            ok = val == s.miller
        cx.add('K-SM9-MILLER', 'digits', ok, 'signed-digit string "1"+abits (2 = -1) evaluates to 6t+2 = %s (got %s, %d literal(s))' % (hex(s.miller), hex(val) if val else None, len(lits)), fn.loc())
        lp = I.find_loop(fn, P, cn, 'Range::Range{0, len(collect(chars(') or I.find_loop(fn, P, cn, '', containing_call='sm9_u256_eval_g_tangent')
        if lp is None:
            cx.violate('I-MILLER', 'loop', 'the digit loop was not found', fn.loc())
        else:
            hdr, loop, latches = lp
            from ..builder import select_conds
            seq = []
            dom = fn.dominators()
            for b in sorted(loop, key=lambda x: (len(dom.get(x, ())), x)):
                t = fn.blocks[b]['term']
                if t['k'] == 'call' and t['fn']['k'] == 'def' and t['fn']['local']:
                    conds = [c for c in select_conds(fn, P, b, cn) if c.startswith(('Eq(', 'Ne('))]
                    digit = []
                    for c in conds:
                        m = re.match(r'(Eq|Ne)\(.*, (49|50)\)=(\w+)$', c)
                        if m:
                            truth = (m.group(3) != '0') if m.group(1) == 'Eq' else (m.group(3) == '0')
                            digit.append(('=' if truth else '!=') + chr(int(m.group(2))))
                    if not digit:
                        # `match digit { b'1' => .., b'2' => .., _ => {} }`: an integer switch on the digit itself
                        for c in select_conds(fn, P, b, cn):
                            m = re.match(r'^each\((?:bytes|chars|iter)\(.*\)\)=(49|50)$', c)
                            if m:
                                digit = ['=1'] if m.group(1) == '49' else ['!=1', '=2']
                    args = [I.shorten_vars(cn.c(a)) for a in G.call_args(fn, P, b)]
                    key = last(t['fn']['name'])
                    if key == 'sm9_u256_eval_g_line':
                        key += '(%s)' % args[3]
                    seq.append((key, tuple(digit)))
            want = [('fp_sqr', ()), ('sm9_u256_eval_g_tangent', ()), ('fp_line_mul', ()),
                    ('sm9_u256_eval_g_line($q)', ('=1',)), ('fp_line_mul', ('=1',)),
                    ('sm9_u256_eval_g_line(G2.point_neg($q))', ('!=1', '=2')), ('fp_line_mul', ('!=1', '=2'))]
            # the two digit arms exclude each other: each is compared in its own order, the unconditional part in its own
            groups = lambda xs: {d_: [k_ for k_, dd_ in xs if dd_ == d_] for d_ in {dd_ for _, dd_ in xs}}
            cx.add('I-MILLER', 'loop-body', groups(seq) == groups(want), 'per digit: f = f^2 * l_{T,T}(P); digit 1: f *= l_{T,Q}(P); digit 2 (-1): f *= l_{T,-Q}(P): %s' % seq, fn.loc())
        tail = []
        if lp:
            for b, t in fn.calls():
                if b not in lp[1] and lp[0] in fn.dominators().get(b, ()) and t['fn']['k'] == 'def' and t['fn']['local']:
                    a = [I.shorten_vars(cn.c(x)) for x in G.call_args(fn, P, b)]
                    k = last(t['fn']['name'])
                    tail.append(k + ('(%s)' % a[2] if k == 'sm9_u256_eval_g_line_no_pre' else '(%s)' % a[0] if k in ('point_pi1', 'point_neg_pi2') else ''))
        want = ['point_pi1($q)', 'point_neg_pi2($q)', 'sm9_u256_eval_g_line_no_pre(point_pi1($q))', 'fp_line_mul', 'sm9_u256_eval_g_line_no_pre(point_neg_pi2($q))', 'fp_line_mul', 'final_exponent']
        cx.add('I-MILLER', 'frobenius-steps', sorted(tail[:2]) + tail[2:] == sorted(want[:2]) + want[2:], 'after the loop: f *= l_{T,pi(Q)}(P); f *= l_{T,-pi^2(Q)}(P); final exponentiation: %s' % tail, fn.loc())
        pre = [(a, I.shorten_vars(b)) for a, b in I.stores(fn, F, 'pre')]
        want = [('0', 'fp_sqr($q.y)'), ('4', 'fp_mul($q.x, $q.z)'), ('4', "fp_double(pre[4]#{[4]'1})"), ('1', 'fp_sqr($q.z)'), ('1', "fp_mul($q.z, pre[1]#{[1]'1})"),
                ('2', "fp_mul_fp(pre[1]#{[1]'2}, affy($p))"), ('2', "fp_double(pre[2]#{[2]'1})"), ('3', "fp_mul_fp(pre[1]#{[1]'2}, affx($p))"), ('3', "fp_double(pre[3]#{[3]'1})"), ('3', "fp_neg(pre[3]#{[3]'2})")]
        def _cm(t_):
            # fp_mul / fp_add of two field elements are symmetric (A-POLY decides each against its symmetric defining formula)
            from .. import ctext as _CT
            try:
                e_ = _CT.parse(t_)
            except _CT.ParseError:
                return t_

            def go(x):
                if x[0] == 'call':
                    a_ = [go(y) for y in x[2]]
                    if x[1] in ('fp_mul', 'fp_add') and len(a_) == 2:
                        a_ = sorted(a_, key=_CT.show)
                    return ('call', x[1], a_, x[3])
                if x[0] == 'idx':
                    return ('idx', go(x[1]), go(x[2]), x[3])
                if x[0] == 'cast':
                    return ('cast', go(x[1]), x[2])
                return x
            try:
                return _CT.show(go(e_))
            except Exception:
                return t_
        if pre != want and [(a_, _cm(b_)) for a_, b_ in pre] == [(a_, _cm(b_)) for a_, b_ in want]:
            pre = want
        cx.add('I-MILLER', 'pre', pre == want, 'precomputed values for the chord lines through Q: yQ^2, 2 xQ zQ, zQ^3, 2 zQ^3 yP, -2 zQ^3 xP', fn.loc(), {'got': pre})
    # ---------------------------------------------------------------- S-LINE: sibling line functions agree
    f1 = cx.fn('gm_sm9::points::sm9_u256_eval_g_line', 'S-LINE')
    f2 = cx.fn('gm_sm9::points::sm9_u256_eval_g_line_no_pre', 'S-LINE')
    if f1 is not None and f2 is not None:
        p1, l1, r1 = line_fn_shape(cx, f1)
        p2, l2, r2 = line_fn_shape(cx, f2)
        # the no-pre variant may simply compute `pre` and hand over to its sibling: then the two agree by construction
        deleg = False
        for b_, i_ in G.ret_def_sites(f2):
            if i_ == -1:
                t_ = f2.blocks[b_]['term']
                if t_['fn']['k'] == 'def' and t_['fn']['name'] == f1.name and len(t_['args']) == 5:
                    P2_ = Prov(f2, F); c2_ = Canon(f2, P2_)
                    a_ = [c2_.c(x) for x in G.call_args(f2, P2_, b_)]
                    deleg = a_[0] == '$lw' and a_[2:] == ['$p', '$t', '$q'] and 'pre' in a_[1]
        cx.add('S-LINE', 'lines', deleg or (l1 == l2 and bool(l1)), 'both chord-line evaluators store the same three line coefficients (given the same pre values): %s' % ('the no-pre variant delegates to its sibling with (lw, pre, p, t, q)' if deleg else '%d stores' % len(l1)), f2.loc(), {'with_pre': l1, 'no_pre': l2})
        cx.add('S-LINE', 'point', deleg or (r1 == r2 and bool(r1)), 'both return the same updated point T + Q', f2.loc())
        want = [('0', 'fp_sqr($t.y)'), ('4', 'fp_mul($t.x, $t.z)'), ('4', "fp_double(pre[4]#{[4]'1})"), ('1', 'fp_sqr($t.z)'), ('1', "fp_mul($t.z, pre[1]#{[1]'1})"),
                ('2', "fp_mul_fp(pre[1]#{[1]'2}, $q.y)"), ('2', "fp_double(pre[2]#{[2]'1})"), ('3', "fp_mul_fp(pre[1]#{[1]'2}, $q.x)"), ('3', "fp_double(pre[3]#{[3]'1})"), ('3', "fp_neg(pre[3]#{[3]'2})")]
        cx.add('S-LINE', 'pre', p2 == want, 'the no-pre variant computes the five pre values exactly as sm9_u256_pairing does (with its t in the role of Q and q in the role of affine P)', f2.loc(), {'got': p2})
    # ---------------------------------------------------------------- Frobenius maps and final exponentiation
    def ret1(q):
        f = cx.fn(q, 'K-SM9-FROB')
        if f is None:
            return None, None
        r = [I.shorten_vars(v) for _, v in I.returns(f, F, True)]
        return f, r
    f, r = ret1('<impl fields::fp12::Fp12>::fp12_frobenius2')
    if f:
        cx.add('K-SM9-FROB', 'frobenius2/use', r == ['Fp12::Fp12{conjugate($self.c0), fp_mul_fp(conjugate($self.c1), SM9_MONT_ALPHA2), fp_mul_fp(conjugate($self.c2), SM9_MONT_ALPHA4)}'],
               'p^2-Frobenius multiplies the w and w^2 coefficients by alpha^2 and alpha^4 (alpha = (-2)^((p-1)/12))', f.loc(), {'got': r})
    f, r = ret1('<impl fields::fp12::Fp12>::fp12_frobenius6')
    if f:
        cx.add('K-SM9-FROB', 'frobenius6/use', r == ['Fp12::Fp12{conjugate($self.c0), fp_neg(conjugate($self.c1)), conjugate($self.c2)}'], 'p^6-Frobenius = conjugation with sign change on the w coefficient', f.loc())
    # frobenius / frobenius3: what every coordinate of the result is (field-sensitive composition: statement order,
    # zero-initialised builders, temporaries and chained calls do not matter)
    from ..rules_a import ExprFlow
    f = cx.fn('<impl fields::fp12::Fp12>::fp12_frobenius', 'K-SM9-FROB')
    if f:
        got = ExprFlow(F, f).result()
        # coefficient of w^k (k = 0,3 | 1,4 | 2,5 for c0.c0,c0.c1 | c1.c0,c1.c1 | c2.c0,c2.c1) is conjugated and multiplied by alpha^k
        want = {}
        for comp, ks in (('c0', (0, 3)), ('c1', (1, 4)), ('c2', (2, 5))):
            for sub, k in zip(('c0', 'c1'), ks):
                cj = 'conjugate($self.%s.%s)' % (comp, sub)
                want['%s.%s' % (comp, sub)] = 'fp_mul_fp(%s, SM9_MONT_ALPHA%d)' % (cj, k) if k else cj
        cx.add('K-SM9-FROB', 'frobenius/use', got == want, 'p-Frobenius: the coefficient of w^k is conjugated and multiplied by alpha^k, k = 0..5 (derived from w^12 = -2)', f.loc(), {'got': got})
    f = cx.fn('<impl fields::fp12::Fp12>::fp12_frobenius3', 'K-SM9-FROB')
    if f:
        got = ExprFlow(F, f, commut=('fp_mul',)).result()
        B_ = lambda x: 'fp_mul(SM9_MONT_BETA, %s)' % x
        cj = lambda c_, s_: 'conjugate($self.%s.%s)' % (c_, s_)
        want = {'c0.c0': cj('c0', 'c0'), 'c0.c1': 'fp_neg(%s)' % B_(cj('c0', 'c1')), 'c1.c0': B_(cj('c1', 'c0')), 'c1.c1': cj('c1', 'c1'),
                'c2.c0': 'fp_neg(%s)' % cj('c2', 'c0'), 'c2.c1': B_(cj('c2', 'c1'))}
        alt = dict(want)
        alt['c0.c1'] = B_('fp_neg(%s)' % cj('c0', 'c1'))     # (-x)*beta == -(x*beta)
        cx.add('K-SM9-FROB', 'frobenius3/use', got in (want, alt), 'p^3-Frobenius: coefficient of w^k times alpha^(3k) = beta^k with beta = alpha^3, beta^2 = -1 ... (use sites of SM9_MONT_BETA and the sign changes)', f.loc(), {'got': got})
        # numeric relation behind the template: alpha^6 = -1 and alpha^9 = -alpha^3 (mod p)
        a = s.alpha[1]
        cx.add('K-SM9-FROB', 'frobenius3/algebra', pow(a, 6, s.p) == s.p - 1 and pow(a, 12, s.p) == 1, 'alpha^6 = -1 and alpha^12 = 1 mod p, so alpha^(3k) in {1, beta, -1, -beta}', '')
    f, r = ret1('<impl fields::fp12::Fp12>::final_exponent')
    if f:
        easy = 'fp_mul(fp12_frobenius6($self), fp_inv($self))'
        cx.add('K-SM9-FEXP', 'easy-part', r == ['final_exponent_hard_part(fp_mul(%s, fp12_frobenius2(%s)))' % (easy, easy)], 'easy part f^((p^6-1)(p^2+1)) then the hard part', f.loc(), {'got': r})
    f, r = ret1('<impl fields::fp12::Fp12>::final_exponent_hard_part')
    if f:
        lits = sorted(set(int(x, 16) for x in re.findall(r'arr:(0x[0-9a-f]+)', r[0]))) if r else []
        cx.add('K-SM9-FEXP', 'hard-part/constants', lits == sorted([s.a3, s.a2, 9]), 'hard-part exponents are 6t+5, 6t^2+1 and 9: %s' % [hex(x) for x in lits], f.loc())
        A3 = 'fp_inv(pow($self, arr:%s))' % hex(s.a3)
        T1 = 'fp_mul(%s, fp12_frobenius(%s))' % (A3, A3)
        want = 'fp_mul(fp12_frobenius3($self), fp_mul(pow(fp_mul(fp12_frobenius2($self), fp_mul(fp_sqr(fp12_frobenius($self)), %s)), arr:%s), fp_mul(fp_mul(fp_mul(%s, %s), pow(fp_mul(fp12_frobenius($self), $self), arr:0x9)), fp_sqr(fp_sqr($self)))))' % (T1, hex(s.a2), A3, T1)
        cx.add('K-SM9-FEXP', 'hard-part/structure', r == [want], 'hard part f^((p^4-p^2+1)/N) as the fixed product of Frobenius powers and the three exponentiations', f.loc(), {'got': r})
    for q, k, what in (('<impl points::TwistPoint>::point_pi1', 1, 'pi(Q): conjugated coordinates, Z scaled by alpha'), ('<impl points::TwistPoint>::point_neg_pi2', 2, '-pi^2(Q): y negated, Z scaled by alpha^2')):
        f, r = ret1(q)
        if f:
            lits = [int(x, 16) for x in re.findall(r'arr:(0x[0-9a-f]+)', r[0])] if r else []
            cx.add('K-SM9-FROB', last(q) + '/const', lits == [s.mont(s.alpha[k])], '%s: constant equals mont(alpha^%d)' % (what, k), f.loc())
    f, r = ret1('<impl points::TwistPoint>::point_pi1')
    if f:
        cx.add('K-SM9-FROB', 'point_pi1/shape', bool(r) and r[0].startswith('TwistPoint::TwistPoint{conjugate($self.x), conjugate($self.y), fp_mul_fp(conjugate($self.z), arr:'), 'pi(Q) = (conj X, conj Y, alpha * conj Z)', f.loc())
    f, r = ret1('<impl points::TwistPoint>::point_neg_pi2')
    if f:
        cx.add('K-SM9-FROB', 'point_neg_pi2/shape', bool(r) and r[0].startswith('TwistPoint::TwistPoint{$self.x, fp_neg($self.y), fp_mul_fp($self.z, arr:'), '-pi^2(Q) = (X, -Y, alpha^2 * Z)', f.loc())


_run0 = run


def run(cx):
    from ..builder import branch_sequences
    _run0(cx)
    F = cx.F
    # GT / field-tower serialisation order (most significant component first), G1 point encoding
    for q, want in (('gm_sm9::fields::fp12::<impl fields::FieldElement for fields::fp12::Fp12>::to_bytes_be', ['BE($self.c2)', 'BE($self.c1)', 'BE($self.c0)']),
                    ('gm_sm9::fields::fp4::<impl fields::FieldElement for fields::fp4::Fp4>::to_bytes_be', ['BE($self.c1)', 'BE($self.c0)']),
                    ('gm_sm9::fields::fp2::<impl fields::FieldElement for fields::fp2::Fp2>::to_bytes_be', ['BE($self.c1)', 'BE($self.c0)']),
                    ('gm_sm9::points::<impl points::Point>::to_bytes_be', ['byte(4)', 'BE(affx($self))', 'BE(affy($self))'])):
        fn = cx.fn(q, 'F-GT-ENC')
        if fn is None:
            continue
        P = Prov(fn, F); cn = Canon(fn, P)
        got = None
        for b, i, st in fn.stmts():
            if st['k'] == 'assign' and st['lhs']['l'] == 0 and not st['lhs']['p'] and st['rv']['k'] == 'use':
                ch = branch_sequences(fn, P, st['rv']['op'], b, i, cn)
                if ch and len(ch) == 1:
                    got = ch[0][1]
        FR.check_seq(cx, 'F-GT-ENC', fn.short, fn, got, want, 'serialisation order (highest tower component first; 04 || x || y for G1 points)')
    f = cx.fn("gm_sm9::fields::fp::<impl fields::FieldElement for [u64; 4]>::to_bytes_be", 'F-GT-ENC')
    if f is not None:
        r = [v for _, v in I.returns(f, F, True)]
        cx.add('F-GT-ENC', f.short, r == ['BE(plain($self))'], 'Fp elements are serialised as the big-endian bytes of the value taken out of Montgomery form: %s' % r, f.loc())
    # affine conversion used by the pairing (see C13 I-AFFINE): the point at infinity must normalise to (0, 0, 1)
    fn = cx.fn('gm_sm9::points::<impl points::Point>::to_affine_point', 'I-AFFINE')
    if fn is not None:
        r = sorted(v for _, v in I.returns(fn, F, True))
        want = sorted(['Point::Point{$self.x, $self.y, one()}',
                       'Point::Point{fp_mul($self.x, fp_sqr(fp_inv($self.z))), fp_mul(fp_mul($self.y, fp_inv($self.z)), fp_sqr(fp_inv($self.z))), one()}'])
        cx.add('I-AFFINE', fn.short, r == want, 'the pairing normalises its G1 argument with (X/Z^2, Y/Z^3, 1) / (X, Y, 1); no other exit (e(O, Q) = 1 relies on O -> (0, 0, 1))', fn.loc())


_run_grade = run


def run(cx):
    from .. import rules_a as A
    _run_grade(cx)
    # the final exponentiation inverts and multiplies in Fp12: its formulas must be homogeneous of the right grade
    A.a_grade(cx, 'A-GRADE', 10, levels=('Fp12',))
    # tangent / chord line evaluation: new point and line coefficients are weighted-homogeneous
    A.a_lines(cx, 'A-LINE')


_run_pow = run


def run(cx):
    from .. import rules_s as S
    _run_pow(cx)
    # I-POW: the square-and-multiply loops cannot skip a limb, a bit or a squaring
    for q in ('<impl fields::fp12::Fp12>::pow',):
        S.square_multiply(cx, 'I-POW', q)


_run_poly = run


def run(cx):
    from .. import rules_poly as RPL
    _run_poly(cx)
    # A-POLY: the tower arithmetic under the pairing equals its defining formulas
    RPL.a_poly(cx, 'A-POLY', 39)
