"""C02 SM4 block cipher matches GB/T 32907 and decrypt inverts encrypt"""
from .. import rules_k as K, rules_p as RP, rules_i as I, rules_g as G, frame as FR, paramalg as pa
import re
from ..prov import Prov, norm
from ..builder import Canon

I8 = 'each(Range::Range{0, 8})'
IDX = ['MulWithOverflow(%s, 4).0' % I8] + ['AddWithOverflow(MulWithOverflow(%s, 4).0, %d).0' % (I8, k) for k in (1, 2, 3)]


def rounds(var, f, key):
    """the four unrolled rounds of one iteration; every operand carries its memory version: word r is read before it is
    rewritten (#{E|[r]}: the initial value or the previous iteration's store), words already rewritten in this iteration
    are read after their store (#{[a]})"""
    def rd(a, r):
        return '%s[%d]#{%s[%d]}' % (var, a, '' if a < r else 'E|', a)
    out = []
    for r in range(4):
        a, b, c = [(r + 1 + k) % 4 for k in range(3)]
        out.append((str(r), 'BitXor(%s, %s(BitXor(BitXor(BitXor(%s, %s), %s), %s)))' % (rd(r, r), f, rd(a, r), rd(b, r), rd(c, r), key(r))))
    return out


def recurrence(fn, F, var, f, keyname, keyidx, rkvar=None):
    """Decide X_{s+4} = X_s ^ f(X_{s+1} ^ X_{s+2} ^ X_{s+3} ^ KEY[keyidx(s)]) for s = 0..31 *whatever the loop shape*:
    the index arithmetic of every element store and read is evaluated for every iteration of the (constant-trip) loop,
    and an abstract state records which word of the sequence X_0..X_35 each cell of `var` holds; the XOR operands may
    come in any order; every read must see the memory version current at its store (no value carried across a write).
    With rkvar: also rk_p = X_{p+4} for p = 0..31, each stored once.  Returns (True, summary) / (False, reason) /
    None when the stores are not of this kind at all (the caller keeps its template verdict)."""
    from .. import ctext as CT
    P = Prov(fn, F, cut_loops=True); cn = Canon(fn, P)
    dom = fn.dominators()
    names = (var,) + ((rkvar,) if rkvar else ())
    lens = {}
    for l_ in fn.locals:
        m_ = re.match(r'^\[u32; (\d+)\]$', (l_.get('ty') or '').strip())
        if m_ and l_.get('name'):
            lens[l_['name']] = int(m_.group(1))
    lens.update({'CK': 32, '$self.rk': 32, 'FK': 4})
    ev = []
    for b, i, st in fn.stmts():
        if st['k'] != 'assign':
            continue
        lp = st['lhs']
        nm = fn.locals[lp['l']].get('name')
        if nm not in names or len(lp['p']) != 1 or not isinstance(lp['p'][0], dict):
            continue
        q = lp['p'][0]
        if 'idx' in q:
            it = cn.c(norm(P.local(q['idx'], b, i)))
        elif 'cidx' in q:
            it = str(q['cidx'])
        else:
            continue
        ve = norm(P.rvalue(st['rv'], b, i, 0))
        ev.append(((b, i), 'store', nm, I.shorten_vars(it), I.shorten_vars(cn.c(ve)), P.stale_reads(ve, b, i)))
    for b in FR.calls_of(fn, 'copy_from_slice'):
        n_ = len(fn.blocks[b]['stmts'])
        from ..builder import root_local
        t_ = fn.blocks[b]['term']
        txt = []
        for k_ in (0, 1):
            tx = I.shorten_vars(FR.arg_canon(fn, P, cn, b, k_))
            rl = root_local(P, t_['args'][k_], b, n_) if t_['args'][k_]['k'] in ('copy', 'move') else None
            own = fn.locals[rl].get('name') if rl is not None else None
            if own not in names and t_['args'][k_]['k'] in ('copy', 'move'):
                # a chunk handed out by `x.chunks_exact_mut(n)` / `x.iter_mut()` belongs to x
                for x_ in P.operand(t_['args'][k_], b, n_).walk():
                    if x_.k == 'call' and x_.name and x_.name.split('::')[-1] in ('iter_mut', 'chunks_exact_mut', 'chunks_mut', 'chunks_exact', 'chunks') and x_.site and x_.site[1] == -1:
                        tb_ = fn.blocks[x_.site[0]]['term']
                        if tb_['args'] and tb_['args'][0]['k'] in ('copy', 'move'):
                            r2 = root_local(P, tb_['args'][0], x_.site[0], len(fn.blocks[x_.site[0]]['stmts']))
                            own = fn.locals[r2].get('name') if r2 is not None else None
                            break
            if own in names:
                # the array is named by its owner (an array that is only written in bulk is otherwise shown by its initialiser)
                try:
                    nd = CT.parse(tx)
                    if nd[0] == 'call' and nd[1] in ('index', 'index_mut') and len(nd[2]) == 2:
                        tx = CT.show(('call', nd[1], [('sym', own), nd[2][1]], None))
                    else:
                        tx = own
                except CT.ParseError:
                    pass
            txt.append(tx)
        ev.append(((b, n_), 'copy', None, txt[0], txt[1], []))
    if not any(e_[1] == 'store' and e_[2] == var for e_ in ev):
        return None
    sccs = [c for c in fn.sccs() if len(c) > 1 or any(b_ in fn.succ(b_) for b_ in c)]
    def loop_of(b):
        for c in sccs:
            if b in c:
                return frozenset(c)
        return None
    body_loops = {loop_of(e_[0][0]) for e_ in ev if e_[1] == 'store' and e_[2] == var and ('%s[' % var) in e_[4]}
    body_loops.discard(None)
    if len(body_loops) != 1:
        return (False, 'the recurrence stores are not inside exactly one loop')
    body = list(body_loops)[0]
    order = lambda e_: (len(dom.get(e_[0][0], ())), e_[0][0], e_[0][1])
    head = min(body, key=lambda b_: len(dom.get(b_, ())))
    pre = sorted([e_ for e_ in ev if e_[0][0] not in body and e_[0][0] in dom.get(head, ())], key=order)
    inl = sorted([e_ for e_ in ev if e_[0][0] in body], key=order)
    post = sorted([e_ for e_ in ev if e_[0][0] not in body and e_[0][0] not in dom.get(head, ())], key=order)
    cells, rk = {}, {}
    state = {'next': 0}
    why = []

    def word_of(node, env):
        """(array name, index) of an element read: name[idx] or index(name, Range{a, b})[j]"""
        if node[0] != 'idx':
            return None
        base, ix = node[1], node[2]
        if base[0] == 'sym':
            v = CT.ev(ix, env, lens)
            return (base[1], v) if v is not None else None
        if base[0] == 'call' and base[1] in ('index', 'index_mut') and len(base[2]) == 2 and base[2][0][0] == 'sym' and base[2][1][0] == 'aggr' \
                and base[2][1][1] == 'Range::Range':
            a_, b_ = CT.ev(base[2][1][2][0], env, lens), CT.ev(base[2][1][2][1], env, lens)
            j_ = CT.ev(ix, env, lens)
            if None in (a_, b_, j_) or not 0 <= j_ < b_ - a_:
                return None
            return (base[2][0][1], a_ + j_)
        return None

    def span_of(text, env):
        """(array name, first index, length) of a whole array or a sub-slice given as canonical text"""
        try:
            node = CT.parse(text)
        except CT.ParseError:
            return None
        if node[0] == 'ver':
            node = node[1]
        if node[0] == 'call' and node[1] in ('index', 'index_mut') and len(node[2]) == 2 and node[2][0][0] == 'ver':
            node = ('call', node[1], [node[2][0][1], node[2][1]], None)
        if node[0] == 'sym' and node[1] in lens:
            return (node[1], 0, lens[node[1]])
        if node[0] == 'call' and node[1] in ('index', 'index_mut') and len(node[2]) == 2 and node[2][0][0] == 'sym' and node[2][1][0] == 'aggr':
            r_ = node[2][1]
            if r_[1] == 'Range::Range':
                a_, b_ = CT.ev(r_[2][0], env, lens), CT.ev(r_[2][1], env, lens)
                if None not in (a_, b_) and b_ >= a_:
                    return (node[2][0][1], a_, b_ - a_)
        return None

    def do(e_, env):
        _, kind, nm, it, vt, stale = e_
        if stale:
            why.append('a value read from %s is carried across a later write of the same cell' % var)
            return False
        if kind == 'copy':
            d_, s_ = span_of(it, env), span_of(vt, env)
            if d_ is None or s_ is None:
                return True          # a copy that does not concern these arrays
            if d_[0] == rkvar and s_[0] == var and d_[2] == s_[2]:
                for j_ in range(d_[2]):
                    if d_[1] + j_ in rk or s_[1] + j_ not in cells:
                        why.append('round key %d is stored twice or from an undefined word' % (d_[1] + j_))
                        return False
                    rk[d_[1] + j_] = cells[s_[1] + j_]
                return True
            if d_[0] in names:
                why.append('unexpected bulk copy into %s' % d_[0])
                return False
            return True
        try:
            ix, val = CT.parse(it), CT.parse(vt)
        except CT.ParseError as ex_:
            why.append(str(ex_))
            return False
        cell = CT.ev(ix, env, lens)
        if cell is None:
            why.append('store index %s is not a function of the loop counter' % it[:60])
            return False
        if nm == rkvar:
            w_ = word_of(val, env)
            if w_ is None or w_[0] != var or w_[1] not in cells or cell in rk:
                why.append('rk[%d] is not a single defined word of %s (or is stored twice): %s' % (cell, var, vt[:80]))
                return False
            rk[cell] = cells[w_[1]]
            return True
        leaves = CT.flatten_xor(val)
        fl = [x for x in leaves if x[0] == 'call' and x[1].split('::')[-1] == f and len(x[2]) == 1]
        own = [x for x in leaves if x[0] == 'idx']
        if len(leaves) != 2 or len(fl) != 1 or len(own) != 1:
            if ('%s[' % var) not in vt:
                # an initialiser of one of the first four words (its value is the I-SM4 new/fk obligation)
                if cell in cells or cell > 3:
                    why.append('word %d initialised twice or out of place' % cell)
                    return False
                cells[cell] = cell
                return True
            why.append('a store into %s is not  word ^ %s(..)' % (var, f))
            return False
        w0 = word_of(own[0], env)
        inner = CT.flatten_xor(fl[0][2][0])
        ws = [word_of(x, env) for x in inner]
        if w0 is None or w0[0] != var or w0[1] not in cells or len(inner) != 4 or None in ws:
            why.append('operands are not three words of %s and one key word: %s' % (var, vt[:100]))
            return False
        s0 = cells[w0[1]]
        kw = [w for w in ws if w[0] != var]
        vw = [w for w in ws if w[0] == var]
        if len(kw) != 1 or kw[0][0] != keyname or len(vw) != 3 or any(w[1] not in cells for w in vw):
            why.append('operands are not three defined words of %s and one word of %s' % (var, keyname))
            return False
        if sorted(cells[w[1]] for w in vw) != [s0 + 1, s0 + 2, s0 + 3]:
            why.append('step %d combines X_%d with X_%s (want X_%d, X_%d, X_%d)' % (state['next'], s0, sorted(cells[w[1]] for w in vw), s0 + 1, s0 + 2, s0 + 3))
            return False
        if s0 != state['next']:
            why.append('step %d starts from X_%d' % (state['next'], s0))
            return False
        if kw[0][1] != keyidx(s0):
            why.append('step %d uses %s[%d] (want %s[%d])' % (s0, keyname, kw[0][1], keyname, keyidx(s0)))
            return False
        cells[cell] = s0 + 4
        state['next'] += 1
        return True

    if not [e_ for e_ in pre if e_[1] == 'store' and e_[2] == var]:
        cells.update({0: 0, 1: 1, 2: 2, 3: 3})        # whole-array initialiser (I-SM4 new/fk / load)
    for e_ in pre:
        if not do(e_, {}):
            return (False, why[0])
    ctr = set()
    for e_ in inl:
        for t_ in (e_[3], e_[4]):
            try:
                ctr |= CT.counters(CT.parse(t_))
            except CT.ParseError as ex_:
                return (False, str(ex_))
    if len(ctr) != 1:
        return (False, 'the loop body uses %d loop counters' % len(ctr))
    C = list(ctr)[0]
    domv = CT.counter_domain(C, lens)
    if domv is None:
        return (False, 'the loop counter %s does not run over a constant range' % C)
    for t_ in domv:
        for e_ in inl:
            if not do(e_, {C: t_}):
                return (False, '%s (iteration %s = %d)' % (why[0], C, t_))
    for e_ in post:
        if not do(e_, {}):
            return (False, why[0])
    if state['next'] != 32:
        return (False, '%d rounds instead of 32' % state['next'])
    if rkvar is not None:
        bad = [p_ for p_ in range(32) if rk.get(p_) != p_ + 4]
        if bad:
            return (False, 'round key %d holds X_%s (want X_%d)' % (bad[0], rk.get(bad[0]), bad[0] + 4))
    top = sorted(cells.items(), key=lambda kv: -kv[1])[:4]
    return (True, '32 steps in order; the last four words X_35..X_32 are in cells %s' % [c_ for c_, _ in top], {v_: c_ for c_, v_ in cells.items()})


def words(p):
    return 'array{%s}' % ', '.join('from_be_bytes:u32(unwrap(try_into(index($%s, Range::Range{%d, %d}))))' % (p, 4 * k, 4 * k + 4) for k in range(4))


def ttable(expr, sbox, rots):
    """decide a table-driven T / T' : returns (ok, explanation) or None when the expression is not of that form"""
    import re
    from ..rules_poly import parse, Undecided
    try:
        tree = parse(expr)
    except Undecided:
        return None
    terms = []
    def flat(t):
        if t[1] is not None and t[0] == 'BitXor' and len(t[1]) == 2:
            flat(t[1][0]); flat(t[1][1])
        else:
            terms.append(t)
    flat(tree)
    if len(terms) != 4:
        return None
    def L(b):
        r = b
        for k in rots:
            r ^= ((b << k) | (b >> (32 - k))) & 0xffffffff
        return r
    POS = {'((Shr($val, 24) as u8) as usize)': 24, '((Shr($val, 16) as u8) as usize)': 16, '((Shr($val, 8) as u8) as usize)': 8, '(($val as u8) as usize)': 0}
    seen = set()
    for t in terms:
        rot = 0
        if t[1] is not None and t[0] in ('rotate_right', 'rotate_left') and len(t[1]) == 2 and t[1][1][1] is None and t[1][1][0].isdigit():
            rot = int(t[1][1][0]) % 32
            if t[0] == 'rotate_right':
                rot = (32 - rot) % 32
            t = t[1][0]
        if t[1] is not None:
            return None
        m = re.match(r'^arr:0x([0-9a-f]+)((?:\[\d+\])?)\[(.*)\]$', t[0])
        if not m or m.group(3) not in POS:
            return None
        v = int(m.group(1), 16)
        off = int(m.group(2)[1:-1]) * 256 if m.group(2) else 0
        sh = POS[m.group(3)]
        if sh in seen:
            return (False, 'byte at bit %d of the input is used twice' % sh)
        seen.add(sh)
        for b in range(256):
            e = (v >> (32 * (off + b))) & 0xffffffff
            got = ((e << rot) | (e >> (32 - rot))) & 0xffffffff if rot else e
            want = L((sbox[b] << sh) & 0xffffffff)
            if got != want:
                return (False, 'table entry 0x%02x for the byte at bit %d gives 0x%08x, L(Sbox(b) << %d) is 0x%08x' % (b, sh, got, sh, want))
    if seen != {24, 16, 8, 0}:
        return (False, 'not every byte of the input is looked up')
    return (True, 'table-driven form: all 4 x 256 looked-up values equal L(Sbox(b) << position)')


def block_fn(cx, name, keyidx, what):
    F = cx.F
    fn = cx.fn('<impl Sm4Cipher>::' + name, 'I-SM4')
    if fn is None:
        return
    P = Prov(fn, F, cut_loops=True); cn = Canon(fn, P)
    st = [(I.shorten_vars(a), I.shorten_vars(b)) for a, b in I.stores(fn, F, 'x')]
    want = rounds('x', 't', lambda r: '$self.rk[%s]' % keyidx(r))
    # primary decision: the recurrence simulated over the constant trip count (any loop shape, any operand order, memory
    # versions checked); the four-per-iteration template is the fallback when the stores are not recognisable at all
    rec = recurrence(fn, F, 'x', 't', '$self.rk', (lambda s_: s_) if name == 'encrypt' else (lambda s_: 31 - s_))
    ok_r = rec[0] if rec is not None else st == want
    cx.add('I-SM4', name + '/rounds', ok_r, '%s: X_{i+4} = X_i ^ T(X_{i+1} ^ X_{i+2} ^ X_{i+3} ^ rk_j) for 32 steps, %s%s' % (name, what, (' -- ' + rec[1]) if rec is not None else ''), fn.loc(), {'got': st, 'want': want})
    init = [I.shorten_vars(cn.c(norm(P.rvalue(s_['rv'], b, i, 0)))) for b, i, s_ in fn.stmts() if s_['k'] == 'assign' and fn.locals[s_['lhs']['l']].get('name') == 'x' and not s_['lhs']['p']]
    cx.add('I-SM4', name + '/load', init == [words('block')], 'the block is read as four big-endian words', fn.loc())
    cfs = []
    for b in FR.calls_of(fn, 'copy_from_slice'):
        cfs.append((FR.arg_canon(fn, P, cn, b, 0), I.shorten_vars(FR.arg_canon(fn, P, cn, b, 1))))
    where = rec[2] if rec is not None and rec[0] else {35 - k: 3 - k for k in range(4)}
    import re as _re
    got = [(a_, _re.sub(r'#\{[^{}]*(?:\{[^{}]*\}[^{}]*)*\}', '', b_)) for a_, b_ in cfs]
    want = [('index_mut(repeat{0}, Range::Range{%d, %d})' % (4 * k, 4 * k + 4), 'to_be_bytes:u32(x[%d])' % where.get(35 - k, -1)) for k in range(4)]
    stale_out = [b for b in FR.calls_of(fn, 'copy_from_slice') if P.stale_reads(norm(P.operand(fn.blocks[b]['term']['args'][1], b, len(fn.blocks[b]['stmts']))), b, len(fn.blocks[b]['stmts']))]
    cx.add('I-SM4', name + '/reverse-out', got == want and not stale_out, 'output = (X35, X34, X33, X32) big-endian (reverse transform R), read after the last round', fn.loc(), {'got': cfs})
    nl = I.find_loop(fn, P, cn, 'Range::Range{0, 8}')
    cx.add('I-SM4', name + '/trip', (rec is not None and rec[0]) or nl is not None, 'the round loop performs 32 rounds', fn.loc())


def run(cx):
    cx.not_decided.append('equality with GB/T 32907 ciphertexts for all (key, block): decided only through structural identity of every component (S-box, FK, CK, tau/L/L\', key schedule, round structure, key order) with the standard, not by evaluation')
    F = cx.F
    K.oracle_selfcheck(cx, 'sm4')
    s = pa.sm4()
    K.k_array(cx, 'K-SM4', 'gm_sm4', 'SBOX', s.sbox, 1)
    K.k_array(cx, 'K-SM4', 'gm_sm4', 'FK', s.fk, 4)
    K.k_array(cx, 'K-SM4', 'gm_sm4', 'CK', s.ck, 4)
    RP.p_immut(cx, 'P-IMMUT', 'gm_sm4::Sm4Cipher', ['<impl Sm4Cipher>::encrypt', '<impl Sm4Cipher>::decrypt'])
    roots = [f.name for q in ('<impl Sm4Cipher>::new', '<impl Sm4Cipher>::encrypt', '<impl Sm4Cipher>::decrypt') for f in F.find_fns(q)]
    if len(roots) == 3:
        RP.p_pure(cx, 'P-PURE', 'Sm4Cipher', roots)
    else:
        cx.lost('P-PURE', 'Sm4Cipher', 'block cipher entry points not found')
    # ---- component functions
    comp = {
        'el': 'BitXor(BitXor(BitXor(BitXor($b, rotate_left($b, 2)), rotate_left($b, 10)), rotate_left($b, 18)), rotate_left($b, 24))',
        'el_prime': 'BitXor(BitXor($b, rotate_left($b, 13)), rotate_left($b, 23))',
    }
    # L and L' are looked through (inlined into T and T'): T = L(tau(x)) whether L is a function or written in place
    comp['t'] = comp['el'].replace('$b', 'tau($val)')
    comp['t_prime'] = comp['el_prime'].replace('$b', 'tau($val)')
    for name, want in comp.items():
        f = F.fns.get('gm_sm4::' + name) if name in ('el', 'el_prime') else cx.fn('gm_sm4::' + name, 'I-SM4')
        if f is not None:
            r = [x[1] for x in I.returns(f, F)]
            ok_ = r == [want]
            how_ = ''
            if not ok_ and name in ('t', 't_prime') and len(r) == 1:
                # the table-driven form: T(x) = XOR over the four bytes of x of rot(TABLE[byte]) with constant tables; every
                # table entry is compared with L(Sbox(b) << position) (exact evaluation of the constants)
                tv = ttable(r[0], pa.sm4().sbox, (2, 10, 18, 24) if name == 't' else (13, 23))
                if tv is not None:
                    ok_, how_ = tv
            cx.add('I-SM4', name, ok_, '%s = %s%s' % (name, [FR.short(x, 200) for x in r], (' — ' + how_) if how_ else ''), f.loc())
    f = cx.fn('gm_sm4::tau', 'I-SM4')
    if f is not None:
        st = [(a, I.shorten_vars(b)) for a, b in I.stores(f, F, 'buf')]
        r = [I.shorten_vars(x[1]) for x in I.returns(f, F)]
        ok_map = False
        if r and r[0].startswith('from_be_bytes:u32(map(to_be_bytes:u32($a), closure'):
            # a.to_be_bytes().map(|b| SBOX[b as usize]): the closure applies the S-box to its byte
            cl = [g for n_, g in F.fns.items() if n_.startswith(f.name + '::{closure')]
            if len(cl) == 1:
                rc = [I.shorten_vars(x[1]) for x in I.returns(cl[0], F)]
                ok_map = len(rc) == 1 and __import__('re').match(r'^SBOX\[\(\$\w+ as usize\)\]$', rc[0]) is not None
        cx.add('I-SM4', 'tau', ok_map or st == [(str(k), 'SBOX[(buf[%d] as usize)]' % k) for k in range(4)] and r == ['from_be_bytes:u32(buf#{E|[0]|[1]|[2]|[3]})'],
               'tau applies the S-box to each of the four bytes of the word in place', f.loc(), {'stores': st, 'ret': r})
    # ---- key schedule
    fn = cx.fn('<impl Sm4Cipher>::new', 'I-SM4')
    if fn is not None:
        P = Prov(fn, F, cut_loops=True); cn = Canon(fn, P)
        st = [(I.shorten_vars(a), I.shorten_vars(b)) for a, b in I.stores(fn, F, 'k')]
        want = rounds('k', 't_prime', lambda r: 'CK[%s]' % IDX[r])
        rec = recurrence(fn, F, 'k', 't_prime', 'CK', lambda s_: s_, 'rk')
        rec_k = recurrence(fn, F, 'k', 't_prime', 'CK', lambda s_: s_) if rec is not None and not rec[0] else rec
        cx.add('I-SM4', 'new/schedule', rec_k[0] if rec_k is not None else st == want, "key schedule: K_{i+4} = K_i ^ T'(K_{i+1} ^ K_{i+2} ^ K_{i+3} ^ CK_i) for 32 steps%s" % ((' -- ' + rec_k[1]) if rec_k is not None else ''), fn.loc(), {'got': st})
        rk = [(I.shorten_vars(a), I.shorten_vars(b)) for a, b in I.stores(fn, F, 'rk')]
        cx.add('I-SM4', 'new/rk', rec[0] if rec is not None else rk == [(IDX[r], 'k[%d]#{[%d]}' % (r, r)) for r in range(4)], 'rk_i = K_{i+4} for i = 0..31, each stored once%s' % ((' -- ' + rec[1]) if rec is not None and not rec[0] else ''), fn.loc(), {'got': rk})
        init = [cn.c(norm(P.rvalue(s_['rv'], b, i, 0))) for b, i, s_ in fn.stmts() if s_['k'] == 'assign' and fn.locals[s_['lhs']['l']].get('name') == 'k' and not s_['lhs']['p']]
        # (a definition by a call -- `let k: [u32; 4] = std::array::from_fn(|j| ..)` -- is a terminator, not a statement)
        for b_, t_ in fn.calls():
            d_ = t_.get('dest')
            if d_ is not None and not d_['p'] and fn.locals[d_['l']].get('name') == 'k' and t_.get('target') is not None:
                init.append(re.sub(r'^var:k=', '', cn.c(norm(P.local(d_['l'], t_['target'], 0)))))
        W = ['from_be_bytes:u32(unwrap(try_into(index($k, Range::Range{%d, %d}))))' % (4 * k, 4 * k + 4) for k in range(4)]
        fk_ok = init == ['array{%s}' % ', '.join('BitXor(%s, FK[%d])' % (W[k], k) for k in range(4))]
        if not fk_ok:
            # the four words written one by one into a larger zeroed array (K kept as K0..K35)
            first = [(a_, b_) for a_, b_ in I.stores(fn, F, 'k') if 'k[' not in I.shorten_vars(b_)]
            fk_ok = first == [(str(k), 'BitXor(%s, FK[%d])' % (W[k], k)) for k in range(4)] and init in (['repeat{0}'], [])
        cx.add('I-SM4', 'new/fk', fk_ok, '(K0..K3) = MK ^ FK with MK read big-endian', fn.loc())
        rets = I.returns(fn, F, True)
        # the object is built from the local `rk` (decided by new/rk) after every write of it: the whole-array read sees a
        # version that contains all element stores and bulk copies into rk
        from ..builder import root_local
        objs = [(b, i, st) for b, i, st in fn.stmts() if st['k'] == 'assign' and st['rv']['k'] == 'aggr' and st['rv'].get('akind') == 'adt' and (st['rv'].get('adt') or '').endswith('Sm4Cipher')]
        ret_ok = False
        if len(objs) == 1 and len(objs[0][2]['rv']['ops']) == 1 and objs[0][2]['rv']['ops'][0]['k'] in ('copy', 'move'):
            b_, i_, st_ = objs[0]
            rl = root_local(P, st_['rv']['ops'][0], b_, i_)
            if rl is not None and fn.locals[rl].get('name') == 'rk':
                writes = {(s_[0], s_[1]) for s_ in P.elem_stores() if s_[2] == ('local', rl) and not s_[4]}
                seen = P.reach_root(('local', rl), None, b_, i_) or ()
                ret_ok = bool(writes) and writes <= set(x for x in seen if x != 'E')
        ret_ok = ret_ok and len([v for _, v in rets if v.startswith('Result::Ok{Sm4Cipher::Sm4Cipher{')]) == 1
        cx.add('I-SM4', 'new/ret', ret_ok, 'the cipher object holds exactly the 32 round keys', fn.loc())
    block_fn(cx, 'encrypt', lambda r: IDX[r], 'round keys in order rk0..rk31')
    block_fn(cx, 'decrypt', lambda r: 'SubWithOverflow(31, %s).0' % IDX[r], 'round keys in reverse order rk31..rk0 (index 31 - i)')
    cx.hold('S-SM4-REV', 'encrypt/decrypt', 'decrypt uses index 31 - (4i + r) where encrypt uses 4i + r, the same round function T and the same reverse output: decided by the two I-SM4 round templates')
