"""C02 SM4 block cipher matches GB/T 32907 and decrypt inverts encrypt"""
from .. import rules_k as K, rules_p as RP, rules_i as I, rules_g as G, frame as FR, paramalg as pa
from ..prov import Prov, norm
from ..builder import Canon

I8 = 'each(Range::Range{0, 8})'
IDX = ['MulWithOverflow(%s, 4).0' % I8] + ['AddWithOverflow(MulWithOverflow(%s, 4).0, %d).0' % (I8, k) for k in (1, 2, 3)]


def rounds(var, f, key):
    """the four unrolled rounds of one iteration; every operand carries its memory version: word r is read before it is
    rewritten (#{E|[r]}: the initial value or the previous iteration's store), words already rewritten in this iteration
    are read after their store (#{[a]})"""
    def rd(a, r):
        return '%s[%d]#{%s[%d]}' % (var, a, '' if a < r else 'E|', a)
    out = []
    for r in range(4):
        a, b, c = [(r + 1 + k) % 4 for k in range(3)]
        out.append((str(r), 'BitXor(%s, %s(BitXor(BitXor(BitXor(%s, %s), %s), %s)))' % (rd(r, r), f, rd(a, r), rd(b, r), rd(c, r), key(r))))
    return out


def words(p):
    return 'array{%s}' % ', '.join('from_be_bytes:u32(unwrap(try_into(index($%s, Range::Range{%d, %d}))))' % (p, 4 * k, 4 * k + 4) for k in range(4))


def ttable(expr, sbox, rots):
    """decide a table-driven T / T' : returns (ok, explanation) or None when the expression is not of that form"""
    import re
    from ..rules_poly import parse, Undecided
    try:
        tree = parse(expr)
    except Undecided:
        return None
    terms = []
    def flat(t):
        if t[1] is not None and t[0] == 'BitXor' and len(t[1]) == 2:
            flat(t[1][0]); flat(t[1][1])
        else:
            terms.append(t)
    flat(tree)
    if len(terms) != 4:
        return None
    def L(b):
        r = b
        for k in rots:
            r ^= ((b << k) | (b >> (32 - k))) & 0xffffffff
        return r
    POS = {'((Shr($val, 24) as u8) as usize)': 24, '((Shr($val, 16) as u8) as usize)': 16, '((Shr($val, 8) as u8) as usize)': 8, '(($val as u8) as usize)': 0}
    seen = set()
    for t in terms:
        rot = 0
        if t[1] is not None and t[0] in ('rotate_right', 'rotate_left') and len(t[1]) == 2 and t[1][1][1] is None and t[1][1][0].isdigit():
            rot = int(t[1][1][0]) % 32
            if t[0] == 'rotate_right':
                rot = (32 - rot) % 32
            t = t[1][0]
        if t[1] is not None:
            return None
        m = re.match(r'^arr:0x([0-9a-f]+)((?:\[\d+\])?)\[(.*)\]$', t[0])
        if not m or m.group(3) not in POS:
            return None
        v = int(m.group(1), 16)
        off = int(m.group(2)[1:-1]) * 256 if m.group(2) else 0
        sh = POS[m.group(3)]
        if sh in seen:
            return (False, 'byte at bit %d of the input is used twice' % sh)
        seen.add(sh)
        for b in range(256):
            e = (v >> (32 * (off + b))) & 0xffffffff
            got = ((e << rot) | (e >> (32 - rot))) & 0xffffffff if rot else e
            want = L((sbox[b] << sh) & 0xffffffff)
            if got != want:
                return (False, 'table entry 0x%02x for the byte at bit %d gives 0x%08x, L(Sbox(b) << %d) is 0x%08x' % (b, sh, got, sh, want))
    if seen != {24, 16, 8, 0}:
        return (False, 'not every byte of the input is looked up')
    return (True, 'table-driven form: all 4 x 256 looked-up values equal L(Sbox(b) << position)')


def block_fn(cx, name, keyidx, what):
    F = cx.F
    fn = cx.fn('<impl Sm4Cipher>::' + name, 'I-SM4')
    if fn is None:
        return
    P = Prov(fn, F, cut_loops=True); cn = Canon(fn, P)
    st = [(I.shorten_vars(a), I.shorten_vars(b)) for a, b in I.stores(fn, F, 'x')]
    want = rounds('x', 't', lambda r: '$self.rk[%s]' % keyidx(r))
    cx.add('I-SM4', name + '/rounds', st == want, '%s: X_{i+4} = X_i ^ T(X_{i+1} ^ X_{i+2} ^ X_{i+3} ^ rk) four per iteration, 8 iterations, %s' % (name, what), fn.loc(), {'got': st, 'want': want})
    init = [I.shorten_vars(cn.c(norm(P.rvalue(s_['rv'], b, i, 0)))) for b, i, s_ in fn.stmts() if s_['k'] == 'assign' and fn.locals[s_['lhs']['l']].get('name') == 'x' and not s_['lhs']['p']]
    cx.add('I-SM4', name + '/load', init == [words('block')], 'the block is read as four big-endian words', fn.loc())
    cfs = []
    for b in FR.calls_of(fn, 'copy_from_slice'):
        cfs.append((FR.arg_canon(fn, P, cn, b, 0), I.shorten_vars(FR.arg_canon(fn, P, cn, b, 1))))
    want = [('index_mut(repeat{0}, Range::Range{%d, %d})' % (4 * k, 4 * k + 4), 'to_be_bytes:u32(x[%d]#{E|[%d]})' % (3 - k, 3 - k)) for k in range(4)]
    cx.add('I-SM4', name + '/reverse-out', cfs == want, 'output = (X35, X34, X33, X32) big-endian (reverse transform R)', fn.loc(), {'got': cfs})
    nl = I.find_loop(fn, P, cn, 'Range::Range{0, 8}')
    cx.add('I-SM4', name + '/trip', nl is not None, 'the round loop runs 8 times (32 rounds)', fn.loc())


def run(cx):
    cx.not_decided.append('equality with GB/T 32907 ciphertexts for all (key, block): decided only through structural identity of every component (S-box, FK, CK, tau/L/L\', key schedule, round structure, key order) with the standard, not by evaluation')
    F = cx.F
    K.oracle_selfcheck(cx, 'sm4')
    s = pa.sm4()
    K.k_array(cx, 'K-SM4', 'gm_sm4', 'SBOX', s.sbox, 1)
    K.k_array(cx, 'K-SM4', 'gm_sm4', 'FK', s.fk, 4)
    K.k_array(cx, 'K-SM4', 'gm_sm4', 'CK', s.ck, 4)
    RP.p_immut(cx, 'P-IMMUT', 'gm_sm4::Sm4Cipher', ['<impl Sm4Cipher>::encrypt', '<impl Sm4Cipher>::decrypt'])
    roots = [f.name for q in ('<impl Sm4Cipher>::new', '<impl Sm4Cipher>::encrypt', '<impl Sm4Cipher>::decrypt') for f in F.find_fns(q)]
    if len(roots) == 3:
        RP.p_pure(cx, 'P-PURE', 'Sm4Cipher', roots)
    else:
        cx.lost('P-PURE', 'Sm4Cipher', 'block cipher entry points not found')
    # ---- component functions
    comp = {
        'el': 'BitXor(BitXor(BitXor(BitXor($b, rotate_left($b, 2)), rotate_left($b, 10)), rotate_left($b, 18)), rotate_left($b, 24))',
        'el_prime': 'BitXor(BitXor($b, rotate_left($b, 13)), rotate_left($b, 23))',
    }
    # L and L' are looked through (inlined into T and T'): T = L(tau(x)) whether L is a function or written in place
    comp['t'] = comp['el'].replace('$b', 'tau($val)')
    comp['t_prime'] = comp['el_prime'].replace('$b', 'tau($val)')
    for name, want in comp.items():
        f = F.fns.get('gm_sm4::' + name) if name in ('el', 'el_prime') else cx.fn('gm_sm4::' + name, 'I-SM4')
        if f is not None:
            r = [x[1] for x in I.returns(f, F)]
            ok_ = r == [want]
            how_ = ''
            if not ok_ and name in ('t', 't_prime') and len(r) == 1:
                # the table-driven form: T(x) = XOR over the four bytes of x of rot(TABLE[byte]) with constant tables; every
                # table entry is compared with L(Sbox(b) << position) (exact evaluation of the constants)
                tv = ttable(r[0], pa.sm4().sbox, (2, 10, 18, 24) if name == 't' else (13, 23))
                if tv is not None:
                    ok_, how_ = tv
            cx.add('I-SM4', name, ok_, '%s = %s%s' % (name, [FR.short(x, 200) for x in r], (' — ' + how_) if how_ else ''), f.loc())
    f = cx.fn('gm_sm4::tau', 'I-SM4')
    if f is not None:
        st = [(a, I.shorten_vars(b)) for a, b in I.stores(f, F, 'buf')]
        r = [I.shorten_vars(x[1]) for x in I.returns(f, F)]
        ok_map = False
        if r and r[0].startswith('from_be_bytes:u32(map(to_be_bytes:u32($a), closure'):
            # a.to_be_bytes().map(|b| SBOX[b as usize]): the closure applies the S-box to its byte
            cl = [g for n_, g in F.fns.items() if n_.startswith(f.name + '::{closure')]
            if len(cl) == 1:
                rc = [I.shorten_vars(x[1]) for x in I.returns(cl[0], F)]
                ok_map = len(rc) == 1 and __import__('re').match(r'^SBOX\[\(\$\w+ as usize\)\]$', rc[0]) is not None
        cx.add('I-SM4', 'tau', ok_map or st == [(str(k), 'SBOX[(buf[%d] as usize)]' % k) for k in range(4)] and r == ['from_be_bytes:u32(buf)'],
               'tau applies the S-box to each of the four bytes of the word in place', f.loc(), {'stores': st, 'ret': r})
    # ---- key schedule
    fn = cx.fn('<impl Sm4Cipher>::new', 'I-SM4')
    if fn is not None:
        P = Prov(fn, F, cut_loops=True); cn = Canon(fn, P)
        st = [(I.shorten_vars(a), I.shorten_vars(b)) for a, b in I.stores(fn, F, 'k')]
        want = rounds('k', 't_prime', lambda r: 'CK[%s]' % IDX[r])
        cx.add('I-SM4', 'new/schedule', st == want, "key schedule: K_{i+4} = K_i ^ T'(K_{i+1} ^ K_{i+2} ^ K_{i+3} ^ CK_i)", fn.loc(), {'got': st})
        rk = [(I.shorten_vars(a), I.shorten_vars(b)) for a, b in I.stores(fn, F, 'rk')]
        cx.add('I-SM4', 'new/rk', rk == [(IDX[r], 'k[%d]#{[%d]}' % (r, r)) for r in range(4)], 'rk_i = K_{i+4}, stored in round order', fn.loc(), {'got': rk})
        init = [cn.c(norm(P.rvalue(s_['rv'], b, i, 0))) for b, i, s_ in fn.stmts() if s_['k'] == 'assign' and fn.locals[s_['lhs']['l']].get('name') == 'k' and not s_['lhs']['p']]
        mk = words('k')
        cx.add('I-SM4', 'new/fk', init == ['array{%s}' % ', '.join('BitXor(%s[%d], FK[%d])' % (mk, k, k) for k in range(4))], '(K0..K3) = MK ^ FK with MK read big-endian', fn.loc())
        rets = I.returns(fn, F, True)
        cx.add('I-SM4', 'new/ret', [I.shorten_vars(v) for _, v in rets if v.startswith('Result::Ok')] == ['Result::Ok{Sm4Cipher::Sm4Cipher{rk}}'], 'the cipher object holds exactly the 32 round keys', fn.loc())
    block_fn(cx, 'encrypt', lambda r: IDX[r], 'round keys in order rk0..rk31')
    block_fn(cx, 'decrypt', lambda r: 'SubWithOverflow(31, %s).0' % IDX[r], 'round keys in reverse order rk31..rk0 (index 31 - i)')
    cx.hold('S-SM4-REV', 'encrypt/decrypt', 'decrypt uses index 31 - (4i + r) where encrypt uses 4i + r, the same round function T and the same reverse output: decided by the two I-SM4 round templates')
