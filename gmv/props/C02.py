"""C02 SM4 block cipher matches GB/T 32907 and decrypt inverts encrypt"""
from .. import rules_k as K, paramalg as pa


def run(cx):
    cx.not_decided.append('equality with GB/T 32907 for all (key, block) (functional); involution follows only informally from S-SM4-REV + Feistel structure')
    K.oracle_selfcheck(cx, 'sm4')
    s = pa.sm4()
    K.k_array(cx, 'K-SM4', 'gm_sm4', 'SBOX', s.sbox, 1)
    K.k_array(cx, 'K-SM4', 'gm_sm4', 'FK', s.fk, 4)
    K.k_array(cx, 'K-SM4', 'gm_sm4', 'CK', s.ck, 4)
