"""C15 SM2 key agreement: both sides agree, conform to GB/T 32918.3, detect tampering"""
from ..prov import Prov, norm, strip, same, last, fn_is, const_int
from ..builder import Canon, preimage
from .. import frame as FR, rules_g as G, paramalg as pa

W = pa.params()['sm2']['xbar_w']
POW = 'arr:%s' % hex(1 << W)


import re

_LIT = {'pow': POW}


def xbar(x):
    return 'u256_add(%s, u256_bits_and(%s, arr:%s)).0' % (_LIT['pow'], x, hex(int(_LIT['pow'][4:], 16) - 1))


def tag(v):
    return 'tag(%d)' % v


def normtag(s_):
    return re.sub(r'^(u8|u16|u32|byte)\((\d+)\)$', lambda m: 'tag(%s)' % m.group(2), s_) if s_ else s_


def normstr(s_):
    return re.sub(r'\[(u8|u16|u32|byte)\((\d+)\), ', lambda m: '[tag(%s), ' % m.group(2), s_) if s_ else s_


def hash_pre(fn, P, cn, b):
    seq, other = preimage(fn, P, b, 0, cn)
    if seq:
        seq = [normtag(x) for x in seq]
        # nested hashes carry their own first element
    return seq


def k_xbar(cx, fn, P, cn):
    """K-XBAR: the mask literal of every x-bar computation in fn evaluates to 2^w; also binds the literal used by the templates"""
    lits = set()
    n = 0
    for b in G.call_blocks(fn, 'u256::u256_add'):
        a = G.call_args(fn, P, b)
        s_ = [cn.c(x) for x in a]
        if s_[0].startswith('arr:') and s_[1].startswith('u256_bits_and('):
            n += 1
            lits.add(s_[0])
            v = int(s_[0][4:], 16)
            inner = s_[1]
            ok = v == 1 << W and inner.endswith(', arr:%s)' % hex(v - 1))
            cx.add('K-XBAR', '%s@%d' % (last(fn.name), n), ok,
                   'x-bar = 2^w + (x & (2^w - 1)) with w = %d: literal is 2^%s' % (W, v.bit_length() - 1 if v and v & (v - 1) == 0 else hex(v)), G.where(fn, b))
    cx.floor('K-XBAR', last(fn.name) + '/sites', n, 2, 'x-bar computations in ' + last(fn.name))
    _LIT['pow'] = sorted(lits)[0] if len(lits) == 1 else POW


def f_tag(cx, fn, P, cn, inst, want):
    """F-TAG: confirmation preimages start with ONE byte 0x02 / 0x03"""
    got = []
    for b in FR.calls_of(fn, 'gm_sm3::sm3_hash'):
        seq, _ = preimage(fn, P, b, 0, cn)
        if seq and len(seq) == 3:
            got.append(seq[0])
    ok = sorted(got) == sorted('u8(%d)' % v for v in want) or sorted(got) == sorted('byte(%d)' % v for v in want)
    cx.add('F-TAG', inst, ok, 'confirmation hash tags are single bytes %s: got %s' % (want, got), fn.loc())


def run(cx):
    cx.not_decided.append('agreement of the two derived keys and equality with the standard\'s example (functional: group law, mod-n arithmetic)')
    sp = pa.params()['sm2']
    T_SB, T_SA = sp['tag_sb'], sp['tag_sa']
    # ------------------------------------------------------------------ exchange_1
    f1 = cx.fn('<impl exchange::Exchange>::exchange_1')
    if f1 is not None:
        P = Prov(f1, cx.F); cn = Canon(f1, P)
        st = {}
        for b, i, s_ in f1.stmts():
            if s_['k'] == 'assign' and s_['lhs']['l'] == 1 and len(s_['lhs']['p']) == 2 and s_['lhs']['p'][0] == 'deref':
                st[s_['lhs']['p'][1]['name']] = cn.c(norm(P.rvalue(s_['rv'], b, i, 0)))
        cx.add('F-EX-STATE', 'exchange_1', st.get('r') == 'Option::Some{rand#1}' and st.get('r_point') == 'Option::Some{g_mul(rand#1)}',
               'initiator stores r = fresh scalar and R = [r]G: %s' % st, f1.loc())
        rets = FR.ret_exprs(f1, P)
        cx.add('F-EX-STATE', 'exchange_1/ret', len(rets) == 1 and cn.c(norm(P.operand(rets[0][2], rets[0][0], rets[0][1]))) == 'g_mul(rand#1)',
               'exchange_1 returns R_A = [r_A]G', f1.loc())
    # ------------------------------------------------------------------ exchange_2 (responder)
    f2 = cx.fn('<impl exchange::Exchange>::exchange_2')
    if f2 is not None:
        P = Prov(f2, cx.F); cn = Canon(f2, P)
        k_xbar(cx, f2, P, cn)
        f_tag(cx, f2, P, cn, 'exchange_2', [T_SB])
        RB = 'g_mul(rand#1)'
        t2 = 'fn_add($self.sk.d, fn_mul(rand#1, %s))' % xbar('plain(affx(%s))' % RB)
        V = 'scalar_mul(point_add(value($self.rhs_pk), scalar_mul($ra_point, %s)), %s)' % (xbar('plain(affx($ra_point))'), t2)
        kd = FR.calls_of(f2, 'util::kdf')
        if len(kd) == 1:
            FR.check_seq(cx, 'F-KDF-EX', 'exchange_2', f2, hash_pre(f2, P, cn, kd[0]), ['X(%s)' % V, 'Y(%s)' % V, '$self.rhs_za', '$self.za'],
                         'K_B = KDF(xV || yV || Z_A || Z_B, klen), V = [t_B](P_A + [x1bar]R_A), t_B = d_B + x2bar*r_B, w = %d' % W, kd[0])
            cx.add('F-KDF-EX', 'exchange_2/klen', FR.arg_canon(f2, P, cn, kd[0], 1) == '$self.klen', 'requested key length is the configured klen', G.where(f2, kd[0]))
        else:
            cx.lost('F-KDF-EX', 'exchange_2', 'expected one kdf call', f2.loc())
        inner = ['X(%s)' % V, '$self.rhs_za', '$self.za', 'X($ra_point)', 'Y($ra_point)', 'X(%s)' % RB, 'Y(%s)' % RB]
        hs = FR.calls_of(f2, 'gm_sm3::sm3_hash')
        seqs = [hash_pre(f2, P, cn, b) for b in hs]
        in_s = 'sm3_hash([%s])' % ', '.join(inner)
        outer = [tag(T_SB), 'Y(%s)' % V, in_s]
        got_outer = [s_ for s_ in seqs if s_ and len(s_) == 3]
        got_inner = [s_ for s_ in seqs if s_ and len(s_) == 7]
        FR.check_seq(cx, 'F-SB', 'exchange_2/inner', f2, got_inner[0] if got_inner else None, inner, 'inner hash = SM3(xV || Z_A || Z_B || x1 || y1 || x2 || y2)')
        FR.check_seq(cx, 'F-SB', 'exchange_2/outer', f2, got_outer[0] if got_outer else None, outer, 'S_B = SM3(0x02 || yV || inner), one-byte tag')
        rets = FR.ret_exprs(f2, P)
        ok = len(rets) == 1 and normstr(cn.c(norm(P.operand(rets[0][2], rets[0][0], rets[0][1])))) == 'tuple{%s, sm3_hash([%s])}' % (RB, ', '.join(outer))
        cx.add('F-SB', 'exchange_2/ret', ok, 'exchange_2 returns (R_B, S_B)', f2.loc())
        # stored state
        st = {}
        for b, i, s_ in f2.stmts():
            if s_['k'] == 'assign' and s_['lhs']['l'] == 1 and len(s_['lhs']['p']) == 2 and s_['lhs']['p'][0] == 'deref':
                st[s_['lhs']['p'][1]['name']] = cn.c(norm(P.rvalue(s_['rv'], b, i, 0)))
        cx.add('F-EX-STATE', 'exchange_2', st.get('r') == 'Option::Some{rand#1}' and st.get('r_point') == 'Option::Some{%s}' % RB and st.get('v') == 'Option::Some{%s}' % V,
               'responder stores r_B, R_B = [r_B]G and V for the confirmation step', f2.loc(), {'stores': {k: FR.short(v, 80) for k, v in st.items()}})
        sinks = G.ok_sinks(f2)
        G.guard(cx, 'G-EX-VALID', 'exchange_2', f2, P, sinks, lambda p: p.kind == 'valid' and p.op == 'is_valid' and cn.c(p.args[0]) == '$ra_point', True,
                'received R_A must be on the curve')
        G.guard(cx, 'G-EX-INF', 'exchange_2', f2, P, sinks, lambda p: p.kind == 'is_zero' and cn.c(p.args[0]) == V, False, 'V must not be the point at infinity')
    # ------------------------------------------------------------------ exchange_3 (initiator)
    f3 = cx.fn('<impl exchange::Exchange>::exchange_3')
    if f3 is not None:
        P = Prov(f3, cx.F); cn = Canon(f3, P)
        k_xbar(cx, f3, P, cn)
        f_tag(cx, f3, P, cn, 'exchange_3', [T_SB, T_SA])
        RA = 'unwrap($self.r_point)'
        tA = 'fn_add($self.sk.d, fn_mul(unwrap(as_ref($self.r)), %s))' % xbar('plain(affx(%s))' % RA)
        U = 'scalar_mul(point_add(value($self.rhs_pk), scalar_mul($rb_point, %s)), %s)' % (xbar('plain(affx($rb_point))'), tA)
        kd = FR.calls_of(f3, 'util::kdf')
        if len(kd) == 1:
            FR.check_seq(cx, 'F-KDF-EX', 'exchange_3', f3, hash_pre(f3, P, cn, kd[0]), ['X(%s)' % U, 'Y(%s)' % U, '$self.za', '$self.rhs_za'],
                         'K_A = KDF(xU || yU || Z_A || Z_B, klen), U = [t_A](P_B + [x2bar]R_B), t_A = d_A + x1bar*r_A', kd[0])
            cx.add('F-KDF-EX', 'exchange_3/klen', FR.arg_canon(f3, P, cn, kd[0], 1) == '$self.klen', 'requested key length is the configured klen', G.where(f3, kd[0]))
        else:
            cx.lost('F-KDF-EX', 'exchange_3', 'expected one kdf call', f3.loc())
        inner = ['X(%s)' % U, '$self.za', '$self.rhs_za', 'X(%s)' % RA, 'Y(%s)' % RA, 'X($rb_point)', 'Y($rb_point)']
        in_s = 'sm3_hash([%s])' % ', '.join(inner)
        hs = FR.calls_of(f3, 'gm_sm3::sm3_hash')
        seqs = [hash_pre(f3, P, cn, b) for b in hs]
        got_inner = [s_ for s_ in seqs if s_ and len(s_) == 7]
        FR.check_seq(cx, 'F-SA', 'exchange_3/inner', f3, got_inner[0] if got_inner else None, inner, 'inner hash = SM3(xU || Z_A || Z_B || x1 || y1 || x2 || y2)')
        s1 = [tag(T_SB), 'Y(%s)' % U, in_s]
        sa = [tag(T_SA), 'Y(%s)' % U, in_s]
        outs = [s_ for s_ in seqs if s_ and len(s_) == 3]
        cx.add('F-SA', 'exchange_3/S1', s1 in outs, 'S_1 = SM3(0x02 || yU || inner) (one-byte tag): %s' % [o[0] for o in outs], f3.loc())
        cx.add('F-SA', 'exchange_3/SA', sa in outs, 'S_A = SM3(0x03 || yU || inner) (one-byte tag)', f3.loc())
        sinks = G.ok_sinks(f3)
        S1 = 'sm3_hash([%s])' % ', '.join(s1)
        G.guard(cx, 'G-EX-CONFIRM', 'exchange_3', f3, P, sinks,
                lambda p: p.kind == 'eq' and sorted([normstr(cn.c(p.args[0])), normstr(cn.c(p.args[1]))]) == sorted([S1, '$sb']),
                True, 'initiator accepts only if S_1 equals the received S_B')
        rets = FR.ret_exprs(f3, P)
        ok = len(rets) == 1 and normstr(cn.c(norm(P.operand(rets[0][2], rets[0][0], rets[0][1])))) == 'sm3_hash([%s])' % ', '.join(sa)
        cx.add('F-SA', 'exchange_3/ret', ok, 'exchange_3 returns S_A', f3.loc())
        G.guard(cx, 'G-EX-VALID', 'exchange_3', f3, P, sinks, lambda p: p.kind == 'valid' and p.op == 'is_valid' and cn.c(p.args[0]) == '$rb_point', True,
                'received R_B must be on the curve')
        G.guard(cx, 'G-EX-INF', 'exchange_3', f3, P, sinks, lambda p: p.kind == 'is_zero' and cn.c(p.args[0]) == U, False, 'U must not be the point at infinity')
    # ------------------------------------------------------------------ exchange_4 (responder confirmation)
    f4 = cx.fn('<impl exchange::Exchange>::exchange_4')
    if f4 is not None:
        P = Prov(f4, cx.F); cn = Canon(f4, P)
        f_tag(cx, f4, P, cn, 'exchange_4', [T_SA])
        Vs = 'unwrap($self.v)'
        inner = ['X(%s)' % Vs, '$self.rhs_za', '$self.za', 'X($ra_point)', 'Y($ra_point)', 'X(unwrap($self.r_point))', 'Y(unwrap($self.r_point))']
        s2 = [tag(T_SA), 'Y(%s)' % Vs, 'sm3_hash([%s])' % ', '.join(inner)]
        rets = FR.ret_exprs(f4, P)
        got = normstr(cn.c(norm(P.operand(rets[0][2], rets[0][0], rets[0][1])))) if len(rets) == 1 else ''
        S2 = 'sm3_hash([%s])' % ', '.join(s2)
        cx.add('G-EX-CONFIRM', 'exchange_4', got in ('eq(%s, $sa)' % S2, 'eq($sa, %s)' % S2, 'Eq(%s, $sa)' % S2),
               'responder confirmation is exactly S_2 == S_A with S_2 = SM3(0x03 || yV || SM3(xV || Z_A || Z_B || x1 || y1 || x2 || y2)): %s' % FR.short(got, 200), f4.loc())
    # ------------------------------------------------------------------ Exchange::new
    fnew = cx.fn('<impl exchange::Exchange>::new')
    if fnew is not None:
        P = Prov(fnew, cx.F); cn = Canon(fnew, P)
        ags = G.aggr_blocks(fnew, 'Exchange::Exchange')
        ok = False
        d = {}
        if len(ags) == 1:
            b, i, rv = ags[0]
            d = dict(zip(rv['fnames'], [cn.c(norm(P.operand(o, b, i))) for o in rv['ops']]))
            ok = d.get('za', '').startswith('try(compute_za(') and '$id' in d['za'] and '$pk.point' in d['za'] and \
                d.get('rhs_za', '').startswith('try(compute_za(') and '$rhs_id' in d['rhs_za'] and '$rhs_pk.point' in d['rhs_za'] and \
                d.get('klen') == '$klen' and d.get('rhs_pk', '').endswith('$rhs_pk)') or d.get('rhs_pk') == '$rhs_pk'
            ok = bool(ok) and d.get('sk') in ('$sk', 'clone($sk)')
        from .C03 import check_za_id
        check_za_id(cx, '<impl exchange::Exchange>::new', 'Exchange::new', params=('id', 'rhs_id'), want_calls=2)
        cx.add('F-EX-NEW', 'Exchange::new', ok, 'za = Z(id, own key), rhs_za = Z(peer id, peer key), peer key and own private key stored: %s' % {k: FR.short(v, 60) for k, v in d.items()}, fnew.loc())


_run_za = run


def run(cx):
    from .C03 import check_za
    _run_za(cx)
    # Z_A and Z_B enter the KDF and both confirmation hashes: ZA = SM3(ENTL || ID || a || b || G || P)
    check_za(cx)


_run_kdf = run


def run(cx):
    from .C05 import check_kdf
    _run_kdf(cx)
    # the agreed key is KDF(xV || yV || ZA || ZB, klen): the KDF itself (counter from 1, one SM3 per block, truncation)
    check_kdf(cx, 'gm_sm2::util::kdf')
