"""C04 SM2 verification accepts nothing but a valid signature"""
from .. import paramalg as pa
from ..prov import Prov, norm, strip, same, const_int, last, fn_is
from .. import rules_g as G


def is_len_of(e, param):
    e = strip(e)
    return e.k == 'call' and last(e.name) == 'len' and e.args and G.has_param(e.args[0], param)


def run(cx):
    cx.not_decided.append('that (e + x1) mod n, [s]G + [t]P and SM3 are computed correctly (arithmetic, see C11/C01)')
    n = pa.sm2().n
    fn = cx.fn('<impl key::Sm2PublicKey>::verify_raw')
    if fn is None:
        return
    P = Prov(fn, cx.F)
    sinks = G.ok_sinks(fn)
    # --- identify r and s: the 256-bit values decoded from the signature parameter
    sigvals = []
    for b in G.call_blocks(fn, 'u256::u256_from_be_bytes'):
        e = norm(P.local(fn.blocks[b]['term']['dest']['l'], fn.blocks[b]['term']['target'], 0))
        direct = all(x.k != 'call' or 'Index' in (x.name or '') or x is e for x in e.walk())
        if G.has_param(e, 'sig') and direct and not any(same(e, x) for x in sigvals):
            sigvals.append(e)
    if len(sigvals) != 2:
        cx.lost('G-VERIFY', 'sigvals', 'expected exactly two integers decoded from `sig` in verify_raw, found %d' % len(sigvals), fn.loc())
        return
    def slice_start(e):
        # index(sig, RangeTo{32}) -> 0 ; RangeFrom{32} -> 32 ; Range{a,b} -> a
        for x in e.walk():
            if x.k == 'aggr' and x.name and x.name.startswith('Range'):
                if x.name.startswith('RangeTo'):
                    return 0
                return const_int(x.args[0])
        return None
    sigvals.sort(key=lambda e: (slice_start(e) is None, slice_start(e) or 0))
    r, s = sigvals
    ok = slice_start(r) == 0 and slice_start(s) == 32
    cx.add('F-SIG-DECODE', 'verify_raw', ok, 'r is decoded from sig[0..], s from sig[32..] (r=%s, s=%s)' % (r.show(), s.show()), fn.loc())

    # --- exact length: Ok only with len(sig) == 64
    G.guard(cx, 'L-SIG64', 'verify_raw', fn, P, sinks,
            lambda p: p.kind == 'eq' and ((is_len_of(p.args[0], 'sig') and const_int(p.args[1]) == 64) or (is_len_of(p.args[1], 'sig') and const_int(p.args[0]) == 64)),
            True, 'signature length must be exactly 64 bytes')

    # --- non-zero and range checks
    for nm, v in (('r', r), ('s', s)):
        G.guard(cx, 'G-VERIFY-NZ', nm, fn, P, sinks, lambda p, v=v: p.kind == 'is_zero' and same(p.args[0], v), False,
                '%s != 0 check' % nm)
    # range check needs per-op polarity: normalise to "v < n"
    for nm, v in (('r', r), ('s', s)):
        def m(p, v=v):
            if p.kind != 'cmp':
                return False
            if same(p.args[0], v) and const_int(p.args[1]) == n and p.op in ('Lt', 'Ge'):
                return True
            return False
        # Pred op Ge means v >= n ; passed edge is where (v >= n) is False. Lt: passed where True.
        insts = [p for _, p, _, _ in G.bool_switches(fn, P) if m(p)]
        ops = {p.op for p in insts}
        if ops == {'Lt'}:
            G.guard(cx, 'G-VERIFY-RANGE', nm, fn, P, sinks, m, True, '%s < n check (comparand evaluates to the group order n)' % nm)
        else:
            G.guard(cx, 'G-VERIFY-RANGE', nm, fn, P, sinks, lambda p, m=m: m(p) and p.op == 'Ge', False,
                    '%s < n check (comparand evaluates to the group order n)' % nm)

    # --- t = (r + s) mod n must be non-zero
    def is_t(e):
        e = strip(e)
        return e.k == 'call' and fn_is(e.name, 'fn64::fn_add') and len(e.args) == 2 and \
            ((same(e.args[0], r) and same(e.args[1], s)) or (same(e.args[0], s) and same(e.args[1], r)))
    G.guard(cx, 'G-VERIFY-T', 'verify_raw', fn, P, sinks, lambda p: p.kind == 'is_zero' and is_t(p.args[0]), False,
            't = (r + s) mod n != 0 check')

    # --- final comparison R == r with R = (x1 + e) mod n
    def is_x1(e):
        # x1 = from_be(to_byte_be(from_mont(affine(point_add(g_mul(s), scalar_mul(pk, t))).x)))
        xs = [x for x in e.walk() if x.k == 'field' and x.name == 'x']
        for x in xs:
            aff = strip(x.args[0])
            if not (aff.k == 'call' and last(aff.name) == 'to_affine_point'):
                continue
            add = strip(aff.args[0])
            if not (add.k == 'call' and last(add.name) == 'point_add' and len(add.args) == 2):
                continue
            a, b = strip(add.args[0]), strip(add.args[1])
            for (g, m_) in ((a, b), (b, a)):
                if g.k == 'call' and last(g.name) == 'g_mul' and same(norm(g.args[0]), s) and \
                        m_.k == 'call' and last(m_.name) == 'scalar_mul' and G.has_param(m_.args[0], 'pk') and is_t(m_.args[1]):
                    if G.has_call(e, 'fp_from_mont'):
                        return True
        return False

    def is_e(e):
        e = strip(e)
        return e.k == 'call' and last(e.name) == 'u256_from_be_bytes' and G.has_param(e, 'digest') and not G.has_call(e, 'scalar_mul')

    def is_R(e):
        e = strip(e)
        if not (e.k == 'call' and fn_is(e.name, 'fn64::fn_add') and len(e.args) == 2):
            return False
        a, b = e.args
        return (is_x1(a) and is_e(b)) or (is_x1(b) and is_e(a))

    def mfinal(p):
        if not ((p.kind == 'cmp' and p.op in ('Eq', 'Ne')) or p.kind == 'eq'):
            return False
        return (same(p.args[0], r) and is_R(p.args[1])) or (same(p.args[1], r) and is_R(p.args[0]))
    insts = [p for _, p, _, _ in G.bool_switches(fn, P) if mfinal(p)]
    truth = True
    if insts and insts[0].kind == 'cmp' and insts[0].op == 'Ne':
        truth = False
    G.guard(cx, 'G-VERIFY-FINAL', 'verify_raw', fn, P, sinks, mfinal, truth,
            'final comparison r == (e + x1) mod n with x1 from [s]G + [t]P, t = r + s, e from the digest')

    # --- the wrapper: digest = SM3(ZA || msg), ZA over (id, this key), verification under this key
    vf = cx.fn('<impl key::Sm2PublicKey>::verify')
    if vf is None:
        return
    PV = Prov(vf, cx.F)
    cbs = G.call_blocks(vf, 'verify_raw')
    if len(cbs) != 1:
        cx.lost('F-E', 'verify', 'expected one call of verify_raw in verify, found %d' % len(cbs), vf.loc())
        return
    args = G.call_args(vf, PV, cbs[0])
    dig = args[1]
    hs = [x for x in dig.walk() if x.k == 'call' and fn_is(x.name, 'gm_sm3::sm3_hash')]
    ok = False
    detail = dig.show()
    if hs:
        pre = hs[0].args[0]
        # [ZA.to_vec(), msg.to_vec()].concat()
        cc = [x for x in pre.walk() if x.k == 'aggr' and x.name == 'array' and len(x.args) == 2]
        if cc:
            za, m = cc[0].args
            ok = G.has_call(za, 'compute_za') and G.has_param(za, 'id') and G.has_param(za, 'self') and \
                G.has_param(m, 'msg') and not G.has_call(m, 'compute_za') and G.has_call(pre, 'concat')
    cx.add('F-E', 'verify', ok, 'digest passed to verify_raw is SM3(ZA || msg) with ZA = compute_za(id, self.point): %s' % detail[:300], G.where(vf, cbs[0]))
    cx.add('F-E-KEY', 'verify', G.has_param(args[2], 'self') and any(x.k == 'field' and x.name == 'point' for x in args[2].walk()),
           'verification key passed to verify_raw is self.point', G.where(vf, cbs[0]))
    cx.add('F-E-SIG', 'verify', args[3].k == 'param' and args[3].name == 'sig', 'signature bytes are passed through unchanged', G.where(vf, cbs[0]))


_run0 = run


def run(cx):
    from .C03 import check_za, check_za_id
    from .. import rules_s as S
    _run0(cx)
    check_za_id(cx, '<impl key::Sm2PublicKey>::verify', 'verify')
    check_za(cx)            # the verifier binds ID and key through the same ZA as the signer
    S.s_siblings(cx, 'S-SIBLING', only=('mod-add', 'modn-sub', 'limb-add', 'limb-sub', 'limb-cmp'))
