"""C14 Secret scalars are fresh, in range and full-entropy on every use"""
from ..prov import Prov, norm, strip, same, last, fn_is, const_int, const_item
from ..builder import Canon
from .. import rules_g as G, rules_r as R, frame as FR, paramalg as pa, rules_k as K

SM2_SITES = ['<impl key::Sm2PublicKey>::encrypt', '<impl key::Sm2PrivateKey>::sign_raw', 'gm_sm2::key::gen_keypair',
             '<impl exchange::Exchange>::exchange_1', '<impl exchange::Exchange>::exchange_2']
SM9_SITES = ['gm_sm9::key::generate_sign_master_key', 'gm_sm9::key::generate_enc_master_key', '<impl key::Sm9EncMasterKey>::master_key_generate',
             '<impl key::Sm9EncMasterKey>::encrypt', '<impl key::Sm9SignKey>::sign', '<impl key::Sm9SignMasterKey>::master_key_generate',
             'gm_sm9::key::exch_step_1a', 'gm_sm9::key::exch_step_1b']
SCALAR_CONSUMERS = ('g_mul', 'scalar_mul', 'point_mul', 'pow', 'public_from_private')


def run(cx):
    cx.not_decided.append('statistical unbiasedness of ThreadRng (rand 0.8 ChaCha12, OS-seeded) is trusted; uniformity on [1, BOUND-1] then follows from rejection sampling')
    s2, s9 = pa.sm2(), pa.sm9()
    R.rng_callees(cx)
    # ---- samplers
    f2 = cx.fn('gm_sm2::fields::fp64::random_u256', 'R-SHAPE')
    if f2 is not None:
        def b2(e, cn):
            v = const_int(e)
            ok = v is not None and s2.n - 1 <= v <= s2.n
            cx.add('R-BOUND', 'gm_sm2::random_u256', ok, 'SM2 sampler bound %s evaluates to %s; must be n-1 or n so that scalars lie in [1, n-1]' % (cn.c(e), 'n' if v == s2.n else 'n-1' if v == s2.n - 1 else 'p-1 (not the group order)' if v == s2.p - 1 else hex(v) if v is not None else 'a non-constant'), f2.loc())
        R.sampler_shape(cx, f2, b2)
    f9 = cx.fn('gm_sm9::u256::sm9_random_u256', 'R-SHAPE')
    if f9 is not None:
        def b9(e, cn):
            cx.add('R-BOUND', 'gm_sm9::sm9_random_u256/param', cn.c(e) == '$range', 'SM9 sampler bound is its `range` argument (checked at every call site)', f9.loc())
        R.sampler_shape(cx, f9, b9)
    # ---- any other sampler that is actually called by workspace code is held to the same shape (the dormant helpers
    #      fn_random_u256 / fp_random_u256 compare limb arrays lexicographically: harmless while nobody calls them)
    checked = {f.name for f in (f2, f9) if f is not None}
    for name, fn_ in sorted(cx.F.fns.items()):
        if last(name) in R.SAMPLER_NAMES and name not in checked:
            callers = [n_ for n_, g_ in cx.F.fns.items() if n_ != name and any(t_['fn']['k'] == 'def' and t_['fn']['name'] == name for _, t_ in g_.calls())]
            if callers:
                def bx(e, cn, fn_=fn_):
                    v = const_int(e)
                    ok = v is not None and ((fn_.crate == 'gm_sm9' and v in (s9.n - 1, s9.n)) or (fn_.crate == 'gm_sm2' and v in (s2.n - 1, s2.n)))
                    cx.add('R-BOUND', '%s' % fn_.short, ok, 'sampler %s (called by %s) has bound %s' % (fn_.short, [c_.split('::', 1)[1] for c_ in callers][:3], hex(v) if v is not None else cn.c(e)), fn_.loc())
                R.sampler_shape(cx, fn_, bx)
    # ---- SM9 call sites pass N-1 (or N)
    nsites = 0
    for name, fn in sorted(cx.F.fns.items()):
        if fn.crate != 'gm_sm9':
            continue
        P = None
        for b in G.call_blocks(fn, 'u256::sm9_random_u256'):
            P = P or Prov(fn, cx.F)
            a = G.call_args(fn, P, b)[0]
            v = const_int(a)
            nsites += 1
            cx.add('R-BOUND', 'gm_sm9::%s@bb' % fn.short, v in (s9.n - 1, s9.n), 'sm9_random_u256 is called with bound %s' % ('N-1' if v == s9.n - 1 else 'N' if v == s9.n else hex(v) if v is not None else 'non-constant'), G.where(fn, b))
    cx.floor('R-BOUND', 'gm_sm9/call-sites', nsites, 6, 'call sites of sm9_random_u256 (8 on the reviewed tree; two key generators may delegate to their method twins)')
    # ---- the 13 randomised operations
    cnt = 0
    for qual in SM2_SITES + SM9_SITES:
        fn = cx.fn(qual, 'R-SITES')
        if fn is None:
            continue
        cnt += 1
        blocks = R.must_draw(cx, fn, R.SAMPLER_NAMES)
        P = Prov(fn, cx.F); cn = Canon(fn, P)
        # the drawn value feeds a scalar-consuming operation
        used = False
        for b, t in fn.calls():
            c = t['fn']
            if c['k'] == 'def' and last(c['name']) in SCALAR_CONSUMERS:
                for a in G.call_args(fn, P, b):
                    s = cn.c(a)
                    if s.startswith('rand#') and '(' not in s.replace('(SM9_N_MINUS_ONE)', ''):
                        used = True
        if not used and not any(last(t_['fn']['name']) in R.SAMPLER_NAMES for _, t_ in fn.calls() if t_['fn']['k'] == 'def'):
            # the operation delegates to another one of the listed operations (which is checked itself)
            listed = set(cx.F.find_fns(q)[0].name for q in SM2_SITES + SM9_SITES if len(cx.F.find_fns(q)) == 1)
            used = any(t_['fn']['k'] == 'def' and t_['fn']['name'] in listed and t_['fn']['name'] != fn.name and b_ in blocks for b_, t_ in fn.calls())
        cx.add('R-SITES', fn.short + '/used', used, 'the drawn scalar itself is the scalar argument of a group/field exponentiation in %s' % fn.short, fn.loc())
        # freshness per retry: if the consumer sits in a loop, the draw is in that loop
        loops = fn.sccs()
        for b in blocks:
            pass
        cons = [b for b, t in fn.calls() if t['fn']['k'] == 'def' and last(t['fn']['name']) in SCALAR_CONSUMERS and any(cn.c(a).startswith('rand#') for a in G.call_args(fn, P, b))]
        for cb in cons:
            lp = next((c for c in loops if cb in c), None)
            if lp is not None:
                cx.add('R-FRESH', '%s@bb%d' % (fn.short, cons.index(cb)), any(b in lp for b in blocks), 'the scalar used inside the retry loop is drawn inside the same loop (fresh per retry)', G.where(fn, cb))
    cx.floor('R-SITES', 'operations', cnt, 13, 'randomised operations named by the property')
    # ---- no other function hands out scalars: every caller of a sampler is one of the known operations (or a sampler)
    known = set(cx.F.find_fns(q)[0].name for q in SM2_SITES + SM9_SITES if len(cx.F.find_fns(q)) == 1)
    extra = []
    for name, fn in cx.F.fns.items():
        if any(last(t['fn']['name']) in R.SAMPLER_NAMES for _, t in fn.calls() if t['fn']['k'] == 'def'):
            if name not in known and last(name) not in R.SAMPLER_NAMES:
                extra.append(name)
    # a helper that did not exist on the reviewed tree and whose every call was spliced into its callers is not a site of
    # its own: the draw is judged inside the (inlined) callers above, and an unknown caller shows up here itself
    from .. import inline as _inl
    vocab_ = _inl.load_vocab()
    if vocab_:
        extra = [n_ for n_ in extra if not (n_ not in vocab_ and not any(t_['fn'].get('k') == 'def' and t_['fn'].get('name') == n_
                                                                          for g_ in cx.F.fns.values() if g_.name != n_ for _, t_ in g_.calls()))]
    cx.add('R-SITES', 'closed-world', not extra, 'no function other than the 13 operations draws secret scalars: %s' % (extra or 'none'))
    # ---- R-NOSTATIC: nothing can retain a scalar between calls: no mutable or interior-mutable static in the workspace
    bad = [it['name'] for it in cx.F.items.values() if it['kind'] == 'static' and (it.get('mutable') or not it.get('freeze', True))]
    cx.add('R-NOSTATIC', 'workspace', not bad, 'no `static mut` / interior-mutable static exists in the workspace (%d statics checked): %s' % (sum(1 for it in cx.F.items.values() if it['kind'] == 'static'), bad or 'none'))
    # dead samplers must have the same shape too (they are public API)
    for q in ('gm_sm9::fields::fn_random_u256', 'gm_sm9::fields::fp::fp_random_u256'):
        fs = cx.F.find_fns(q)
        if fs:
            cx.hold('R-SHAPE', fs[0].short + '/unused', 'public helper %s is not called by any randomised operation (closed-world check above)' % fs[0].short, fs[0].loc())
