"""C16 SM9 hash-to-range and key extraction match GM/T 0044"""
from ..prov import Prov, norm, strip, same, last, fn_is, const_int
from ..builder import Canon, preimage
from .. import frame as FR, rules_g as G, paramalg as pa, rules_k as K


def H1(idv, hid):
    return 'sm9_u256_hash1(%s, %s)' % (idv, hid)


def check_hash(cx, qual, inst, prefix, mid):
    fn = cx.fn(qual, 'F-' + inst)
    if fn is None:
        return
    P = Prov(fn, cx.F); cn = Canon(fn, P)
    hs = FR.calls_of(fn, 'gm_sm3::sm3_hash')
    cx.floor('F-' + inst, 'hash-sites', len(hs), 2, 'SM3 invocations in %s' % inst)
    mid = [x.replace('array{$hid}', 'byte($hid)') for x in mid]
    want1 = ['byte(%d)' % prefix] + mid + ['bytes:00000001']
    want2 = ['byte(%d)' % prefix] + mid + ['bytes:00000002']
    import re as _re
    def named(t_):
        # a byte given by a named constant of the workspace is shown by its value
        def sub(m):
            its = [it for it in cx.F.items_by_suffix(m.group(1)) if it['name'].startswith('gm_sm9::')]
            v = K.item_int(its[0]) if len(its) == 1 else None
            return 'byte(%d)' % v if v is not None and 0 <= v < 256 else m.group(0)
        # (a one-byte array literal `[hid]` and a pushed byte are the same element)
        t_ = _re.sub(r'array\{(\$\w+)\}', r'byte(\1)', t_)
        return _re.sub(r'byte\(([A-Z][A-Z0-9_]*)\)', sub, t_)
    got = [[named(x) for x in (preimage(fn, P, b, 0, cn)[0] or [])] for b in hs]
    cx.add('F-' + inst, 'block1', want1 in got, 'Ha1 = SM3(0x%02x || Z || 00000001): %s' % (prefix, got), fn.loc())
    cx.add('F-' + inst, 'block2', want2 in got, 'Ha2 = SM3(0x%02x || Z || 00000002)' % prefix, fn.loc())
    mh = FR.calls_of(fn, 'fields::mod_n_from_hash')
    ok = False
    if len(mh) == 1:
        seq, _ = preimage(fn, P, mh[0], 0, cn)
        seq = [named(x) for x in seq] if seq else seq
        ok = seq == ['sm3_hash([%s])' % ', '.join(want1), 'sm3_hash([%s])' % ', '.join(want2)]
    cx.add('F-' + inst, 'concat', ok, 'Ha = Ha1 || Ha2 (64 bytes) is handed to mod_n_from_hash', fn.loc())
    from .. import rules_i as _I2
    rets = [v for _, v in _I2.returns(fn, cx.F)]       # through tail calls and whole-value moves as well
    ok = len(rets) == 1 and rets[0].startswith('mod_n_from_hash(')
    cx.add('F-' + inst, 'ret', ok, '%s returns the value of mod_n_from_hash unchanged' % inst, fn.loc())


def check_from_hash(cx):
    fn = cx.fn('gm_sm9::fields::mod_n_from_hash', 'F-HTR')
    if fn is None:
        return
    if getattr(cx, '_from_hash_done', False):
        return
    cx._from_hash_done = True
    # the reduction itself: every carry of the quotient estimate keeps its flag, and the Barrett correction is complete
    from .. import rules_s as _S
    _S.carry_chain(cx, 'A-CARRY', ('gm_sm9::',), 0, only=('mod_n_from_hash',))
    _S.barrett(cx, 'I-BARRETT', fn, cx.F)
    P = Prov(fn, cx.F); cn = Canon(fn, P)
    from .. import rules_i as _I
    rets = [v for _, v in _I.returns(fn, cx.F)]       # through tail calls and whole-value moves as well
    r = rets[0] if len(rets) == 1 else ''
    cx.add('F-HTR', 'plus-one', r.startswith('mod_n_add(') and r.endswith(', SM9_ONE)'), 'result = (Ha mod (N-1)) + 1 computed as mod_n_add(x, 1)', fn.loc())
    mod_ok = False
    if 'SM9_U256_N_MINUS_ONE_BARRETT_MU' not in r and 'SM9_N_MINUS_ONE)' in r:
        # the difference is assembled limb by limb in a local array (the returned text stops at its memory versions): the two
        # products and a limb subtraction are looked for as calls; that they are combined correctly is I-BARRETT / A-CARRY
        from ..prov import const_item as _ci2, strip as _st2
        muls = [[cn.c(a_) for a_ in G.call_args(fn, P, b_)] for b_ in G.call_blocks(fn, 'u256_mul')]
        subs = [b_ for b_, t_ in fn.calls() if t_['fn']['k'] == 'def' and last(t_['fn']['name']) in ('u256_sub', 'overflowing_sub', 'wrapping_sub', 'borrowing_sub')]
        mod_ok = any('SM9_U256_N_MINUS_ONE_BARRETT_MU' in ' '.join(m_) for m_ in muls) and any('SM9_N_MINUS_ONE' in m_ for ms_ in muls for m_ in ms_) and bool(subs)
    cx.add('F-HTR', 'modulus', mod_ok or 'SM9_N_MINUS_ONE)' in r and 'SM9_U256_N_MINUS_ONE_BARRETT_MU' in r and any(x_ in r for x_ in ('u256_sub(', 'overflowing_sub(', 'wrapping_sub(', 'SubWithOverflow(')),
           'x = low256(Ha) - q*(N-1) with q estimated through the Barrett constant of N-1', fn.loc())
    # 5 big-endian 64-bit words from offsets 0,8,..,32 -> z[4-i]: the limb stores, whatever loop form fills them
    # (index loop, iter_mut().rev().enumerate(), zip with chunks_exact(8); the one-line reader getu64 is looked through)
    import re as _re
    I5 = 'each(Range::Range{0, 5})'
    def nrm(v):
        v = v.replace('MulWithOverflow(%s, 8).0' % I5, 'MulWithOverflow(8, %s).0' % I5)
        v = v.replace('index($ha, RangeTo::RangeTo{40})', '$ha')
        return v
    zs = [(nrm(a_), nrm(v_)) for a_, v_ in _I.stores(fn, cx.F, 'z')]
    want_v = 'from_be_bytes:u64([index($ha, Range::Range{MulWithOverflow(8, %s).0, AddWithOverflow(MulWithOverflow(8, %s).0, 8).0})])' % (I5, I5)
    limb_stores = [(a_, v_) for a_, v_ in zs if 'from_be_bytes' in v_ or '$ha' in v_]
    words_ok = bool(limb_stores) and all(v_ == want_v for _, v_ in limb_stores)
    if not words_ok:
        # any other way of writing the window (`try_into().unwrap()`, `expect`, a different product order): the five
        # windows are evaluated (limb 4-i = BE64(ha[8i..8i+8]))
        from ..rules_s import be_decode_exact
        r_ = be_decode_exact(cx, 'gm_sm9::fields::mod_n_from_hash', nwords=5, cursor_form=False)
        words_ok = r_ is not None and r_[0]
    cx.add('F-HTR', 'words', words_ok,
           'exactly the first 40 bytes of Ha are read as 5 big-endian 64-bit words (bytes 8i..8i+8, i in 0..5): %s' % [FR.short(v_, 120) for _, v_ in limb_stores], fn.loc())
    cx.add('F-HTR', 'order', bool(limb_stores) and all(a_ == 'SubWithOverflow(4, %s).0' % I5 for a_, _ in limb_stores),
           'word i is stored at limb 4-i (most significant word first): %s' % [a_ for a_, _ in limb_stores], fn.loc())
    s = pa.sm9()
    K.k_ints(cx, 'K-SM9-BARRETT', 'gm_sm9', {'SM9_U256_N_MINUS_ONE_BARRETT_MU': s.consts['SM9_U256_N_MINUS_ONE_BARRETT_MU'], 'SM9_N_MINUS_ONE': s.n - 1, 'SM9_ONE': 1, 'SM9_N': s.n, 'SM9_N_NEG': (1 << 256) - s.n})


EXTRACT = [
    ('<impl key::Sm9SignMasterKey>::extract_key', 'SM9_HID_SIGN', '$self.ks', 'G1.g_mul', 'Sm9SignKey::Sm9SignKey', '$self.ppubs', '$idb'),
    ('<impl key::Sm9EncMasterKey>::extract_key', 'SM9_HID_ENC', '$self.ke', 'G2.g_mul', 'Sm9EncKey::Sm9EncKey', '$self.ppube', '$id'),
    ('<impl key::Sm9EncMasterKey>::extract_exch_key', 'SM9_HID_EXCH', '$self.ke', 'G2.g_mul', 'Sm9EncKey::Sm9EncKey', '$self.ppube', '$id'),
]
HID_SITES = [
    ('<impl key::Sm9EncMasterKey>::encrypt', 'SM9_HID_ENC'),
    ('<impl key::Sm9SignMasterKey>::verify_sign', 'SM9_HID_SIGN'),
    ('key::exch_step_1a', 'SM9_HID_EXCH'),
    ('key::exch_step_1b', 'SM9_HID_EXCH'),
]


def run(cx):
    cx.not_decided.append('correctness of the 320-bit Barrett reduction (quotient estimate) for all Ha; correctness of mod-N inversion and scalar multiplication (functional)')
    s = pa.sm9()
    K.k_ints(cx, 'K-HID', 'gm_sm9', {k: s.consts[k] for k in ('SM9_HID_SIGN', 'SM9_HID_EXCH', 'SM9_HID_ENC', 'SM9_HASH1_PREFIX', 'SM9_HASH2_PREFIX')})
    check_hash(cx, 'gm_sm9::key::sm9_u256_hash1', 'H1', s.consts['SM9_HASH1_PREFIX'], ['$id', 'array{$hid}'])
    check_hash(cx, 'gm_sm9::key::sm9_u256_hash2', 'H2', s.consts['SM9_HASH2_PREFIX'], ['$data', '$wbuf'])
    check_from_hash(cx)
    for qual, hid, k, gm, ctor, pub, idp in EXTRACT:
        fn = cx.fn(qual, 'F-EXTRACT')
        if fn is None:
            continue
        P = Prov(fn, cx.F); cn = Canon(fn, P)
        t1 = 'mod_n_add(%s, %s)' % (H1(idp, hid), k)
        want = '%s{%s, %s(mod_n_mul(mod_n_inv(%s), %s))}' % (ctor, pub, gm, t1, k)
        alt = '%s{%s, %s(mod_n_mul(%s, mod_n_inv(%s)))}' % (ctor, pub, gm, k, t1)
        rets = FR.ret_exprs(fn, P, 'Option::Some')
        got = cn.c(norm(P.operand(rets[0][2], rets[0][0], rets[0][1]))) if len(rets) == 1 else ''
        inst = last(qual.replace('::extract', '.extract')) if False else qual.split('<impl key::')[1].replace('>::', '.')
        cx.add('F-EXTRACT', inst, got in (want, alt), 'extracted key = [k * (H1(ID||hid) + k)^-1] * generator with hid = %s on %s: %s' % (hid, gm[:2], FR.short(got, 200)), fn.loc())
        sinks = G.ok_sinks(fn, ('Option::Some',))
        G.guard(cx, 'G-EXTRACT-ZERO', inst, fn, P, sinks, lambda p, t1=t1: p.kind == 'is_zero' and cn.c(p.args[0]) == t1, False,
                'extraction fails (None) exactly when H1 + k = 0 mod N')
        nones = G.ok_sinks(fn, ('Option::None',))
        # `helper(..)?` returns the helper's None through from_residual
        nones += [b_ for (b_, i_) in G.ret_def_sites(fn) if i_ == -1 and fn.blocks[b_]['term']['fn'].get('k') == 'def' and last(fn.blocks[b_]['term']['fn']['name']) == 'from_residual']
        # failure only in the zero case: every None exit lies behind the edge on which H1 + k was found to be zero
        zero_edges = []
        for b_, p_, te_, fe_ in G.bool_switches(fn, P):
            if p_.kind == 'is_zero' and cn.c(p_.args[0]) == t1:
                zero_edges += fe_ if p_.neg else te_
        left_n = G.reachable_without(fn, nones, zero_edges) if nones else []
        cx.add('G-EXTRACT-ZERO', inst + '/none', bool(nones) and bool(zero_edges) and not left_n,
               'None is returned only in the zero case (None exits bb%s, reachable without the zero observation: bb%s)' % (nones, left_n), fn.loc())
    n = 0
    for qual, hid in HID_SITES:
        fn = cx.fn(qual, 'K-HID')
        if fn is None:
            continue
        P = Prov(fn, cx.F); cn = Canon(fn, P)
        for b in FR.calls_of(fn, 'sm9_u256_hash1'):
            n += 1
            got = FR.arg_canon(fn, P, cn, b, 1)
            cx.add('K-HID', '%s@H1' % last(qual), got == hid, 'H1 is called with hid = %s (got %s)' % (hid, got), G.where(fn, b))
    cx.floor('K-HID', 'sites', n, 4, 'H1 call sites outside the extractors')


_run0 = run


def run(cx):
    from .. import rules_s as S
    _run0(cx)
    S.s_siblings(cx, 'S-SIBLING', only=('mod-add', 'modn-sub', 'limb-add', 'limb-sub', 'limb-cmp', 'limb-mul'))


_run1 = run


def run(cx):
    from .. import rules_s as S
    _run1(cx)
