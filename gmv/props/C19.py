"""C19 Keys, points and ciphertexts survive encoding, and decoders validate"""
from ..prov import Prov, norm, strip, same, last, fn_is, const_int
from ..builder import Canon
from .. import frame as FR, rules_g as G, paramalg as pa

SAMPLERS = ('random_u256',)


def ctor_pub(cx):
    """G-CTOR-PUB: a Sm2PublicKey built from decoded bytes is dominated by the curve-membership test"""
    n = 0
    for name, fn in sorted(cx.F.fns.items()):
        if fn.crate != 'gm_sm2':
            continue
        ags = G.aggr_blocks(fn, 'Sm2PublicKey::Sm2PublicKey')
        if not ags or '<impl std::clone::Clone' in name:
            continue
        P = Prov(fn, cx.F)
        cn = Canon(fn, P)
        for b, i, rv in ags:
            pt = norm(P.operand(rv['ops'][0], b, i))
            s = cn.c(pt)
            n += 1
            inst = fn.short
            G.guard(cx, 'G-CTOR-PUB', inst, fn, P, [b],
                    lambda p, pt=pt: p.kind == 'valid' and p.op in ('is_valid', 'is_valid_affine_point') and (same(p.args[0], pt) or G.contains(p.args[0], lambda x: same(x, pt))),
                    True, 'public key point (%s) must pass the curve-membership test before the key object exists' % FR.short(s, 80),
                    require_fail_blocks_sink=True)
    cx.floor('G-CTOR-PUB', 'sites', n, 3, 'constructions of Sm2PublicKey in gm_sm2 (new, from_hex_string, public_from_private)')


def ctor_priv(cx):
    """G-CTOR-PRIV: a Sm2PrivateKey built from external bytes has 1 <= d <= n-2"""
    nn = pa.sm2().n
    cnt = 0
    for name, fn in sorted(cx.F.fns.items()):
        if fn.crate != 'gm_sm2':
            continue
        ags = G.aggr_blocks(fn, 'Sm2PrivateKey::Sm2PrivateKey')
        if not ags or '<impl std::clone::Clone' in name:
            continue
        P = Prov(fn, cx.F)
        cn = Canon(fn, P)
        for b, i, rv in ags:
            d = norm(P.operand(rv['ops'][0], b, i))
            s = cn.c(d)
            cnt += 1
            if s.startswith('rand#'):
                cx.hold('G-CTOR-PRIV', fn.short, 'private scalar comes from the sampler (range decided by R rules in C14): %s' % s, G.where(fn, b))
                continue
            G.range_guard(cx, 'G-CTOR-PRIV', fn.short, fn, P, [b], lambda e, d=d: same(norm(e), d), 1, nn - 2,
                          'private scalar d = %s must lie in [1, n-2]' % FR.short(s, 60))
            # exact length of the byte string
            if '$' in s:
                params = [x.name for x in d.walk() if x.k == 'param']
                pn = params[0] if params else None
                if pn:
                    G.guard(cx, 'L-PRIV32', fn.short, fn, P, [b],
                            lambda p, pn=pn: p.kind == 'eq' and 'len($%s)' % pn in (cn.c(p.args[0]), cn.c(p.args[1])) and 32 in (const_int(p.args[0]), const_int(p.args[1])),
                            True, 'private key encoding must be exactly 32 bytes')
    cx.floor('G-CTOR-PRIV', 'sites', cnt, 2, 'constructions of Sm2PrivateKey in gm_sm2 (new, gen_keypair)')


def from_byte(cx):
    p = pa.sm2().p
    fn = cx.fn('<impl p256_ecc::Point>::from_byte')
    if fn is None:
        return
    P = Prov(fn, cx.F)
    cn = Canon(fn, P)
    sinks = G.ok_sinks(fn)
    cx.floor('L-POINT-LEN', 'from_byte/exits', len(sinks), 2, 'Ok exits of Point::from_byte (compressed, uncompressed)')
    # every Ok exit requires len(b) in {33, 65} matching the flag
    def lens_at(sink):
        got = set()
        for b, pr, te, fe in G.bool_switches(fn, P):
            if pr.kind == 'eq' and 'len($b)' in (cn.c(pr.args[0]), cn.c(pr.args[1])):
                c = const_int(pr.args[1]) if cn.c(pr.args[0]) == 'len($b)' else const_int(pr.args[0])
                passed = fe if pr.neg else te
                if not G.reachable_without(fn, [sink], passed):
                    got.add(c)
        return got
    # flag values selecting each exit
    def flags_at(sink):
        vals = set()
        for b, pr, te, fe in G.bool_switches(fn, P):
            if pr.kind == 'eq' and any(cn.c(a) in ('$b[0]', 'index($b, 0)') for a in pr.args):
                c = [const_int(a) for a in pr.args if const_int(a) is not None]
                if not c:
                    continue
                passed = fe if pr.neg else te
                if not G.reachable_without(fn, [sink], passed):
                    vals.add(c[0])
        return vals
    seen = {}
    for sk in sinks:
        ls, fl = lens_at(sk), flags_at(sk)
        seen[sk] = (ls, fl)
    comp = [sk for sk in sinks if seen[sk][0] == {33}]
    unc = [sk for sk in sinks if seen[sk][0] == {65}]
    cx.add('L-POINT-LEN', 'from_byte/compressed', len(comp) >= 1, 'an Ok exit requires len == 33 (compressed form)', fn.loc(), {'exits': {str(k): [sorted(v[0]), sorted(v[1])] for k, v in seen.items()}})
    cx.add('L-POINT-LEN', 'from_byte/uncompressed', len(unc) >= 1, 'an Ok exit requires len == 65 (uncompressed form)', fn.loc())
    # G-FLAG: the uncompressed exit is reachable only with flag == 0x04; the compressed one only with flag in {2,3}
    # (the compressed branch is an `||` of two equalities: removing both passed edges must cut it)
    for sk in unc:
        G.guard(cx, 'G-FLAG', 'from_byte/uncompressed', fn, P, [sk],
                lambda pr: pr.kind == 'eq' and any(cn.c(a) in ('$b[0]',) for a in pr.args) and any(const_int(a) in (4, 6, 7) for a in pr.args),
                True, 'uncompressed-layout decoding requires the SEC1 tag 0x04 (or the hybrid tags 0x06/0x07)', require_fail_blocks_sink=False)
    for sk in comp:
        G.guard(cx, 'G-FLAG', 'from_byte/compressed', fn, P, [sk],
                lambda pr: pr.kind == 'eq' and any(cn.c(a) in ('$b[0]',) for a in pr.args) and any(const_int(a) in (2, 3) for a in pr.args),
                True, 'compressed decoding requires the SEC1 tag 0x02 or 0x03', require_fail_blocks_sink=False)
    # T-CANON-p: decoded coordinates reach fp_to_mont only after a `< p` test
    tm = G.call_blocks(fn, 'fp64::fp_to_mont')
    cx.floor('T-CANON-p', 'from_byte/coords', len(tm), 3, 'coordinates converted to Montgomery form in from_byte')
    for idx, b in enumerate(tm):
        a = G.call_args(fn, P, b)[0]
        G.range_guard(cx, 'T-CANON-p', 'from_byte/coord%d' % idx, fn, P, [b], lambda e, a=a: same(norm(e), a), 0, p - 1,
                      'coordinate %s must be < p before use (x and x+p would decode to the same point)' % FR.short(cn.c(a), 70))
    # parity selection of the compressed root
    s = None
    for b, pr, te, fe in G.bool_switches(fn, P):
        txt = pr.show()
        if 'BitAnd' in txt and 'fp_sqrt' in txt:
            s = (b, pr)
    cx.add('G-PARITY', 'from_byte', s is not None, 'the compressed root is selected by comparing the parity of the candidate y with the tag bit', G.where(fn, s[0]) if s else fn.loc())
    if s is not None:
        # the parity is that of the canonical residue: the root is in Montgomery form, whose low bit says nothing about y
        def raw_root(e, under_from_mont=False, depth=0):
            """an fp_sqrt(..) value reached from e without passing through fp_from_mont"""
            e = strip(e)
            if depth > 40:
                return False
            if e.k == 'call' and last(e.name) == 'fp_from_mont':
                return False
            if e.k == 'call' and last(e.name) == 'fp_sqrt':
                return True
            return any(raw_root(a, under_from_mont, depth + 1) for a in e.args)
        bad = any(raw_root(a) for a in s[1].args)
        cx.add('G-PARITY', 'from_byte/canonical', not bad, 'the parity bit is taken from fp_from_mont(root), not from the Montgomery representation of the root', G.where(fn, s[0]))


def to_byte(cx):
    """G-PARITY-ENC: the 02/03 tag of the compressed encoding is the parity of the canonical affine y — every parity
    expression in Point::to_byte_be reads a `y` that is the y of `to_affine_point(self)` and went through fp_from_mont
    (the Jacobian Y and the Montgomery representative both have unrelated parities)"""
    fn = cx.fn('<impl p256_ecc::Point>::to_byte_be', 'G-PARITY-ENC')
    if fn is None:
        return
    P = Prov(fn, cx.F); cn = Canon(fn, P)
    exprs = []
    for b, p, te, fe in G.bool_switches(fn, P):
        exprs += [a for a in p.args]
        if p.raw is not None:
            exprs.append(p.raw)
    for b, t in fn.calls():
        if t['fn']['k'] == 'def' and last(t['fn']['name']) in ('push', 'extend_from_slice', 'append'):
            exprs += [norm(P.operand(a, b, len(fn.blocks[b]['stmts']))) for a in t['args'][1:]]
    def parity_nodes(e, depth=0):
        e = strip(e)
        out = []
        if depth > 60:
            return out
        if e.k == 'binop' and e.name in ('BitAnd', 'Rem') and len(e.args) == 2 and (const_int(e.args[1]) in (1, 2) or const_int(e.args[0]) in (1, 2)):
            out.append(e)
        for a in e.args:
            out += parity_nodes(a, depth + 1)
        return out
    def ys(e, under_from_mont, depth=0):
        """(is canonical affine y?) for every `.y` read below e"""
        e = strip(e)
        if depth > 60:
            return []
        if e.k == 'call' and last(e.name) == 'fp_from_mont':
            under_from_mont = True
        if e.k == 'field' and e.name == 'y' and e.args:
            base = strip(e.args[0])
            return [under_from_mont and base.k == 'call' and last(base.name) == 'to_affine_point']
        out = []
        for a in e.args:
            out += ys(a, under_from_mont, depth + 1)
        return out
    nodes = [n for e in exprs for n in parity_nodes(e)]
    verdicts = [v for n in nodes for v in ys(n, False)]
    cx.add('G-PARITY-ENC', 'to_byte_be', bool(verdicts) and all(verdicts),
           'the compressed tag is the parity of fp_from_mont(to_affine_point(self).y): %d parity expression(s), y operands canonical and affine: %s' % (len(nodes), verdicts), fn.loc())


def run(cx):
    cx.not_decided.append('byte-exact interoperability with OpenSSL documents; correctness of the modular square root (functional)')
    ctor_pub(cx)
    ctor_priv(cx)
    from_byte(cx)
    to_byte(cx)


def asn1(cx):
    """S-ASN1-BOUNDARY / X-ASN1-PAD: the DER form must carry C1.x, C1.y, C3, C2 of the raw ciphertext"""
    fn = cx.fn('<impl key::Sm2PublicKey>::encrypt_asn1')
    if fn is not None:
        P = Prov(fn, cx.F)
        cn = Canon(fn, P)
        bounds = []
        for b, t in fn.calls():
            if t['fn']['k'] == 'def' and last(t['fn']['name']) == 'index':
                a = G.call_args(fn, P, b)
                if G.has_call(a[0], 'encrypt'):
                    bounds.append(cn.c(a[1]))
        cx.floor('S-ASN1-BOUNDARY', 'encrypt_asn1/slices', len(bounds), 4, 'slices of the raw ciphertext in encrypt_asn1')
        # raw layout (uncompressed, C1C3C2): 04 | x(32) | y(32) | C3(32) | C2 ; component boundaries 1,33,65,97
        want = sorted(['Range::Range{1, 33}', 'Range::Range{33, 65}', 'Range::Range{65, 97}', 'RangeFrom::RangeFrom{97}'])
        cx.add('S-ASN1-BOUNDARY', 'encrypt_asn1', sorted(bounds) == want,
               'slices of the raw ciphertext are %s; component boundaries of 04||x||y||C3||C2 are %s' % (sorted(bounds), want), fn.loc())
    fn = cx.fn('<impl key::Sm2PrivateKey>::decrypt_asn1')
    if fn is not None:
        P = Prov(fn, cx.F)
        cn = Canon(fn, P)
        cbs = [b for b in G.call_blocks(fn, '<impl key::Sm2PrivateKey>::decrypt')]
        if len(cbs) != 1:
            cx.lost('X-ASN1-PAD', 'decrypt_asn1', 'expected one call of decrypt', fn.loc())
            return
        from ..builder import preimage
        seq, other = preimage(fn, P, cbs[0], 1, cn)
        raw = [e for e in (seq or []) if e.startswith(('to_bytes_be(', 'BE(')) and 'parse_der' in e]
        cx.add('X-ASN1-PAD', 'decrypt_asn1', seq is not None and not raw and len(seq) >= 4,
               'the INTEGER values x, y are re-encoded at fixed 32-byte width before reassembly (got elements %s)' % [FR.short(e, 50) for e in (seq or [])],
               G.where(fn, cbs[0]))
        # malformed DER must be an error, not a panic: the parse result may not be unwrapped
        uw = [b for b, t in fn.calls() if t['fn']['k'] == 'def' and last(t['fn']['name']) in ('unwrap', 'expect') and G.has_call(G.call_args(fn, P, b)[0], 'parse_der')]
        cx.add('L-DER-ERR', 'decrypt_asn1', not uw, 'the DER parse result is propagated as an error (no unwrap)', G.where(fn, uw[0]) if uw else fn.loc())
    fn = cx.fn('<impl std::convert::TryFrom<pkcs8::SubjectPublicKeyInfo<pkcs8::der::AnyRef<\'_>, pkcs8::der::asn1::BitStringRef<\'_>>> for key::Sm2PublicKey>::try_from')
    if fn is not None:
        P = Prov(fn, cx.F)
        uw = [b for b, t in fn.calls() if t['fn']['k'] == 'def' and last(t['fn']['name']) in ('unwrap', 'expect') and G.has_call(G.call_args(fn, P, b)[0], 'new')]
        cx.add('L-DER-ERR', 'spki_try_from', not uw, 'an invalid point in a SubjectPublicKeyInfo is reported as an error (no unwrap of Sm2PublicKey::new)', G.where(fn, uw[0]) if uw else fn.loc())
        news = G.call_blocks(fn, '<impl key::Sm2PublicKey>::new')
        cx.add('G-CTOR-PUB', 'spki_try_from', len(news) == 1, 'SPKI decoding goes through the validating constructor Sm2PublicKey::new', fn.loc())


_run0 = run


def run(cx):
    _run0(cx)
    asn1(cx)


def enc_agnostic(cx):
    """S-ENC-AGNOSTIC: decoders decide on points, never on one particular byte encoding of a point
    (SEC1 allows compressed, uncompressed and hybrid forms of the same point)"""
    n = 0
    for name, fn in sorted(cx.F.fns.items()):
        if not name.startswith('gm_sm2::pkcs::'):
            continue
        P = Prov(fn, cx.F); cn = Canon(fn, P)
        for b, p, te, fe in G.bool_switches(fn, P):
            n += 1
            if p.kind == 'eq' and len(p.args) == 2:
                a0, a1 = cn.c(p.args[0]), cn.c(p.args[1])
                for x, y in ((a0, a1), (a1, a0)):
                    if ('to_bytes(' in x or x.startswith('BE(')) and '$' in y and 'to_bytes(' not in y:
                        cx.violate('S-ENC-AGNOSTIC', fn.short, 'accept/reject decision compares caller bytes (%s) with one fixed encoding (%s): other valid encodings of the same point are rejected' % (FR.short(y, 60), FR.short(x, 60)), G.where(fn, b))
    cx.add('S-ENC-AGNOSTIC', 'pkcs', True, 'no decoder in gm_sm2::pkcs compares input bytes with a fixed re-encoding of a point (%d branch conditions inspected)' % n)
    cx.floor('S-ENC-AGNOSTIC', 'pkcs/fns', sum(1 for k in cx.F.fns if k.startswith('gm_sm2::pkcs::')), 6, 'functions in gm_sm2::pkcs')


_run2 = run


def run(cx):
    _run2(cx)
    enc_agnostic(cx)


_run3 = run


def sec1_private(cx):
    """F-SEC1-PRIV: the SEC1 decoder hands the privateKey octets to the validating constructor unchanged (length and
    range are decided there: G-CTOR-PRIV, L-PRIV32), and the encoder writes the 32-byte big-endian scalar — so a key
    survives its own round trip whatever its leading bytes are."""
    fn = cx.fn("pkcs::<impl std::convert::TryFrom<sec1::EcPrivateKey<'_>> for key::Sm2PrivateKey>::try_from", 'F-SEC1-PRIV')
    if fn is not None:
        P = Prov(fn, cx.F); cn = Canon(fn, P)
        news = G.call_blocks(fn, '<impl key::Sm2PrivateKey>::new')
        if len(news) != 1:
            cx.violate('F-SEC1-PRIV', 'decode', 'expected exactly one call of the validating constructor Sm2PrivateKey::new in the SEC1 decoder, found %d' % len(news), fn.loc())
        else:
            a = strip(G.call_args(fn, P, news[0])[0])
            e = a
            while e.k in ('deref', 'ref') and e.args:
                e = strip(e.args[0])
            ok = e.k == 'field' and e.name == 'private_key' and e.args and strip(e.args[0]).k == 'param'
            cx.add('F-SEC1-PRIV', 'decode', ok, 'the privateKey octets reach Sm2PrivateKey::new unchanged: %s' % FR.short(cn.c(a), 120), G.where(fn, news[0]))
    fn = cx.fn('pkcs::<impl key::Sm2PrivateKey>::to_sec1_der', 'F-SEC1-PRIV')
    if fn is not None:
        P = Prov(fn, cx.F); cn = Canon(fn, P)
        ag = G.aggr_blocks(fn, 'EcPrivateKey::EcPrivateKey')
        ok = False
        got = None
        for b, i, rv in ag:
            e = strip(norm(P.operand(rv['ops'][0], b, i)))
            got = e.show()
            # transparent wrappers: Zeroizing::new, Deref::deref, as_slice, references
            while e.k in ('deref', 'ref') or (e.k == 'call' and last(e.name) in ('deref', 'new', 'as_slice', 'as_ref', 'borrow') and len(e.args) == 1):
                e = strip(e.args[0])
            ok = e.k == 'call' and fn_is(e.name, '<impl key::Sm2PrivateKey>::to_bytes_be') and len(e.args) == 1 and strip(e.args[0]).k == 'param'
        cx.add('F-SEC1-PRIV', 'encode', ok, 'the privateKey field written by to_sec1_der is the key\'s own 32-byte big-endian encoding: %s' % FR.short(got or '?', 120), fn.loc())
    fn = cx.fn('<impl key::Sm2PrivateKey>::to_bytes_be', 'F-SEC1-PRIV')
    if fn is not None:
        from .. import rules_i as I
        r = [v for _, v in I.returns(fn, cx.F, True)]
        cx.add('F-SEC1-PRIV', 'to_bytes_be', len(r) == 1 and r[0] in ('BE($self.d)', 'to_byte_be($self.d)', 'u256_to_be_bytes($self.d)') or (len(r) == 1 and '$self.d' in r[0] and 'BE(' in r[0]),
               'Sm2PrivateKey::to_bytes_be is the fixed-width big-endian encoding of d: %s' % r, fn.loc())


def run(cx):
    _run3(cx)
    sec1_private(cx)
