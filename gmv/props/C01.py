"""C01 SM3 digest equals GB/T 32905 for every message"""
from .. import rules_k as K, rules_p as RP, rules_i as I, rules_g as G, frame as FR, paramalg as pa
from ..prov import Prov, norm, const_int, last
from ..builder import Canon

J = 'each(Range::Range{0, 64})'
SS1 = 'rotate_left(wrapping_add(wrapping_add(rotate_left(var:a@in, 12), var:e@in), rotate_left(t(%s), (%s as u32))), 7)' % (J, J)
ROUND = {
    'a': 'wrapping_add(wrapping_add(wrapping_add(ff(var:a@in, var:b@in, var:c@in, (%s as u32)), var:d@in), BitXor(%s, rotate_left(var:a@in, 12))), var:w1=repeat{0}[%s]#{E|[%s]})' % (J, SS1, J, J),
    'b': 'var:a@in', 'c': 'rotate_left(var:b@in, 9)', 'd': 'var:c@in',
    'e': 'p0(wrapping_add(wrapping_add(wrapping_add(gg(var:e@in, var:f@in, var:g@in, (%s as u32)), var:h@in), %s), var:w=repeat{0}[%s]@WV@))' % (J, SS1, J),
    'f': 'var:e@in', 'g': 'rotate_left(var:f@in, 19)', 'h': 'var:g@in',
}
W = 'var:w=repeat{0}'
J16, J68 = 'each(Range::Range{0, 16})', 'each(Range::Range{16, 68})'
# memory version of every read of W: it may see the zero initialisation, the load loop's stores and the expansion loop's stores
WV = '#{E|[%s]|[%s]}' % (J16, J68)
ROUND['e'] = ROUND['e'].replace('@WV@', WV)
EXPAND = 'BitXor(BitXor(p1(BitXor(BitXor(%s[SubWithOverflow(@J@, 16).0]@WV@, %s[SubWithOverflow(@J@, 9).0]@WV@), rotate_left(%s[SubWithOverflow(@J@, 3).0]@WV@, 15))), rotate_left(%s[SubWithOverflow(@J@, 13).0]@WV@, 7)), %s[SubWithOverflow(@J@, 6).0]@WV@)'.replace('@J@', J68).replace('@WV@', WV) % (W, W, W, W, W)
LOAD = 'BitOr(BitOr(BitOr(Shl(($b_i[MulWithOverflow(@J@, 4).0] as u32), 24), Shl(($b_i[AddWithOverflow(MulWithOverflow(@J@, 4).0, 1).0] as u32), 16)), Shl(($b_i[AddWithOverflow(MulWithOverflow(@J@, 4).0, 2).0] as u32), 8)), ($b_i[AddWithOverflow(MulWithOverflow(@J@, 4).0, 3).0] as u32))'.replace('@J@', J16)
BOOL = {
    'ff': ('BitXor(BitXor($x, $y), $z)', 'BitOr(BitOr(BitAnd($x, $y), BitAnd($x, $z)), BitAnd($y, $z))'),
    'gg': ('BitXor(BitXor($x, $y), $z)', 'BitOr(BitAnd($x, $y), BitAnd(Not($x), $z))'),
    't': ('T00', 'T16'),
}


def _closed_fill(cn, newlen):
    """(ok, text) for the new length of the padded vector after the closed-form zero fill, evaluated for len = 0..127"""
    from ..prov import strip
    bad = []
    for L in range(128):
        def hook(e):
            if e.k == 'call' and last(e.name) == 'len':
                t = cn.c(e)
                return L if t == 'len($msg)' else L + 1 if t == 'len([$msg, byte(128)])' else None
            return None
        v = I.eval_small(newlen, {}, hook=hook)
        if v is None:
            return (False, 'the new length %s is not a function of len(msg) alone' % FR.short(cn.c(newlen), 160))
        if not (v >= L + 1 and v - (L + 1) < 64 and (v + 8) % 64 == 0):
            bad.append((L, v))
    if bad:
        return (False, 'len=%d gives padded length %d before the length field (want the least value >= len+1 that is 56 mod 64)' % bad[0])
    return (True, 'all 128 lengths give the least padded length >= len+1 that is 56 mod 64')


def run(cx):
    cx.not_decided.append('bit-exact equality of the digest with GB/T 32905 for all messages: decided only through the structural identity of every component (constants, padding, expansion, round transfer function, boolean functions, output encoding) with the standard\'s definition, not by evaluating the function')
    F = cx.F
    K.oracle_selfcheck(cx, 'sm3')
    s = pa.sm3()
    K.k_array(cx, 'K-SM3', 'gm_sm3', 'IV', s.iv, 4)
    K.k_ints(cx, 'K-SM3', 'gm_sm3', {'T00': s.t0, 'T16': s.t16})
    h = cx.fn('gm_sm3::sm3_hash')
    if h is None:
        return
    RP.p_pure(cx, 'P-PURE', 'sm3_hash', [h.name])
    # ---- permutations and boolean functions
    for name, want in (('p0', 'BitXor(BitXor($x, rotate_left($x, 9)), rotate_left($x, 17))'), ('p1', 'BitXor(BitXor($x, rotate_left($x, 15)), rotate_left($x, 23))')):
        f = cx.fn('gm_sm3::' + name, 'I-SM3')
        if f is not None:
            r = I.returns(f, F)
            cx.add('I-SM3', name, [x[1] for x in r] == [want], '%s(X) = %s' % (name.upper(), r), f.loc())
    for name, (lo, hi) in BOOL.items():
        f = cx.fn('gm_sm3::' + name, 'I-SM3')
        if f is None:
            continue
        # conditional constant propagation over the finite selector domain j = 0..63: the returned expression per j
        pw = I.piecewise(f, F, 'j', range(64))
        if pw is not None:
            low = sorted({pw[j] for j in range(16)})
            high = sorted({pw[j] for j in range(16, 64)})
        else:
            r = I.returns(f, F)
            low = [v for c, v in r if any(x in ('Le($j, 15)=otherwise', 'Le($j, 15)=1', 'Lt($j, 16)=otherwise') for x in c)]
            high = [v for c, v in r if any(x in ('Le($j, 15)=0', 'Lt($j, 16)=0') for x in c) and v != '0']
        cx.add('I-SM3', name, low == [lo] and high == [hi], '%s_j: j<=15 -> %s ; 16<=j<=63 -> %s' % (name, low, high), f.loc())
    # ---- compression function
    cf = cx.fn('gm_sm3::cf', 'I-SM3')
    if cf is not None:
        tr = I.transfer(cf, F, 'Range::Range{0, 64}', list(ROUND))
        if tr is None:
            cx.violate('I-SM3', 'cf/rounds', 'the 64-round loop `for j in 0..64` was not found', cf.loc())
        else:
            # a precomputed table of the rotated round constants: `TAB[j]` for `T_j <<< j`, accepted after every entry of the
            # evaluated initialiser was compared with rotl32(T_j, j mod 32) (exact, from the K-SM3 oracle constants)
            import re as _re
            tabs = []
            sm3 = pa.sm3()
            rot = lambda x, n: (((x << (n % 32)) | (x >> (32 - n % 32))) & 0xffffffff) if n % 32 else x
            want_t = [rot(sm3.t0 if k < 16 else sm3.t16, k) for k in range(64)]
            for v in ('a', 'e'):
                # (a constant array is rendered by value: `arr:0x<all bytes as one little-endian integer>`)
                m_ = _re.search(r'rotate_left\(wrapping_add\(wrapping_add\(rotate_left\(var:a@in, 12\), var:e@in\), arr:0x([0-9a-f]+)\[%s\]\), 7\)' % _re.escape(J), tr[v] or '')
                if m_:
                    hx = m_.group(1).rjust(512, '0')
                    vals = [int(hx[k:k + 8], 16) for k in range(0, len(hx), 8)][::-1] if len(hx) == 512 else None
                    if vals == want_t:
                        tabs.append(('arr:0x%s[%s]' % (m_.group(1), J), 'rotate_left(t(%s), (%s as u32))' % (J, J)))
                        tr[v] = tr[v].replace(*tabs[-1])
            for v in ROUND:
                cx.add('I-SM3', 'cf/round/' + v, tr[v] == ROUND[v], 'round transfer %s\' = %s' % (v.upper(), FR.short(tr[v] or '?', 200)), cf.loc(), {'got': tr[v], 'want': ROUND[v]})
        ws = I.stores(cf, F, 'w')
        cx.add('I-SM3', 'cf/load', (J16, LOAD) in ws, 'W_j (j<16) = big-endian word j of the block', cf.loc(), {'stores': [FR.short(x[1], 120) for x in ws]})
        cx.add('I-SM3', 'cf/expand', (J68, EXPAND) in ws, 'W_j = P1(W_{j-16} ^ W_{j-9} ^ (W_{j-3} <<< 15)) ^ (W_{j-13} <<< 7) ^ W_{j-6}', cf.loc())
        w1 = I.stores(cf, F, 'w1')
        cx.add('I-SM3', 'cf/w1', w1 == [(J, 'BitXor(%s[%s]%s, %s[AddWithOverflow(%s, 4).0]%s)' % (W, J, WV, W, J, WV))], "W'_j = W_j ^ W_{j+4}", cf.loc())
        # loop bounds of the three word loops (counted while-loops and for-loops are written alike): the ranges the
        # stored indices run over
        P = Prov(cf, F, cut_loops=True); cn = Canon(cf, P)
        rngs = sorted({a_ for a_, _ in ws} | {a_ for a_, _ in w1})
        cx.add('I-SM3', 'cf/loop-bounds', rngs == sorted({J16, J68, J}),
               'word loops run j = 0..16, 16..68, 0..64 (index ranges %s)' % rngs, cf.loc())
        ff = I.stores(cf, F, 'v_i', through_deref=True)
        for t_ in (tabs if tr is not None else []):
            ff = [(a_, b_.replace(*t_)) for a_, b_ in ff]
        want = [(str(k), 'BitXor($v_i[%d], phi($v_i[%d] | %s))' % (k, k, ROUND['abcdefgh'[k]])) for k in range(8)]
        cx.add('I-SM3', 'cf/feed-forward', ff == want, 'V_{i+1} = ABCDEFGH xor V_i, word by word', cf.loc())
        init = {}
        for b, i, st in cf.stmts():
            nm = cf.locals[st['lhs']['l']].get('name') if st['k'] == 'assign' else None
            if nm in ROUND and not st['lhs']['p']:
                v = cn.c(norm(P.rvalue(st['rv'], b, i, 0)))
                if v.startswith('$v_i['):
                    init[nm] = v
        cx.add('I-SM3', 'cf/init', init == {'abcdefgh'[k]: '$v_i[%d]' % k for k in range(8)}, 'A..H are initialised from V_i[0..8] in order', cf.loc())
    # ---- driver: block iteration and output encoding
    P = Prov(h, F, cut_loops=True); cn = Canon(h, P)
    out = I.stores(h, F, 'output')
    E8 = 'each(Range::Range{0, 8})'
    V = 'var:v_i=IV'
    got = [(a, b.replace(V, 'V').replace('IV[', 'V[')) for a, b in out]
    want = [('MulWithOverflow(%s, 4).0' % E8, '(Shr(V[%s]#{E|call:cf}, 24) as u8)' % E8), ('AddWithOverflow(MulWithOverflow(%s, 4).0, 1).0' % E8, '(Shr(V[%s]#{E|call:cf}, 16) as u8)' % E8),
            ('AddWithOverflow(MulWithOverflow(%s, 4).0, 2).0' % E8, '(Shr(V[%s]#{E|call:cf}, 8) as u8)' % E8), ('AddWithOverflow(MulWithOverflow(%s, 4).0, 3).0' % E8, '(V[%s]#{E|call:cf} as u8)' % E8)]
    out_ok = got == want
    from ..builder import root_local as _rl
    def owner(b_, k_):
        t_ = h.blocks[b_]['term']
        if t_['args'][k_]['k'] not in ('copy', 'move'):
            return None
        n_ = len(h.blocks[b_]['stmts'])
        r_ = _rl(P, t_['args'][k_], b_, n_)
        nm_ = h.locals[r_].get('name') if r_ is not None else None
        if nm_ in ('output', 'b_i'):
            return nm_
        for x_ in P.operand(t_['args'][k_], b_, n_).walk():
            if x_.k == 'call' and x_.name and last(x_.name) in ('chunks_exact_mut', 'chunks_mut', 'iter_mut') and x_.site and x_.site[1] == -1:
                tb_ = h.blocks[x_.site[0]]['term']
                if tb_['args'] and tb_['args'][0]['k'] in ('copy', 'move'):
                    r2 = _rl(P, tb_['args'][0], x_.site[0], len(h.blocks[x_.site[0]]['stmts']))
                    return h.locals[r2].get('name') if r2 is not None else None
        return nm_
    copies = [(b_, owner(b_, 0), FR.arg_canon(h, P, cn, b_, 0), FR.arg_canon(h, P, cn, b_, 1).replace(V, 'V').replace('IV[', 'V[')) for b_ in FR.calls_of(h, 'copy_from_slice')]
    if not out_ok and not out:
        # word-wise: output[4i..4i+4] = V[i].to_be_bytes(), V read after the last cf call
        R4 = 'Range::Range{MulWithOverflow(%s, 4).0, AddWithOverflow(MulWithOverflow(%s, 4).0, 4).0}' % (E8, E8)
        oc = [(d_, s_) for _, o_, d_, s_ in copies if o_ == 'output']
        out_ok = len(oc) == 1 and oc[0][0].endswith(', %s)' % R4) and oc[0][0].startswith(('index(', 'index_mut(')) and oc[0][1] == 'to_be_bytes:u32(V[%s]#{E|call:cf})' % E8
    cx.add('I-SM3', 'sm3_hash/output', out_ok, 'digest = big-endian bytes of V[0..8], read after the last block was compressed', h.loc(), {'got': out})
    CG = 'var:count_group@in'
    rng = 'Range::Range{MulWithOverflow(%s, 64).0, AddWithOverflow(MulWithOverflow(%s, 64).0, 64).0}' % (CG, CG)
    PAD = 'unwrap(pad($msg))'
    bi = I.stores(h, F, 'b_i')
    cfs = FR.calls_of(h, 'gm_sm3::cf')
    a1 = FR.arg_canon(h, P, cn, cfs[0], 1) if len(cfs) == 1 else ''
    a0 = FR.arg_canon(h, P, cn, cfs[0], 0) if cfs else ''
    sw = [(p.kind, sorted(cn.c(a) for a in p.args)) for _, p, _, _ in G.bool_switches(h, P)]
    counted = ('eq', sorted(['MulWithOverflow(%s, 64).0' % CG, 'len(%s)' % PAD])) in sw
    # three ways to hand block i to cf, each with the way the blocks are enumerated:
    #  A  b_i[j - 64c] = padded[j] for j in 64c..64c+64, c counted up until 64c == len
    #  B  for block in padded.chunks_exact(64): b_i.copy_from_slice(block)   (the chunks are the blocks, in order; no
    #     remainder because the padded length is a multiple of 64: L-LEN64)
    #  C  cf(.., padded[64c..64c+64].try_into().unwrap()), c counted as in A
    EC = 'each(Range::Range{0, Div(len(%s), 64)})' % PAD
    chunk = 'index(%s, Range::Range{MulWithOverflow(%s, 64).0, AddWithOverflow(MulWithOverflow(%s, 64).0, 64).0})' % (PAD, EC, EC)
    formA = bi == [('SubWithOverflow(each(%s), MulWithOverflow(%s, 64).0).0' % (rng, CG), 'index(%s, each(%s))' % (PAD, rng))] and a1.startswith('var:b_i')
    bcop = [(b_, s_) for b_, o_, d_, s_ in copies if o_ == 'b_i']
    dom = h.dominators()
    formB = not bi and len(bcop) == 1 and bcop[0][1] == chunk and len(cfs) == 1 and bcop[0][0] in dom.get(cfs[0], ()) and \
        any(bcop[0][0] in c_ and cfs[0] in c_ for c_ in h.sccs()) and owner(cfs[0], 1) == 'b_i'
    formC = not bi and a1 == 'unwrap(try_into(index(%s, %s)))' % (PAD, rng)
    #  D  as B, the block being padded[off..off+64] with `off` advanced by 64 once per iteration from 0 until off == len
    formD = False
    import re as _re
    if not bi and len(bcop) == 1 and len(cfs) == 1:
        m_ = _re.match(r'^index\(%s, Range::Range\{var:(\w+)@in, AddWithOverflow\(var:(\w+)@in, 64\)\.0\}\)$' % _re.escape(PAD), bcop[0][1])
        if m_ and m_.group(1) == m_.group(2):
            l_ = next((i_ for i_, x_ in enumerate(h.locals) if x_.get('name') == m_.group(1)), None)
            st_ = P.stride(l_, bcop[0][0]) if l_ is not None else None
            from ..prov import const_int as _ci
            formD = st_ is not None and _ci(st_[0]) == 0 and st_[1] == 64 and bcop[0][0] in dom.get(cfs[0], ()) and \
                any(bcop[0][0] in c_ and cfs[0] in c_ for c_ in h.sccs()) and owner(cfs[0], 1) == 'b_i'
            if formD:
                counted = ('eq', sorted(['var:%s@in' % m_.group(1), 'len(%s)' % PAD])) in sw
    cx.add('I-SM3', 'sm3_hash/blocks', formA or formB or formC or formD, 'block i is bytes 64i..64i+64 of the padded message, in order (%s)' % ('copied byte by byte' if formA else 'chunks_exact(64) copied into the block buffer' if formB else 'borrowed in place' if formC else 'padded[off..off+64] copied, off advanced by 64 per block from 0' if formD else 'not recognised'), h.loc())
    cx.add('I-SM3', 'sm3_hash/chain', len(cfs) == 1 and (formA or formB or formC or formD) and a0 in ('IV', 'var:v_i=IV', 'var:v_i@in'), 'cf is applied to the chaining value (initialised from IV) and each block: cf(%s, ..)' % a0, h.loc())
    cx.add('I-SM3', 'sm3_hash/termination', counted if not formB else not [x for x in sw if x[0] != 'discr'], 'iteration stops exactly when 64*count == padded length (or: one iteration per 64-byte chunk, no other exit)', h.loc())
    # ---- padding
    pd = cx.fn('gm_sm3::pad', 'L-LEN64')
    if pd is not None:
        P = Prov(pd, F, cut_loops=True); cn = Canon(pd, P)
        # every append to the padded vector, in dominance order (push, extend_from_slice(&x.to_be_bytes()) ..)
        from ..builder import appends, root_local
        pushes = []
        app_blocks = []
        roots = set()
        for b_, t_ in pd.calls():
            if t_['fn']['k'] == 'def' and last(t_['fn']['name']) in ('push', 'extend_from_slice') and t_['args'] and t_['args'][0]['k'] in ('copy', 'move'):
                r_ = root_local(P, t_['args'][0], b_, len(pd.blocks[b_]['stmts']))
                if r_ is not None and 'Vec<u8>' in pd.local_ty(t_['args'][0]['pl']['l']):
                    roots.add(r_)
        for L_ in sorted(roots):
            for a_ in appends(pd, P, L_, None):
                if a_.kind == 'bytesplit':
                    pushes += [cn.c(x) for x in a_.elem.args]
                    app_blocks += [a_.block] * len(a_.elem.args)
                elif a_.kind in ('byte', 'bytes'):
                    pushes.append(cn.c(a_.elem) if a_.elem is not None else '?')
                    app_blocks.append(a_.block)
        BL = '(Shl(len($msg), 3) as u64)'
        tailw = ['(BitAnd(Shr(%s, %d), 255) as u8)' % (BL, s_) for s_ in (56, 48, 40, 32, 24, 16, 8)] + ['(BitAnd(%s, 255) as u8)' % BL]
        taila = ['(Shr(%s, %d) as u8)' % (BL, s_) for s_ in (56, 48, 40, 32, 24, 16, 8)] + ['(%s as u8)' % BL]
        want = ['128', '0'] + tailw
        alt = ['128', '0'] + taila
        # closed-form zero fill: `v.resize(NEWLEN, 0)` between 0x80 and the length bytes.  NEWLEN is decided over the finite
        # domain len mod 64 (two periods): the fill is the shortest one that makes the total length 0 mod 64
        closed = None
        if pushes[:1] == ['$msg']:
            # the padded vector is a new one that starts as a copy of the message
            pushes = pushes[1:]; app_blocks = app_blocks[1:]
        if pushes in (['128'] + tailw, ['128'] + taila):
            rs = [a_ for L_ in sorted(roots) for a_ in appends(pd, P, L_, None) if a_.kind == 'other:resize']
            if len(rs) == 1 and not rs[0].in_loop and len(getattr(rs[0], 'elems', ())) == 2 and const_int(rs[0].elems[1]) == 0:
                closed = _closed_fill(cn, rs[0].elems[0])
        if closed is not None:
            cx.add('L-LEN64', 'pad/bytes', closed[0], 'padding = 0x80, resize(NEWLEN, 0), then the 64-bit big-endian BIT length; NEWLEN decided for every len mod 64 over two periods: %s' % closed[1], pd.loc())
            lens = [b for b in FR.calls_of(pd, 'len')]
            first_len = min(lens) if lens else None
            dom = pd.dominators()
            cx.add('L-LEN64', 'pad/len-before-append', first_len is not None and all(first_len in dom.get(b, ()) for b in set(app_blocks)), 'the bit length is computed before anything is appended', pd.loc())
            cx.add('L-LEN64', 'pad/fill-loop', not any(b in c for b in set(app_blocks) for c in pd.sccs()), 'closed-form fill: nothing is appended inside a loop', pd.loc())
            cx.add('L-LEN64', 'pad/fill-exit', closed[0], 'closed-form fill: total length before the length field = 56 mod 64 with fewer than 64 zero bytes (%s)' % closed[1], pd.loc())
            return
        cx.add('L-LEN64', 'pad/bytes', pushes in (want, alt), 'padding = 0x80, zeros, then the 64-bit big-endian BIT length (8*len carried in 64 bits, 8 bytes): %s' % pushes, pd.loc())
        # the length is taken from the ORIGINAL message (before 0x80 is appended)
        lens = [b for b in FR.calls_of(pd, 'len')]
        first_len = min(lens) if lens else None
        pb = sorted(set(app_blocks))
        dom = pd.dominators()
        cx.add('L-LEN64', 'pad/len-before-append', first_len is not None and all(first_len in dom.get(b, ()) for b in pb), 'the bit length is computed before anything is appended', pd.loc())
        loops = pd.sccs()
        zero = sorted({b for b, v in zip(app_blocks, pushes) if v == '0'})
        inloop = [b for b in pb if any(b in c for c in loops)]
        cx.add('L-LEN64', 'pad/fill-loop', zero == inloop and len(zero) == 1, 'only the zero fill is inside the loop; 0x80 and the 8 length bytes are appended once', pd.loc())
        fill = [p for _, p, _, _ in G.bool_switches(pd, P) if p.kind == 'eq' and cn.c(p.args[0]).startswith('Rem(len(') and const_int(p.args[1]) == 56]
        cx.add('L-LEN64', 'pad/fill-exit', len(fill) == 1 and cn.c(fill[0].args[0]) in ('Rem(len($msg), 64)', 'Rem(len([$msg, byte(128), LOOP(byte:0)]), 64)'), 'zero fill stops exactly when length = 56 mod 64', pd.loc())
