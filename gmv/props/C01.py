"""C01 SM3 digest equals GB/T 32905 for every message"""
from .. import rules_k as K, paramalg as pa


def run(cx):
    cx.not_decided.append('equality of the 64-round compression function with GB/T 32905 for all 2^512 block values (functional)')
    K.oracle_selfcheck(cx, 'sm3')
    s = pa.sm3()
    K.k_array(cx, 'K-SM3', 'gm_sm3', 'IV', s.iv, 4)
    K.k_ints(cx, 'K-SM3', 'gm_sm3', {'T00': s.t0, 'T16': s.t16})
