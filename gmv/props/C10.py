"""C10 SM9 encryption round-trips, conforms to GM/T 0044.4, and is tamper-evident"""
import re
from ..prov import Prov, norm, strip, same, last, fn_is, const_int
from ..builder import Canon, preimage, branch_sequences
from .. import frame as FR, rules_g as G, paramalg as pa, rules_k as K
from .C05 import check_kdf

R = 'rand#1(SM9_N_MINUS_ONE)'
KLEN = '287'


def unloop(s):
    """`phi(X | var:v@loop)` -> X : a value re-assigned inside a retry loop (first iteration value)"""
    return re.sub(r'phi\((.*?) \| var:\w+@loop\)', r'\1', s)


def run(cx):
    cx.not_decided.append('the MAC definition (HMAC-SM3 here; GM/T 0044.4 specifies MAC(K2, Z) = Hv(Z || K2)) and all functional equalities (pairing, KDF output)')
    s9 = pa.sm9()
    check_kdf(cx, 'gm_sm9::key::kdf', 'F-SM9-KDF')
    K.k_ints(cx, 'K-SM9-ENC', 'gm_sm9', {'SM9_HID_ENC': 3, 'SM9_N_MINUS_ONE': s9.n - 1})
    for nme in ('SM9_POINT_MONT_P1', 'SM9_TWIST_POINT_MONT_P2'):
        K.k_struct(cx, 'K-SM9-ENC', 'gm_sm9', nme, s9.struct_consts[nme])
    # ------------------------------------------------------------ encrypt
    fn = cx.fn('<impl key::Sm9EncMasterKey>::encrypt')
    if fn is not None:
        P = Prov(fn, cx.F); cn = Canon(fn, P)
        Q = 'G1.point_add(G1.point_mul(SM9_POINT_MONT_P1, sm9_u256_hash1($idb, SM9_HID_ENC)), $self.ppube)'
        C1 = 'G1.point_mul(%s, %s)' % (Q, R)
        w = 'BE(pow(sm9_u256_pairing(SM9_TWIST_POINT_MONT_P2, $self.ppube), %s))' % R
        kin = ['index(BE(%s), Range::Range{1, len(BE(%s))})' % (C1, C1), w, '$idb']
        kin_alt = ['index(BE(%s), RangeFrom::RangeFrom{1})' % C1, w, '$idb']
        kd = FR.calls_of(fn, 'key::kdf')
        Kx = None
        if len(kd) == 1:
            seq, _ = preimage(fn, P, kd[0], 0, cn)
            seq = [unloop(x) for x in seq] if seq else seq
            FR.check_seq(cx, 'F-SM9-KDFIN', 'encrypt', fn, seq, kin_alt if seq == kin_alt else kin, 'K = KDF(x1 || y1 of C1 || w || ID_B, ..), C1 = [r]([H1(ID||03)]P1 + Ppub-e), w = e(Ppub-e, P2)^r, same r', kd[0])
            cx.add('F-SM9-KDFIN', 'encrypt/klen', FR.arg_canon(fn, P, cn, kd[0], 1) == KLEN, 'derived key length is 255 + 32 bytes (prefix property of the counter-mode KDF gives K1 || K2 for every |M| <= 255)', G.where(fn, kd[0]))
            Kx = 'kdf([%s], %s)' % (', '.join(seq or []), KLEN)
        else:
            cx.lost('F-SM9-KDFIN', 'encrypt', 'expected one kdf call', fn.loc())
        rets = [(b, i, st) for b, i, st in fn.stmts() if st['k'] == 'assign' and st['lhs']['l'] == 0 and not st['lhs']['p'] and st['rv']['k'] == 'use']
        if len(rets) == 1 and Kx:
            b, i, st = rets[0]
            chains = branch_sequences(fn, P, st['rv']['op'], b, i, cn) or []
            seq = [unloop(x) for x in chains[0][1]] if len(chains) == 1 else None
            c2 = 'xor(index(%s, Range::Range{0, len($data)}), $data, len($data))' % Kx
            c2b = 'xor($data, index(%s, Range::Range{0, len($data)}), len($data))' % Kx
            if seq and len(seq) == 3 and seq[2] == c2b:
                c2 = c2b
            c3 = 'sm3_hmac(index(%s, RangeFrom::RangeFrom{len($data)}), %s, 32)' % (Kx, c2)
            FR.check_seq(cx, 'F-SM9-CT', 'encrypt', fn, seq, ['BE(%s)' % C1, c3, c2], 'ciphertext = C1 || C3 || C2, C2 = M xor K1, C3 = MAC(K2, C2), K1 = K[0..|M|], K2 = K[|M|..]', b)
        else:
            cx.lost('F-SM9-CT', 'encrypt', 'returned vector not found', fn.loc())
    # ------------------------------------------------------------ decrypt
    fn = cx.fn('<impl key::Sm9EncKey>::decrypt')
    if fn is None:
        return
    P = Prov(fn, cx.F); cn = Canon(fn, P)
    sinks = G.ok_sinks(fn)
    c1b = 'index($data, Range::Range{0, 65})'
    C1p = 'from_bytes(%s)' % c1b
    w = 'BE(sm9_u256_pairing($self.de, %s))' % C1p
    kin = ['index($data, Range::Range{1, 65})', w, '$idb']      # data[0..65][1..65]: a slice of a slice is written as a slice of the original
    kd = FR.calls_of(fn, 'key::kdf')
    Kx = None
    if len(kd) == 1:
        seq, _ = preimage(fn, P, kd[0], 0, cn)
        FR.check_seq(cx, 'F-SM9-KDFIN', 'decrypt', fn, seq, kin, 'K = KDF(x1 || y1 as received || e(C1, de) || ID_B, ..) (sibling of encrypt)', kd[0])
        cx.add('F-SM9-KDFIN', 'decrypt/klen', FR.arg_canon(fn, P, cn, kd[0], 1) == KLEN, 'derived key length is 255 + 32 bytes as in encrypt', G.where(fn, kd[0]))
        Kx = 'kdf([%s], %s)' % (', '.join(seq or []), KLEN)
    else:
        cx.lost('F-SM9-KDFIN', 'decrypt', 'expected one kdf call', fn.loc())
    if Kx:
        mlen = 'SubWithOverflow(len($data), 97).0'
        c2 = 'index($data, RangeFrom::RangeFrom{97})'
        c3 = 'index($data, Range::Range{65, 97})'
        u = 'sm3_hmac(index(%s, RangeFrom::RangeFrom{%s}), %s, 32)' % (Kx, mlen, c2)

        def mmac(p):
            return p.kind == 'eq' and sorted([cn.c(p.args[0]), cn.c(p.args[1])]) == sorted([u, c3])
        G.guard(cx, 'G-SM9D-MAC', 'decrypt', fn, P, sinks, mmac, True, 'plaintext is returned only if MAC(K2, C2) equals the received C3 (C1 || C3 || C2 layout, K2 = K[|C2|..])')
        rets = FR.ret_exprs(fn, P)
        got = cn.c(norm(P.operand(rets[0][2], rets[0][0], rets[0][1]))) if len(rets) == 1 else ''
        k1 = 'index(%s, Range::Range{0, %s})' % (Kx, mlen)
        ok = got in ('xor(%s, %s, len(%s))' % (c2, k1, k1), 'xor(%s, %s, len(%s))' % (k1, c2, k1), 'xor(%s, %s, %s)' % (c2, k1, mlen), 'xor(%s, %s, len(%s))' % (c2, k1, c2))
        cx.add('F-SM9-M', 'decrypt', ok, 'returned plaintext is C2 xor K1 with K1 = K[0..|C2|]: %s' % FR.short(got, 200), fn.loc())
    # C1 must be on the curve before the pairing
    prs = [b for b in G.call_blocks(fn, 'points::sm9_u256_pairing')]
    if prs:
        G.guard(cx, 'G-SM9D-CURVE', 'decrypt', fn, P, prs, lambda p: p.kind == 'valid' and p.op == 'is_on_curve' and cn.c(p.args[0]) == C1p, True,
                'the decoded C1 must be on the curve before e(C1, de) is computed')
    # length: 97 <= len(data) <= 97 + 255 before any slicing
    idx = [b for b, _ in FR.slice_sites(fn, P, cn, 'data')]
    cx.floor('L-SM9D-LEN', 'decrypt/slices', len(idx), 3, 'slices of the ciphertext parameter')
    G.range_guard(cx, 'L-SM9D-LEN', 'decrypt', fn, P, idx or sinks, lambda e: cn.c(norm(e)) == 'len($data)', 97, 97 + 255,
                  'ciphertext length must be within [97, 352] (C1 65 + C3 32 + 0..255 bytes) before it is sliced')
    # C1 tag byte


_run_pow2 = run


def run(cx):
    from .. import rules_s as S
    _run_pow2(cx)
    # g^r / g^h: the GT exponentiation is a complete square-and-multiply over the four limbs of the exponent
    S.square_multiply(cx, 'I-POW', '<impl fields::fp12::Fp12>::pow')


_run_xor = run


def run(cx):
    from .. import rules_i as _I
    _run_xor(cx)
    # C2 = M xor K: the byte-wise XOR helper pairs equal indices over the whole length
    _I.xor_rule(cx, 'I-XOR', 'gm_sm9::u256::xor', 'k', 'data', ('$len',))


_run_hash = run


def run(cx):
    from .C16 import check_hash, check_from_hash
    from .. import paramalg as _pa
    _run_hash(cx)
    # H1(ID || hid) is part of this property's statement: its framing and the hash-to-range reduction are decided here too
    check_hash(cx, 'gm_sm9::key::sm9_u256_hash1', 'H1', _pa.sm9().consts['SM9_HASH1_PREFIX'], ['$id', 'array{$hid}'])
    check_from_hash(cx)
