"""C20 Untrusted input never crashes or hangs an entry point"""
import re
from ..prov import Prov, norm, strip, last, const_int
from ..builder import Canon
from .. import rules_l as L, rules_g as G, frame as FR, rules_r as R
from ..reviewed import R as REVIEWED

# public entry points that consume externally supplied bytes (property statement), by qualified-name suffix
ENTRIES = [
    '<impl key::Sm2PublicKey>::verify', '<impl key::Sm2PublicKey>::new', '<impl key::Sm2PublicKey>::from_hex_string',
    '<impl key::Sm2PrivateKey>::decrypt', '<impl key::Sm2PrivateKey>::decrypt_asn1', '<impl key::Sm2PrivateKey>::new', '<impl key::Sm2PrivateKey>::from_hex_string',
    '<impl key::Sm2PrivateKey>::sign', '<impl key::Sm2PublicKey>::encrypt', '<impl key::Sm2PublicKey>::encrypt_asn1',
    "pkcs::<impl std::convert::TryFrom<pkcs8::SubjectPublicKeyInfo<pkcs8::der::AnyRef<'_>, pkcs8::der::asn1::BitStringRef<'_>>> for key::Sm2PublicKey>::try_from",
    "pkcs::<impl std::convert::TryFrom<sec1::EcPrivateKey<'_>> for key::Sm2PrivateKey>::try_from",
    "pkcs::<impl std::convert::TryFrom<pkcs8::PrivateKeyInfo<'_>> for key::Sm2PrivateKey>::try_from",
    'gm_sm2::util::kdf', 'gm_sm2::util::compute_za',
    'gm_sm3::sm3_hash',
    '<impl Sm4Cipher>::new', '<impl Sm4Cipher>::encrypt', '<impl Sm4Cipher>::decrypt',
    '<impl Sm4CipherMode>::new', '<impl Sm4CipherMode>::encrypt', '<impl Sm4CipherMode>::decrypt',
    '<impl key::Sm9EncKey>::decrypt', '<impl key::Sm9SignMasterKey>::verify_sign', '<impl key::Sm9EncMasterKey>::encrypt', '<impl key::Sm9SignKey>::sign',
    'gm_sm9::fields::mod_n_from_hash', 'gm_sm9::key::exch_step_1b', 'gm_sm9::key::exch_step_2a',
    '<impl ZUC>::new', '<impl eea::EEA>::new', '<impl eea::EEA>::encrypt', '<impl eia::EIA>::new', '<impl eia::EIA>::gen_mac',
]
# parameters that are fixed-size by contract of the caller's own data (not attacker bytes) are still reported;
# the only exemptions are the reviewed-table entries.

ITER_OK = ('core::iter::range::<impl std::iter::Iterator for std::ops::Range<A>>::next',
           'core::slice::iter::<impl std::iter::Iterator for std::slice::Iter<\'a, T>>::next',
           'core::str::iter::<impl std::iter::Iterator for std::str::Bytes<\'_>>::next',
           'core::str::iter::<impl std::iter::Iterator for std::str::Chars<\'a>>::next',
           'core::iter::adapters::enumerate::<impl std::iter::Iterator for std::iter::Enumerate<I>>::next',
           'core::iter::adapters::rev::<impl std::iter::Iterator for std::iter::Rev<I>>::next',
           'core::array::iter::<impl std::iter::Iterator for std::array::IntoIter<T, N>>::next')

LOOP_REVIEWED = {
    'pad': 'Vec-growth loop: one byte is pushed per iteration, so len % 64 reaches 56 within 64 iterations',
    'sm3_hash': 'count*64 advances by 64 towards a padded length that is a multiple of 64 (pad): equality is reached',
}


INFINITE_SOURCES = ('repeat', 'repeat_with', 'cycle', 'successors', 'from_fn', 'once_with', 'iterate')
ADAPTERS = ('into_iter', 'iter', 'iter_mut', 'rev', 'by_ref', 'copied', 'cloned', 'enumerate', 'zip', 'map', 'take', 'skip', 'step_by', 'filter', 'peekable',
            'chunks_exact', 'chunks', 'windows', 'chunks_exact_mut', 'chunks_mut', 'bytes', 'chars', 'char_indices', 'as_bytes', 'lines', 'split')


def finite_iter(fn, fa, b, t):
    """the iterator advanced by this `next` is a std adapter chain over a finite source (a Range with an upper bound,
    a slice / array / Vec / str): every adapter in ADAPTERS yields at most as many items as its first source"""
    nm = t['fn']['name']
    if not nm.startswith(('core::', 'alloc::', 'std::')):
        return False
    if not t['args']:
        return False
    from ..prov import strip
    e = strip(norm(fa.P.operand(t['args'][0], b, len(fn.blocks[b]['stmts']))))
    depth = 0
    while e.k == 'call' and last(e.name) in ADAPTERS and e.args and depth < 12:
        e = strip(e.args[0])
        depth += 1
    if e.k == 'call' and last(e.name) in INFINITE_SOURCES:
        return False
    if e.k == 'aggr':
        return e.name in ('Range::Range', 'RangeInclusive::RangeInclusive', 'array', 'repeat')
    if e.k == 'call' and last(e.name) in ('new',) and 'RangeInclusive' in (e.name or ''):
        return True
    ty = (e.ty or '')
    if e.k in ('param', 'local', 'field', 'index', 'call', 'const', 'phi'):
        # a value (slice, array, Vec, String ..): finite unless it is itself an unbounded range
        return 'RangeFrom' not in ty and 'Repeat' not in ty and 'Cycle' not in ty
    return False


def classify_loops(cx, fn, an):
    """every CFG cycle is a finite iterator loop, a bounded counter loop, a rejection-sampling/retry loop, or reviewed"""
    out = []
    sccs = fn.sccs()
    if not sccs:
        return out
    fa = L.FnAnalysis(an, fn)
    for comp in sccs:
        # innermost classification: look for an iterator `next` whose result decides a loop exit
        kind = None
        for b in comp:
            t = fn.blocks[b]['term']
            if t['k'] == 'call' and t['fn']['k'] == 'def' and last(t['fn']['name']) == 'next' and (t['fn']['name'] in ITER_OK or finite_iter(fn, fa, b, t)):
                # the block after must switch on the discriminant with an edge leaving the component
                tb = t['target']
                if tb is not None and fn.blocks[tb]['term']['k'] == 'switch' and any(s not in comp for s in fn.succ(tb)):
                    kind = 'iterator'
        if kind is None:
            # counter loop: a switch inside the component with an exit edge compares a bounded counter
            for b in comp:
                t = fn.blocks[b]['term']
                if t['k'] == 'switch' and any(s not in comp for s in fn.succ(b)):
                    e = norm(fa.P.operand(t['op'], b, len(fn.blocks[b]['stmts'])))
                    for x in e.walk():
                        if x.k == 'local' and x.c and x.c.get('loopvar'):
                            lo, hi = fa.counter(x.c['l'])
                            if lo > -L.INF and hi < L.INF:
                                kind = 'counter[%d,%d]' % (lo, hi)
        if kind is None:
            # retry loop: contains a sampler call (fresh randomness per iteration; terminates with probability 1)
            for b in comp:
                t = fn.blocks[b]['term']
                if t['k'] == 'call' and t['fn']['k'] == 'def' and last(t['fn']['name']) in R.SAMPLER_NAMES + ('fill_bytes',):
                    kind = 'rejection'
        if kind is None and last(fn.name) in LOOP_REVIEWED:
            kind = 'reviewed: ' + LOOP_REVIEWED[last(fn.name)]
        out.append((min(comp), kind))
    return out


def run(cx):
    cx.not_decided.append('overflow of limb-VALUE arithmetic (u64/u128 operands such as z[4] + carry in mod_n_from_hash) is enumerated but not armed: it needs value ranges of field elements')
    cx.not_decided.append('termination of rejection/retry loops holds with probability 1 only (and, for SM2 signing, under the key-range precondition decided by G-CTOR-PRIV)')
    F = cx.F
    an = L.Analyzer(F, reviewed=REVIEWED)
    roots = []
    for q in ENTRIES:
        fs = F.find_fns(q)
        if len(fs) != 1:
            cx.lost('L-ENTRY', q, 'entry point not found (%d candidates)' % len(fs))
            continue
        roots.append(fs[0])
    cx.floor('L-ENTRY', 'entries', len(roots), len(ENTRIES), 'entry points consuming external bytes')
    seen, ext = F.closure([r.name for r in roots])
    cx.stat('closure_functions', len(seen))
    total = armed = unarmed = 0
    counts = {}
    for n in sorted(seen):
        fn = F.fns[n]
        sites = an.analyze(n)
        # stable keys: kind/head and ordinal within the function (no expression text: refactoring the operands of a
        # known finding must not turn it into a "new" violation)
        cnt_ = {}
        for s in sorted(sites, key=lambda z: z.block):
            head = s.desc.split('(')[0][:40]
            cnt_[head] = cnt_.get(head, 0) + 1
            s.skey = '%s#%s@%d' % (fn.short, head, cnt_[head])
        bad = [s for s in sites if s.status is None]
        for s in sites:
            total += 1
            counts[s.status or 'UNDISCHARGED'] = counts.get(s.status or 'UNDISCHARGED', 0) + 1
        if not sites:
            continue
        # one obligation per (function, undischarged site); one summary obligation per function otherwise
        if bad:
            seen_desc = set()
            for s in bad:
                if s.desc in seen_desc:
                    continue
                seen_desc.add(s.desc)
                cx.violate('L-PANIC', s.skey, 'panic site not excluded: %s in %s' % (s.desc[:160], fn.short), s.where(), {'kind': s.kind})
        else:
            cx.hold('L-PANIC', fn.short, '%d panic site(s) in %s all excluded (%s)' % (
                len(sites), fn.short, ', '.join('%s:%d' % (k, sum(1 for s in sites if s.status == k)) for k in ('OK', 'NEED', 'REVIEWED', 'UNARMED') if any(s.status == k for s in sites))), fn.loc())
    cx.stat('panic_sites', total)
    cx.stat('panic_site_status', counts)
    cx.floor('L-PANIC', 'sites', total, 600, 'panic sites enumerated in the entry-point closure')
    # entry points must not have a length precondition on caller bytes
    for r in roots:
        need = an.need.get(r.name) or {}
        for pn, k in sorted(need.items()):
            cx.violate('L-ENTRY', '%s/%s' % (r.short, pn), 'entry point %s panics when len(%s) < %d (no error is returned)' % (r.short, pn, k), r.loc())
        if not need:
            cx.hold('L-ENTRY', r.short, 'no slice/length precondition is left on the parameters of %s' % r.short, r.loc())
    # explicit unwraps of fallible decoders directly in entry points were handled as sites; loops:
    nl = 0
    for n in sorted(seen):
        fn = F.fns[n]
        nu = 0
        for (b, kind) in sorted(classify_loops(cx, fn, an)):
            nl += 1
            if kind is None:
                nu += 1
                cx.violate('L-LOOP', '%s@unbounded%d' % (fn.short, nu), 'loop in %s has no structural bound (not an iterator, bounded counter, or retry loop with a fresh draw)' % fn.short, G.where(fn, b))
    cx.add('L-LOOP', 'sweep', True, '%d CFG cycles in the closure classified (iterator / bounded counter / rejection with fresh draw / reviewed)' % nl)
    cx.floor('L-LOOP', 'cycles', nl, 60, 'loops in the closure')
    # recursion
    rec = []
    for n in seen:
        for c in F.callees(F.fns[n]):
            if c == n:
                rec.append(n)
    cx.add('L-LOOP', 'no-recursion', not rec, 'no directly recursive function in the closure: %s' % (rec or 'none'))


_run0 = run


def xor_callers(cx):
    """L-XOR: util::xor_bytes asserts len(a) == len(b) (reviewed site `util::xor_bytes#*panic`).  The reason given
    there is a precondition on the callers; it is decided here per call site: b is kdf(_, len(a)) and len(a) >= 1
    (kdf returns exactly klen bytes only for klen >= 1: for klen = 0 it returns one whole block)."""
    F = cx.F
    an = L.Analyzer(F, reviewed=REVIEWED)
    n = 0
    for name, fn in sorted(F.fns.items()):
        bs = G.call_blocks(fn, 'util::xor_bytes')
        if not bs:
            continue
        fa = L.FnAnalysis(an, fn)
        for b in bs:
            n += 1
            a0, a1 = G.call_args(fn, fa.P, b)[:2]
            inst = '%s@%d' % (fn.short, n)
            k = a1
            from ..prov import strip
            k = strip(k)
            while k.k == 'call' and last(k.name) in ('index', 'deref', 'as_slice', 'as_ref') and k.args:
                r = strip(k.args[1]) if len(k.args) > 1 else None
                if r is not None and not (r.k == 'aggr' and r.name == 'RangeFull::RangeFull'):
                    break
                k = strip(k.args[0])
            same_len = False
            if k.k == 'call' and last(k.name) == 'kdf' and len(k.args) == 2:
                la, _ = fa.linform(k.args[1])
                same_len = la == {'len(%s)' % fa.cn.c(a0): 1} and _ == 0
            lo = fa.slice_len_lower(a0, b)
            ok = same_len and lo is not None and lo >= 1
            cx.add('L-XOR', inst, ok, 'xor_bytes(a, b) in %s: b is kdf(_, len(a)): %s; len(a) >= %s established before the call (needs >= 1, kdf(_, 0) is 32 bytes long)' % (fn.short, same_len, lo),
                   G.where(fn, b), {'a': fa.cn.c(a0)[:200], 'b': fa.cn.c(a1)[:200]})
    cx.floor('L-XOR', 'callers', n, 2, 'call sites of util::xor_bytes')


def run(cx):
    _run0(cx)
    xor_callers(cx)


_run_pow = run


def run(cx):
    from .C09 import pow_exponent_range
    _run_pow(cx)
    # the reachable assertion `e <= N-1` in Fp12::pow: the only attacker-controlled exponent (h in verify_sign) is range-checked
    pow_exponent_range(cx, 'L-POW-PRE', 'L-POW-PRE')
