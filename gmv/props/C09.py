"""C09 SM9 signatures verify, conform to GM/T 0044.2, and forgeries are rejected"""
from ..prov import Prov, norm, strip, same, last, fn_is, const_int
from ..builder import Canon, preimage
from .. import frame as FR, rules_g as G, paramalg as pa, rules_k as K

Gs = 'sm9_u256_pairing($self.ppubs, SM9_POINT_MONT_P1)'
R = 'rand#1(SM9_N_MINUS_ONE)'


def pow_exponent_range(cx, rule_range='G-SM9V-RANGE', rule_assert='L-POW-ASSERT'):
    """Fp12::pow asserts e <= N-1: the verifier must have range-checked the attacker-supplied h before it becomes an exponent,
    and the assertion must admit every legal exponent"""
    s9 = pa.sm9()
    fn = cx.fn('<impl key::Sm9SignMasterKey>::verify_sign', rule_range)
    if fn is None:
        return
    P = Prov(fn, cx.F); cn = Canon(fn, P)
    sinks = G.ok_sinks(fn)
    # ---- h must be range checked before it is used as an exponent (pow asserts on its range)
    pows = [b for b in G.call_blocks(fn, '<impl fields::fp12::Fp12>::pow')]
    G.range_guard(cx, rule_range, 'verify_sign', fn, P, pows or sinks, lambda e: cn.c(norm(e)) == '$h', 1, s9.n - 1,
                  'h must lie in [1, N-1] before g^h is computed (else error, not a crash)')
    # ---- the exponent-range assertion in Fp12::pow must admit every legal exponent (<= N-1)
    pw = cx.fn('<impl fields::fp12::Fp12>::pow')
    if pw is not None:
        Pp = Prov(pw, cx.F); cp = Canon(pw, Pp)
        asserts = [b for b, t_ in pw.calls() if 'panicking' in t_['fn']['name']]
        bound = None
        for b, p, te, fe in G.bool_switches(pw, Pp):
            if p.kind == 'cmp' and cp.c(p.args[0]) == '$e' and const_int(p.args[1]) is not None:
                c = const_int(p.args[1])
                # edge leading to the panic
                for edges, truth in ((te, True), (fe, False)):
                    if any(a in pw.reachable(edges[0][1]) for a in asserts) and not any(a in pw.reachable((fe if truth else te)[0][1]) for a in asserts):
                        t_eff = truth if not p.neg else (not truth)
                        # panic when (e OP c) == t_eff  -> allowed set is the complement
                        allowed_hi = {('Lt', False): c - 1, ('Le', False): c, ('Ge', True): c - 1, ('Gt', True): c}.get((p.op, t_eff))
                        bound = allowed_hi
        if asserts:
            cx.add(rule_assert, 'Fp12::pow', bound is not None and bound >= s9.n - 1,
                   'the assertion in Fp12::pow admits every exponent in [0, N-1] (admits up to %s)' % (hex(bound) if bound is not None else '?'), pw.loc())
        else:
            cx.hold(rule_assert, 'Fp12::pow', 'Fp12::pow contains no assertion', pw.loc())



def run(cx):
    cx.not_decided.append('agreement with GM/T 0044.2 values and pairing correctness (functional, see C12/C13)')
    s9 = pa.sm9()
    K.k_ints(cx, 'K-SM9-SIGN', 'gm_sm9', {'SM9_N_MINUS_ONE': s9.n - 1, 'SM9_HID_SIGN': 1, 'SM9_HASH2_PREFIX': 2})
    K.k_struct(cx, 'K-SM9-SIGN', 'gm_sm9', 'SM9_POINT_MONT_P1', s9.struct_consts['SM9_POINT_MONT_P1'])
    # ---- sign
    fn = cx.fn('<impl key::Sm9SignKey>::sign')
    if fn is not None:
        P = Prov(fn, cx.F); cn = Canon(fn, P)
        w = 'BE(pow(%s, %s))' % (Gs, R)
        h = 'sm9_u256_hash2($data, %s)' % w
        l = 'mod_n_sub(%s, %s)' % (R, h)
        want = 'tuple{%s, G1.point_mul($self.ds, %s)}' % (h, l)
        rets = FR.ret_exprs(fn, P)
        got = cn.c(norm(P.operand(rets[0][2], rets[0][0], rets[0][1]))) if len(rets) == 1 else ''
        cx.add('F-SM9-SIGN', 'sign', got == want, 'signature = (h, [l]ds), h = H2(M || g^r), l = (r - h) mod N, g = e(P1, Ppub-s), same r: %s' % FR.short(got, 300), fn.loc())
        samplers = G.call_blocks(fn, 'u256::sm9_random_u256')
        sinks = G.ok_sinks(fn)
        G.guard(cx, 'G-SM9S-RETRY', 'sign', fn, P, sinks, lambda p: p.kind == 'is_zero' and cn.c(p.args[0]) == l, False,
                'l = 0 restarts with a fresh r', fail_must_pass=samplers)
    # ---- verify
    fn = cx.fn('<impl key::Sm9SignMasterKey>::verify_sign')
    if fn is None:
        return
    P = Prov(fn, cx.F); cn = Canon(fn, P)
    sinks = G.ok_sinks(fn)
    Pt = 'twist_point_add_full($self.ppubs, G2.g_mul(sm9_u256_hash1($id, SM9_HID_SIGN)))'
    Pt2 = 'twist_point_add_full(G2.g_mul(sm9_u256_hash1($id, SM9_HID_SIGN)), $self.ppubs)'
    t = 'pow(%s, $h)' % Gs
    cands = []
    for pt in (Pt, Pt2):
        u = 'sm9_u256_pairing(%s, $s)' % pt
        cands += ['sm9_u256_hash2($data, BE(fp_mul(%s, %s)))' % (u, t), 'sm9_u256_hash2($data, BE(fp_mul(%s, %s)))' % (t, u)]

    def mfinal(p):
        if not ((p.kind == 'cmp' and p.op in ('Eq', 'Ne')) or p.kind == 'eq'):
            return False
        a = [cn.c(x) for x in p.args]
        return ('$h' in a) and any(c in a for c in cands)
    insts = [p for _, p, _, _ in G.bool_switches(fn, P) if mfinal(p)]
    truth = not (insts and insts[0].kind == 'cmp' and insts[0].op == 'Ne')
    G.guard(cx, 'G-SM9V-FINAL', 'verify_sign', fn, P, sinks, mfinal, truth,
            'final comparison h2 == h with h2 = H2(M || e(S, [h1]P2 + Ppub-s) * g^h), h1 = H1(ID || hid_sign)')
    pow_exponent_range(cx)
    # ---- S must be a curve point before the pairing
    prs = [b for b in G.call_blocks(fn, 'points::sm9_u256_pairing') if '$s' in [FR.arg_canon(fn, P, cn, b, 1)]]
    if prs:
        G.guard(cx, 'G-SM9V-CURVE', 'verify_sign', fn, P, prs, lambda p: p.kind == 'valid' and p.op == 'is_on_curve' and cn.c(p.args[0]) == '$s', True,
                'S must be on the curve before e(S, P) is computed')
    else:
        cx.lost('G-SM9V-CURVE', 'verify_sign', 'pairing with the signature point not found', fn.loc())


_run0 = run


def run(cx):
    from .. import rules_s as S
    _run0(cx)
    fn = cx.fn('gm_sm9::points::twist_point_add_full', 'S-JADD')
    if fn is not None:
        S.s_jadd(cx, 'S-JADD', fn, 'TwistPoint::TwistPoint')   # P = [h1]P2 + Ppub-s must also be right when the two points coincide


_run_h = run


def run(cx):
    from .C16 import check_hash, check_from_hash
    _run_h(cx)
    # the hash-to-range functions the signature is built from (H2 for h, H1 for the verifier's h1)
    s = pa.sm9()
    check_hash(cx, 'gm_sm9::key::sm9_u256_hash2', 'H2', s.consts['SM9_HASH2_PREFIX'], ['$data', '$wbuf'])
    check_hash(cx, 'gm_sm9::key::sm9_u256_hash1', 'H1', s.consts['SM9_HASH1_PREFIX'], ['$id', 'array{$hid}'])
    check_from_hash(cx)


_run_pow2 = run


def run(cx):
    from .. import rules_s as S
    _run_pow2(cx)
    # g^r / g^h: the GT exponentiation is a complete square-and-multiply over the four limbs of the exponent
    S.square_multiply(cx, 'I-POW', '<impl fields::fp12::Fp12>::pow')
