"""C07 SM4 CBC/CFB/OFB/CTR modes match the standard modes and round-trip"""
from ..prov import Prov, norm, strip, same, last, fn_is, const_int
from ..builder import Canon, select_conds, root_local
from .. import frame as FR, rules_g as G
from .C05 import variant_names

BLK = 'Range::Range{MulWithOverflow(each(Range::Range{0, Div(len($data), 16)}), 16).0, AddWithOverflow(MulWithOverflow(each(Range::Range{0, Div(len($data), 16)}), 16).0, 16).0}'
TAILFROM = 'RangeFrom::RangeFrom{MulWithOverflow(Div(len($data), 16), 16).0}'


class Cls:
    """abstract a block-sized expression of a mode function into the vocabulary
    BUF (feedback register), IV, DATA[i], E(.), D(.), xor(.,.), PAD(..)"""

    def __init__(self, fn, P, cn):
        self.fn, self.P, self.cn = fn, P, cn

    def c(self, e, depth=0):
        e = strip(e)
        if depth > 12:
            return '?'
        if e.k == 'param':
            return {'iv': 'IV', 'data': 'DATA'}.get(e.name, '$' + e.name)
        if e.k == 'field' and e.name == '0' and e.args:
            inner = strip(e.args[0])
            if inner.k == 'field' and inner.name == 'as Continue':
                src = strip(inner.args[0])
                if src.k == 'call' and last(src.name) == 'branch':
                    return self.c(src.args[0], depth + 1)
            if inner.k == 'field' and inner.name == 'as Some':
                src = strip(inner.args[0])
                if src.k == 'call' and last(src.name) == 'next':
                    it = strip(src.args[0])
                    while it.k == 'call' and last(it.name) in ('into_iter', 'iter'):
                        it = strip(it.args[0])
                    if it.k == 'call' and last(it.name) == 'chunks_exact' and len(it.args) == 2 and const_int(it.args[1]) == 16 and self.c(it.args[0], depth + 1) == 'DATA':
                        return 'DATA[i]'      # block i of the data: `data.chunks_exact(16)` == `data[16i..16i+16]` for i in 0..len/16
                    return 'each(%s)' % self.c(it, depth + 1)
        if e.k == 'call':
            ln = last(e.name)
            if ln == 'block_xor':
                return 'xor(%s)' % ', '.join(sorted(self.c(a, depth + 1) for a in e.args))
            if ln == 'encrypt' and 'Sm4Cipher>' in e.name:
                return 'E(%s)' % self.c(e.args[1], depth + 1)
            if ln == 'decrypt' and 'Sm4Cipher>' in e.name:
                return 'D(%s)' % self.c(e.args[1], depth + 1)
            if ln == 'index' and len(e.args) == 2:
                base = self.c(e.args[0], depth + 1)
                r = self.cn.c(e.args[1])
                if base == 'DATA' and r == BLK:
                    return 'DATA[i]'
                if base == 'DATA' and r == TAILFROM:
                    return 'DATA[tail..]'
                return '%s[%s]' % (base, r)
            if ln in ('from_elem',):
                return 'BUF'
            if ln in ('new',):
                return 'OUT'
        if e.k == 'aggr' and e.name == 'repeat':
            v = const_int(e.args[0])
            if v == 0:
                return 'BUF'
            return 'PAD(%s)' % self.cn.c(e.args[0])
        if e.k == 'phi':
            alts = sorted(set(self.c(a, depth + 1) for a in e.args))
            if 'BUF' in alts:
                return 'BUF'
            return 'phi(%s)' % '|'.join(alts)
        if e.k == 'local':
            return 'BUF' if e.args and self.c(e.args[0], depth + 1) in ('BUF',) or e.name.startswith('vec_buf') else 'var:' + e.name
        return self.cn.c(e)


MODES = {
    # fn: (cipher-op arguments in the block loop, per-block output, feedback update)
    'cfb_encrypt': dict(out='each(xor(DATA[i], E(BUF)))', fb=('clone_from_slice', 'xor(DATA[i], E(BUF))'), tail=True),
    'cfb_decrypt': dict(out='each(xor(DATA[i], E(BUF)))', fb=('clone_from_slice', 'DATA[i]'), tail=True),
    'ofb_encrypt': dict(out='each(xor(DATA[i], E(BUF)))', fb=('clone_from_slice', 'E(BUF)'), tail=True),
    'ctr_encrypt': dict(out='each(xor(DATA[i], E(BUF)))', fb=('block_add_one', None), tail=True),
    'cbc_encrypt': dict(out='E(xor(BUF, DATA[i]))', fb=('assign', 'E(xor(BUF, DATA[i]))'), tail=False),
    'cbc_decrypt': dict(out='each(xor(BUF, D(DATA[i])))', fb=('copy_from_slice', 'DATA[i]'), tail=False),
}


def mode_fn(cx, name, spec):
    fn = cx.fn('<impl Sm4CipherMode>::' + name, 'I-MODES')
    if fn is None:
        return
    P = Prov(fn, cx.F); cn = Canon(fn, P); K = Cls(fn, P, cn)
    loops = fn.sccs()
    nexts = [b for b in FR.calls_of(fn, 'next') if FR.arg_canon(fn, P, cn, b, 0) in ('into_iter(Range::Range{0, Div(len($data), 16)})', 'chunks_exact($data, 16)', 'into_iter(chunks_exact($data, 16))')]
    if len(nexts) != 1:
        cx.violate('I-MODES', name + '/block-loop', 'expected one loop over 0..len(data)/16 full blocks, found %d' % len(nexts), fn.loc())
        return
    loop = max((c for c in loops if nexts[0] in c), key=len)
    # initial register = IV
    init = [b for b, t in fn.calls() if t['fn']['k'] == 'def' and last(t['fn']['name']) in ('clone_from_slice', 'copy_from_slice') and b not in loop
            and K.c(norm(P.operand(t['args'][1], b, len(fn.blocks[b]['stmts'])))) == 'IV']
    cx.add('I-MODES', name + '/init', len(init) == 1, 'the feedback register is initialised from the IV before the block loop', fn.loc())
    # output appends inside the loop
    outs = []
    for b, t in fn.calls():
        if b in loop and t['fn']['k'] == 'def' and last(t['fn']['name']) in ('push', 'extend_from_slice') and 'Vec' in t['fn']['name']:
            outs.append(K.c(norm(P.operand(t['args'][1], b, len(fn.blocks[b]['stmts'])))))
    # `for b in x.iter() { out.push(*b) }` and `out.extend_from_slice(&x)` append the same bytes
    def whole(s_):
        return s_[5:-1] if s_.startswith('each(') and s_.endswith(')') else s_
    cx.add('I-MODES', name + '/out', [whole(x) for x in outs] == [whole(spec['out'])], 'per-block output is %s (got %s)' % (spec['out'], outs), fn.loc())
    # feedback update inside the loop
    kind, want = spec['fb']
    got = []
    for b, t in fn.calls():
        if b in loop and t['fn']['k'] == 'def':
            ln = last(t['fn']['name'])
            if ln in ('clone_from_slice', 'copy_from_slice'):
                got.append((ln, K.c(norm(P.operand(t['args'][1], b, len(fn.blocks[b]['stmts']))))))
            elif ln == 'block_add_one':
                got.append((ln, None))
    for b, i, st in fn.stmts():
        if b in loop and st['k'] == 'assign' and not st['lhs']['p'] and fn.locals[st['lhs']['l']].get('name') == 'vec_buf':
            got.append(('assign', K.c(norm(P.rvalue(st['rv'], b, i, 0)))))
    COPY = ('clone_from_slice', 'copy_from_slice', 'assign')      # how the register receives the value does not matter
    same_fb = got == [(kind, want)] or (kind in COPY and len(got) == 1 and got[0][0] in COPY and got[0][1] == want)
    cx.add('I-MODES', name + '/feedback', same_fb, 'feedback register update per block is %s(%s) (got %s)' % (kind, want, got), fn.loc())
    # tail for stream modes: out.push(data[blk*16+i] ^ E(BUF)[i]) for i in 0..len - blk*16
    if spec['tail']:
        # the tail loop: an index loop over 0..len - 16*(len/16), or the left-over of data.chunks_exact(16) zipped with the
        # key-stream block (zip stops with the shorter side, the left-over)
        REM = 'remainder(chunks_exact($data, 16))'         # = data[(len/16)*16 ..], len % 16 bytes (std contract of ChunksExact::remainder)
        tl = [b for b in FR.calls_of(fn, 'next') if FR.arg_canon(fn, P, cn, b, 0) in ('into_iter(Range::Range{0, SubWithOverflow(len($data), MulWithOverflow(Div(len($data), 16), 16).0).0})',
                                                                                      'into_iter(Range::Range{0, len(%s)})' % REM)
              or FR.arg_canon(fn, P, cn, b, 0).startswith('into_iter(zip(iter(remainder(chunks_exact($data, 16))), iter(try(encrypt($self.cipher, ')]
        ok = len(tl) == 1
        tout = []
        if ok:
            tloop = max((c for c in loops if tl[0] in c), key=len)
            for b, t in fn.calls():
                if b in tloop and t['fn']['k'] == 'def' and last(t['fn']['name']) == 'push':
                    tout.append(cn.c(norm(P.operand(t['args'][1], b, len(fn.blocks[b]['stmts'])))))
            I = 'each(Range::Range{0, SubWithOverflow(len($data), MulWithOverflow(Div(len($data), 16), 16).0).0})'
            head = 'BitXor($data[AddWithOverflow(MulWithOverflow(Div(len($data), 16), 16).0, %s).0], ' % I
            # the key-stream block indexed as a Vec (`index(E(..), i)`) or through a slice of it (`E(..)[i]`)
            ok = len(tout) == 1 and ((tout[0].startswith(head + 'index(try(encrypt($self.cipher, ') and tout[0].endswith(', %s))' % I))
                                     or (tout[0].startswith(head + 'try(encrypt($self.cipher, ') and tout[0].endswith('[%s])' % I)))
            if not ok and len(tout) == 1:
                # the same bytes addressed through the left-over slice of data.chunks_exact(16)
                I2 = 'each(Range::Range{0, len(%s)})' % REM
                head2 = 'BitXor(%s[%s], ' % (REM, I2)
                ok = (tout[0].startswith(head2 + 'index(try(encrypt($self.cipher, ') and tout[0].endswith(', %s))' % I2)) or \
                    (tout[0].startswith(head2 + 'try(encrypt($self.cipher, ') and tout[0].endswith('[%s])' % I2))
        cx.add('I-MODES', name + '/tail', ok, 'the final partial block is data[blk*16+i] xor E(register)[i] for i < len mod 16 (output length = input length)', fn.loc(), {'tail': [FR.short(x, 200) for x in tout]})


def run(cx):
    cx.not_decided.append('equality with the standard modes / OpenSSL for all data (functional; depends on the block cipher, C02)')
    names = variant_names(cx, 'gm_sm4::CipherMode')
    for dirn, table in (('encrypt', {'Cfb': 'cfb_encrypt', 'Ofb': 'ofb_encrypt', 'Ctr': 'ctr_encrypt', 'Cbc': 'cbc_encrypt'}),
                        ('decrypt', {'Cfb': 'cfb_decrypt', 'Ofb': 'ofb_encrypt', 'Ctr': 'ctr_encrypt', 'Cbc': 'cbc_decrypt'})):
        fn = cx.fn('<impl Sm4CipherMode>::' + dirn)
        if fn is None:
            continue
        P = Prov(fn, cx.F); cn = Canon(fn, P)
        disp = {}
        blocks = []
        for b, t in fn.calls():
            c = t['fn']
            if c['k'] == 'def' and c['local'] and '<impl Sm4CipherMode>' in c['name']:
                conds = select_conds(fn, P, b, cn)
                v = [x.split('=')[1] for x in conds if x.startswith('discr($self.mode)=')]
                vn = names[int(v[0])] if v and v[0].isdigit() and int(v[0]) < len(names) else '?'
                disp[vn] = last(c['name'])
                blocks.append(b)
                a = [cn.c(x) for x in G.call_args(fn, P, b)]
                cx.add('S-MODE-DISPATCH', '%s/%s/args' % (dirn, vn), a == ['$self', '$data', '$iv'], 'mode function receives (self, data, iv) unchanged', G.where(fn, b))
        cx.add('S-MODE-DISPATCH', dirn, disp == table, '%s dispatches %s (inverse partners: CFB->cfb_decrypt, OFB/CTR->same keystream xor, CBC->cbc_decrypt)' % (dirn, disp), fn.loc())
        sc = G.ok_sinks(fn)
        cx.add('S-MODE-DISPATCH', dirn + '/no-shortcut', not sc, 'the dispatcher returns only what a mode function returned (no success value built here, e.g. for empty input — CBC pads an empty message to one block): Ok built at bb%s' % sc, fn.loc())
        G.guard(cx, 'L-IV16', dirn, fn, P, blocks or G.ok_sinks(fn),
                lambda p: p.kind == 'eq' and sorted([cn.c(p.args[0]), cn.c(p.args[1])]) == ['16', 'len($iv)'], True,
                'every mode function is reached only with a 16-byte IV')
    for name, spec in MODES.items():
        mode_fn(cx, name, spec)
    # ---- CBC decrypt: length and padding checks
    fn = cx.fn('<impl Sm4CipherMode>::cbc_decrypt')
    if fn is not None:
        P = Prov(fn, cx.F); cn = Canon(fn, P)
        sinks = G.ok_sinks(fn)
        G.guard(cx, 'L-CBC-LEN', 'cbc_decrypt/multiple', fn, P, sinks,
                lambda p: p.kind == 'eq' and sorted([cn.c(p.args[0]), cn.c(p.args[1])]) == ['0', 'Rem(len($data), 16)'], True,
                'CBC ciphertext length must be a multiple of 16')
        idx = [b for b in FR.calls_of(fn, 'index') if FR.arg_canon(fn, P, cn, b, 1) == 'SubWithOverflow(len($data), 1).0']
        G.range_guard(cx, 'L-CBC-LEN', 'cbc_decrypt/positive', fn, P, idx or sinks, lambda e: cn.c(norm(e)) == 'len($data)', 1, 1 << 300,
                      'CBC ciphertext must not be empty before its last byte is read')
        # padding byte range
        lastb = None
        for b in idx:
            t = fn.blocks[b]['term']
            lastb = norm(P.local(t['dest']['l'], t['target'], 0))
        if lastb is not None:
            G.range_guard(cx, 'G-PAD', 'cbc_decrypt', fn, P, sinks, lambda e: same(norm(e), lastb) or cn.c(norm(e)) == cn.c(lastb), 1, 16,
                          'PKCS#7 padding byte must be within 1..16')
            rs = FR.calls_of(fn, 'resize')
            ok = len(rs) == 1 and FR.arg_canon(fn, P, cn, rs[0], 1) == 'SubWithOverflow(len($data), (%s as usize)).0' % cn.c(lastb)
            cx.add('G-PAD', 'cbc_decrypt/strip', ok, 'exactly `padding byte` bytes are removed from the end', fn.loc())
    # ---- CBC encrypt padding
    fn = cx.fn('<impl Sm4CipherMode>::cbc_encrypt')
    if fn is not None:
        P = Prov(fn, cx.F); cn = Canon(fn, P); K = Cls(fn, P, cn)
        loops = fn.sccs()
        inloop = set().union(*loops) if loops else set()
        outs = {}
        for b, t in fn.calls():
            if b not in inloop and t['fn']['k'] == 'def' and last(t['fn']['name']) == 'extend_from_slice':
                conds = [c for c in select_conds(fn, P, b, cn) if 'Rem(len($data), 16)' in c]
                outs[tuple(conds)] = K.c(norm(P.operand(t['args'][1], b, len(fn.blocks[b]['stmts']))))
        rem = 'Rem(len($data), 16)'
        vals = sorted(outs.values())
        want = sorted(['E(xor(BUF, PAD(16)))', 'E(xor(BUF, PAD(SubWithOverflow(16, (%s as u8)).0)))' % rem])
        # one arm for every remainder: PAD(16 - rem) with the (possibly empty) tail copied over its first rem bytes is the
        # full 0x10 block when rem == 0 (rem = len % 16 is in 0..15, so 16 - rem is in 1..16)
        unified = vals == ['E(xor(BUF, PAD(SubWithOverflow(16, (%s as u8)).0)))' % rem]
        cx.add('I-CBC-PAD', 'cbc_encrypt', vals == want or unified, 'final block is E(register xor padded tail): full 0x10 block when len%%16==0 else tail || (16-rem) x (16-rem): %s' % outs, fn.loc())
        cps = [b for b in FR.calls_of(fn, 'copy_from_slice') if b not in inloop]
        ok = any(FR.arg_canon(fn, P, cn, b, 0) == 'index_mut(repeat{SubWithOverflow(16, (%s as u8)).0}, RangeTo::RangeTo{%s})' % (rem, rem) and
                 FR.arg_canon(fn, P, cn, b, 1) == 'index($data, %s)' % TAILFROM for b in cps)
        cx.add('I-CBC-PAD', 'cbc_encrypt/tail-copy', ok, 'the data tail is copied into the first len%16 bytes of the padding block', fn.loc())
        pad_blocks = [b for b, t in fn.calls() if b not in inloop and t['fn']['k'] == 'def' and last(t['fn']['name']) == 'extend_from_slice']
        oks = G.ok_sinks(fn)
        left = [s_ for s_ in oks if s_ in fn.reachable(0, removed_blocks=set(pad_blocks))]
        cx.add('I-CBC-PAD', 'cbc_encrypt/always', bool(pad_blocks) and not left, 'every successful return of cbc_encrypt has appended the padding block (output is the next multiple of 16, also for empty input)', fn.loc())
        # polarity: the 0x10 block only when rem == 0
        pol = {k: v for k, v in outs.items()}
        okp = False
        for conds, v in pol.items():
            if v == 'E(xor(BUF, PAD(16)))':
                okp = any(c.startswith('Ne(%s, 0)=0' % rem) or c.startswith('Eq(%s, 0)=1' % rem) or c == 'Eq(%s, 0)=otherwise' % rem for c in conds)
        okp = okp or unified
        cx.add('I-CBC-PAD', 'cbc_encrypt/polarity', okp, 'the full padding block is emitted exactly when len % 16 == 0: ' + str(list(pol.keys())), fn.loc())
    # ---- counter increment
    fn = cx.fn('gm_sm4::block_add_one')
    if fn is not None:
        P = Prov(fn, cx.F); cn = Canon(fn, P)
        # the 128-bit big-endian counter: bytes 15, 14, .. 0 in that order; each visited byte becomes byte + carry-in (wrapping)
        # with carry-in 1 (the loop goes on only after a wrap, so the carry variable is 1 whenever it is read); the walk goes on
        # exactly when the addition wrapped (overflow flag, or the new byte is 0 for an increment by one)
        from .. import rules_i as _I
        Pc = Prov(fn, cx.F, cut_loops=True); cc = Canon(fn, Pc)
        IDX = ('SubWithOverflow(15, each(Range::Range{0, 16})).0', 'each(rev(Range::Range{0, 16}))')
        sts = _I.stores(fn, cx.F, 'a', through_deref=True) + _I.stores(fn, cx.F, 'a')
        elem_assigns = [1 for b_, i_, st_ in fn.stmts() if st_['k'] == 'assign' and any(isinstance(q_, dict) and ('idx' in q_ or 'cidx' in q_) for q_ in st_['lhs']['p'])]
        if not elem_assigns:
            # the counter handled as the 128-bit big-endian integer it is: a[..16] = BE128(BE128(a[..16]) + 1 mod 2^128),
            # which is the specification itself (walk, carry, store and stop are all consequences)
            cps = [(cn.c(x[0]), cn.c(x[1])) for x in (G.call_args(fn, P, b_) for b_ in FR.calls_of(fn, 'copy_from_slice')) if len(x) == 2]
            W = 'index_mut($a, RangeTo::RangeTo{16})'
            direct = [c_ for c_ in cps if c_[0] in (W, '$a') and c_[1] in tuple('to_be_bytes:u128(wrapping_add(from_be_bytes:u128(%s), 1))' % r_ for r_ in ('[%s]' % W, W, '[index($a, RangeTo::RangeTo{16})]', 'unwrap(try_into(%s))' % W, 'unwrap(try_into(index($a, RangeTo::RangeTo{16})))'))]
            others = [c_ for c_ in cps if c_ not in direct and (c_[0].startswith(W) or c_[0] == '$a')]
            if len(direct) == 1 and not others:
                for inst_ in ('walk', 'carry', 'store', 'stop'):
                    cx.hold('I-CTR', 'block_add_one/' + inst_, 'the counter block is rewritten as BE128(BE128(a[..16]) + 1 mod 2^128): the 128-bit big-endian increment itself', fn.loc())
                sts = None
        if sts is not None:
            cx.add('I-CTR', 'block_add_one/walk', len(sts) == 1 and sts[0][0] in IDX, 'the increment walks all 16 bytes from index 15 down to 0 (stores: %s)' % [x[0] for x in sts][:4], fn.loc())
            idx = sts[0][0] if len(sts) == 1 else IDX[0]
            # each byte is read in the version left by the earlier visits (which wrote other indices) or as passed in
            # (a byte reached through the slice iterator's element reference carries no version: it is written through the
            # same reference it was read from)
            val = sts[0][1] if len(sts) == 1 else ''
            BYTE = '$a[%s]#{E|[%s]}' % (idx, idx)
            if BYTE not in val and idx == IDX[1]:
                BYTE = '$a[%s]' % idx
            import re as _re
            m_o = _re.match(r'^overflowing_add\(%s, (.*)\)\.0$' % _re.escape(BYTE), val)
            m_w = _re.match(r'^wrapping_add\(%s, 1\)$' % _re.escape(BYTE), val)
            addend = m_o.group(1) if m_o else ('1' if m_w else '')
            # the carry variable: initialised to 1, reassigned only from the overflow flag on the edge where the loop goes on
            carry_ok = addend == '1'
            if addend.startswith('var:') and addend.endswith('@in'):
                cl = [i_ for i_, l_ in enumerate(fn.locals) if l_.get('name') == addend[4:-3]]
                if len(cl) == 1:
                    defs = [cc.c(norm(Pc.rvalue(st['rv'], b_, i_, 0))) for b_, i_, st in fn.stmts() if st['k'] == 'assign' and not st['lhs']['p'] and st['lhs']['l'] == cl[0]]
                    carry_ok = sorted(set(defs)) == sorted({'1', '(overflowing_add(%s, %s).1 as u8)' % (BYTE, addend)})
            cx.add('I-CTR', 'block_add_one/carry', carry_ok, 'the addend is 1 for the last byte and the carry-out (which is 1 whenever the walk goes on) for the bytes above: %s' % FR.short(addend, 120), fn.loc())
            cx.add('I-CTR', 'block_add_one/store', bool(m_o or m_w), 'each byte is replaced by the wrapped sum at the same index: %s' % FR.short(val, 120), fn.loc())
            stop_ok = False
            loopb = set().union(*[c_ for _, c_ in fn.natural_loops()]) if fn.natural_loops() else set()
            for b_, p_, te_, fe_ in G.bool_switches(fn, Pc):
                if not p_.args or b_ not in loopb:
                    continue
                t0 = cc.c(p_.args[0])
                if m_o and t0 == 'overflowing_add(%s, %s).1' % (BYTE, addend) and p_.kind == 'unknown':
                    goes_on = fe_ if p_.neg else te_          # flag set -> next byte
                elif (m_o or m_w) and p_.kind == 'eq' and sorted(cc.c(a_) for a_ in p_.args) == sorted(['0', val if val.startswith('wrapping_add') else '%s' % val]):
                    goes_on = fe_ if p_.neg else te_          # new byte == 0 -> next byte
                elif m_w and p_.kind == 'eq' and sorted(cc.c(a_) for a_ in p_.args) == sorted(['0', BYTE]):
                    goes_on = fe_ if p_.neg else te_          # the byte just written is read back
                else:
                    continue
                stop_ok = all(tgt in loopb for _, tgt in goes_on) and all(tgt not in loopb or fn.blocks[tgt]['term']['k'] == 'return' for _, tgt in (te_ if goes_on is fe_ else fe_))
            cx.add('I-CTR', 'block_add_one/stop', stop_ok, 'propagation goes on exactly when the byte wrapped and stops at the first byte without carry-out', fn.loc())
