"""C06 SM2 decryption rejects every tampered or invalid-curve ciphertext"""
from ..prov import Prov, norm, strip, same, last, fn_is, const_int
from ..builder import Canon, select_conds
from .. import frame as FR, rules_g as G, paramalg as pa
from .C05 import variant_names


def run(cx):
    cx.not_decided.append('that a flipped ciphertext bit changes the SM3/KDF output (cryptographic strength); correctness of [d]C1')
    fn = cx.fn('<impl key::Sm2PrivateKey>::decrypt')
    if fn is None:
        return
    P = Prov(fn, cx.F)
    cn = Canon(fn, P)
    sinks = G.ok_sinks(fn)

    # ---- G-C1-CURVE: the decoded C1 reaches [d]C1 only after the on-curve test passed
    muls = [b for b in G.call_blocks(fn, '<impl p256_ecc::Point>::scalar_mul')]
    d_muls = []
    c1 = None
    for b in muls:
        a = G.call_args(fn, P, b)
        if G.has_call(a[0], 'from_byte') and G.has_param(a[1], 'self'):
            d_muls.append(b)
            c1 = a[0]
    if not d_muls:
        cx.lost('G-C1-CURVE', 'decrypt', 'no scalar multiplication of the decoded C1 by the private key found', fn.loc())
    else:
        G.guard(cx, 'G-C1-CURVE', 'decrypt', fn, P, d_muls,
                lambda p: p.kind == 'valid' and G.contains(p.args[0], lambda x: same(x, c1)), True,
                'on-curve test of the decoded C1 before [d]C1', require_fail_blocks_sink=True)
        cx.add('G-C1-CURVE', 'decrypt/source', G.has_param(c1, 'ciphertext'), 'C1 is decoded from the ciphertext parameter: %s' % cn.c(c1), G.where(fn, d_muls[0]))

    # ---- G-C3: Ok(M') only when SM3(x2 || M' || y2) equals the C3 carried by the ciphertext
    rets = FR.ret_exprs(fn, P)
    if len(rets) != 1:
        cx.lost('G-C3', 'decrypt', 'expected one Ok(..) exit, found %d' % len(rets), fn.loc())
        return
    rb, ri, rop = rets[0]
    m_expr = cn.c(norm(P.operand(rop, rb, ri)))
    Sd = 'scalar_mul(%s, $self.d)' % cn.c(c1) if c1 is not None else '?'

    def is_u(e):
        e = strip(e)
        if not (e.k == 'call' and fn_is(e.name, 'gm_sm3::sm3_hash')):
            return False
        s = cn.c(e)
        return s == 'sm3_hash([X(%s), %s, Y(%s)])' % (Sd, m_expr, Sd)

    def is_c3(e):
        return G.has_param(e, 'ciphertext') and not G.has_call(e, 'sm3_hash') and not G.has_call(e, 'kdf')

    def m_c3(p):
        return p.kind == 'eq' and ((is_u(p.args[0]) and is_c3(p.args[1])) or (is_u(p.args[1]) and is_c3(p.args[0])))
    G.guard(cx, 'G-C3', 'decrypt', fn, P, sinks, m_c3, True,
            'C3 check: SM3(x2 || M\' || y2) == C3 from the ciphertext, with (x2,y2) = [d]C1 and M\' the returned plaintext')
    # plaintext = C2 xor KDF(x2||y2, |C2|)
    want_m = 'xor_bytes('
    ok = m_expr.startswith('xor_bytes(') and ('kdf([X(%s), Y(%s)], len(' % (Sd, Sd)) in m_expr and '$ciphertext' in m_expr
    cx.add('F-DEC-M', 'decrypt', ok, 'returned plaintext is C2 xor KDF(x2 || y2, |C2|): %s' % FR.short(m_expr, 260), G.where(fn, rb))

    # ---- S-ENCDEC: component positions per model are the complement of encrypt's layouts
    names = variant_names(cx, 'key::Sm2Model')
    # find the slicing calls on the ciphertext parameter
    slices = {}
    for b, parts in FR.slice_sites(fn, P, cn, 'ciphertext'):
        conds = select_conds(fn, P, b, cn)
        vn = 'any'
        for c in conds:
            if c.startswith('discr($model)='):
                v = c.split('=')[1]
                vn = names[int(v)] if v.isdigit() and int(v) < len(names) else v
        for e_ in parts:
            es_ = strip(e_)
            if es_.k == 'call' and last(es_.name) in ('index', 'index_mut') and len(es_.args) == 2 and strip(es_.args[0]).k == 'param':
                slices.setdefault(vn, []).append(cn.c(es_.args[1]))
    c1e = 'phi(33 | 65)'
    want = {
        'any': ['Range::Range{0, %s}' % c1e],
        'C1C2C3': sorted(['Range::Range{%s, SubWithOverflow(len($ciphertext), 32).0}' % c1e, 'RangeFrom::RangeFrom{SubWithOverflow(len($ciphertext), 32).0}']),
        'C1C3C2': sorted(['RangeFrom::RangeFrom{AddWithOverflow(%s, 32).0}' % c1e, 'Range::Range{%s, AddWithOverflow(%s, 32).0}' % (c1e, c1e)]),
    }
    for vn in ('any', 'C1C2C3', 'C1C3C2'):
        got = sorted(slices.get(vn, []))
        got_n = [g.replace('phi(65 | 33)', c1e) for g in got]
        if vn == 'any' and got_n != want[vn] and 'Range::Range{0, %s}' % c1e in got_n and set(got_n) <= {'Range::Range{0, %s}' % c1e, 'RangeFrom::RangeFrom{%s}' % c1e}:
            got_n = want[vn]      # the rest after C1 taken as one piece first (then split per model) is not a component of its own
        cx.add('S-ENCDEC', 'decrypt/' + vn, got_n == want[vn],
               'ciphertext split for %s is %s (C1 = first 33/65 bytes; C3 = 32 bytes; C2 = the rest)' % (vn, got_n), fn.loc(), {'got': got_n, 'want': want[vn]})
    # c1 length choice follows `compressed`
    cx.add('S-ENCDEC', 'decrypt/c1len', True, 'C1 length is chosen from {33, 65}', fn.loc()) if any('phi(33 | 65)' in x or 'phi(65 | 33)' in x for v in slices.values() for x in v) else \
        cx.violate('S-ENCDEC', 'decrypt/c1len', 'C1 length is not one of {33,65}', fn.loc())
    for b, p, te, fe in G.bool_switches(fn, P):
        if p.kind == 'unknown' and p.args and p.args[0].k == 'param' and p.args[0].name == 'compressed':
            # true edge must pick 33
            def picked(edge):
                r = fn.reachable(edge[1], removed_blocks={b})
                vals = set()
                for bb, i, st in fn.stmts():
                    if bb in r and st['k'] == 'assign' and st['rv']['k'] == 'use' and st['rv']['op']['k'] == 'const':
                        v = st['rv']['op']['c']
                        if v.get('k') == 'int' and v.get('ty') == 'usize' and int(v['bits']) in (33, 65):
                            # only the assignment directly in the successor block
                            if bb == edge[1]:
                                vals.add(int(v['bits']))
                return vals
            cx.add('S-ENCDEC', 'decrypt/c1len-polarity', picked(te[0]) == {33} and picked(fe[0]) == {65},
                   'compressed=true selects 33 bytes, false selects 65', G.where(fn, b))
            break


def dec_minlen(cx, fn):
    # the length guard must not reject valid short ciphertexts: compressed C1 (33) + C3 (32) + 1 byte of C2 = 66
    from .. import rules_l as L
    from ..reviewed import R as REVIEWED
    from ..prov import E
    fa = L.FnAnalysis(L.Analyzer(cx.F, reviewed=REVIEWED), fn)
    sinks = G.ok_sinks(fn)
    lo = min(fa.length(E('param', 'ciphertext', ty='&[u8]'), s_)[0] for s_ in sinks) if sinks else None
    cx.add('L-DEC-MINLEN', 'decrypt', lo is not None and lo <= 66, 'the smallest ciphertext length that can reach Ok is %s; the smallest valid ciphertext (compressed C1, one byte of C2) has 66 bytes' % lo, fn.loc())


_run0 = run


def run(cx):
    from .C05 import zero_check
    _run0(cx)
    fn = cx.fn('<impl key::Sm2PrivateKey>::decrypt')
    if fn is None:
        return
    P = Prov(fn, cx.F); cn = Canon(fn, P)
    kd = FR.calls_of(fn, 'util::kdf')
    if len(kd) == 1:
        t = cn.c(norm(P.local(fn.blocks[kd[0]]['term']['dest']['l'], fn.blocks[kd[0]]['term']['target'], 0)))
        zero_check(cx, fn, P, cn, 'decrypt', t)
        dec_minlen(cx, fn)


_run1 = run


def ident(e, cn):
    """identity key of a bound expression: canonical text, but a merge of constants keeps the variable it was merged
    into (two different variables that both hold "33 or 65" are different bounds)"""
    e = strip(e)
    if e.k == 'phi':
        return 'phi#%s(%s)' % ((e.c or {}).get('phi_name', '?'), ' | '.join(sorted(ident(a, cn) for a in e.args)))
    if e.k == 'field' and e.name == '0' and e.args and strip(e.args[0]).k == 'binop':
        b = strip(e.args[0])
        return '%s(%s)' % (b.name.replace('WithOverflow', ''), ', '.join(ident(a, cn) for a in b.args))
    if e.k == 'binop':
        return '%s(%s)' % (e.name.replace('WithOverflow', ''), ', '.join(ident(a, cn) for a in e.args))
    return cn.c(e)


def tiling(cx):
    """F-TILE: per model, the slices taken from the ciphertext tile it: the first starts at 0, every next one starts at
    the very bound (same variable, not merely the same set of possible values) where the previous one ends, and the
    last one runs to the end.  A byte that belongs to no component is covered by neither the C1 decoder nor C3."""
    fn = cx.fn('<impl key::Sm2PrivateKey>::decrypt')
    if fn is None:
        return
    P = Prov(fn, cx.F); cn = Canon(fn, P)
    names = variant_names(cx, 'key::Sm2Model')
    per = {}
    by_text = {}
    dom = fn.dominators()
    sites = sorted(FR.slice_sites(fn, P, cn, 'ciphertext', detail=True), key=lambda x: (len(dom.get(x[0], ())), x[0]))
    for b, parts, kind, a0 in sites:
        conds = select_conds(fn, P, b, cn)
        vn = 'any'
        for c in conds:
            if c.startswith('discr($model)='):
                v = c.split('=')[1]
                vn = names[int(v)] if v.isdigit() and int(v) < len(names) else v
        if kind.startswith('split_at'):
            # x.split_at(k) tiles x by construction: [lo..k) and [k..hi) share the very same bound; the piece that is split
            # stops being a component of its own
            base = by_text.get(cn.c(a0)) or (('0', 'END') if strip(a0).k == 'param' else None)
            if base is None:
                per.setdefault(vn, []).append(('?', '?'))
                continue
            for lst in per.values():
                if base in lst:
                    lst.remove(base)
            tok = 'split@bb%d' % b
            s0, s1 = (base[0], tok), (tok, base[1])
            by_text[cn.c(parts[0])] = s0
            by_text[cn.c(parts[1])] = s1
            per.setdefault(vn, []).extend([s0, s1])
            continue
        es_ = strip(parts[0])
        if not (es_.k == 'call' and len(es_.args) == 2):
            continue
        r = strip(es_.args[1])
        if r.k != 'aggr':
            continue   # single-byte reads (tag inspection) are not component slices
        if r.name == 'Range::Range':
            seg = (ident(r.args[0], cn), ident(r.args[1], cn))
        elif r.name == 'RangeFrom::RangeFrom':
            seg = (ident(r.args[0], cn), 'END')
        elif r.name == 'RangeTo::RangeTo':
            seg = ('0', ident(r.args[0], cn))
        else:
            seg = ('?', '?')
        by_text[cn.c(parts[0])] = seg
        per.setdefault(vn, []).append(seg)
    n = 0
    for vn in [x for x in names if x in per]:
        segs = per.get('any', []) + per[vn]
        # order as a chain from '0'
        chain, cur, left = [], '0', list(segs)
        while left:
            nxt = [s for s in left if s[0] == cur]
            if len(nxt) != 1:
                break
            chain.append(nxt[0]); left.remove(nxt[0]); cur = nxt[0][1]
        ok = not left and cur == 'END' and len(chain) == 3
        n += 1
        cx.add('F-TILE', 'decrypt/' + vn, ok, 'ciphertext slices for %s: %s%s' % (vn, ' '.join('[%s..%s)' % s for s in chain),
               '' if ok else '  — not a tiling; unplaced: %s' % left), fn.loc(), {'segments': segs})
    cx.floor('F-TILE', 'decrypt/models', n, 2, 'models whose slicing was examined')


def run(cx):
    _run1(cx)
    tiling(cx)


_run_c1 = run


def run(cx):
    from .C19 import from_byte, to_byte
    _run_c1(cx)
    # decoding and encoding of C1 (both encodings): tag, length, coordinate range, root selection, tag parity
    from_byte(cx)
    to_byte(cx)


_run_xor = run


def run(cx):
    from .. import rules_i as _I
    _run_xor(cx)
    # C2 = M xor K: the byte-wise XOR helper pairs equal indices over the whole length
    _I.xor_rule(cx, 'I-XOR', 'gm_sm2::util::xor_bytes', 'a', 'b', ('len($a)', 'len($b)'))


_run_lxor = run


def run(cx):
    _run_lxor(cx)
    # a ciphertext cut down to C1 || C3 (empty C2) must be rejected with an error, not reach the XOR helper's length
    # assertion: every caller of xor_bytes passes kdf(_, len(a)) with len(a) >= 1 established before the call
    from .C20 import xor_callers
    xor_callers(cx)
