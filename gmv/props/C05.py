"""C05 SM2 public-key encryption round-trips and conforms to GB/T 32918.4"""
import re
from ..prov import Prov, norm, last
from ..builder import Canon, branch_sequences, preimage
from .. import frame as FR, rules_g as G

COUNTER = 'phi(1 | AddWithOverflow(phi(1 | var:ct@loop), 1).0)'
# accepted idioms for "number of full-hash iterations before the last block": 1..ceil(klen/32)
RANGE_IDIOMS = (
    'Range::Range{1, (ceil(Div(($klen as f64), 0x4040000000000000)) as u32)}',
    'Range::Range{1, (Div(AddWithOverflow($klen, 31).0, 32) as u32)}',
    'Range::Range{1, Div(AddWithOverflow($klen, 31).0, 32)}',
)


def ceil_blocks(it):
    """the counter loop `1..ceil(klen/32)`: the integer spellings of the ceiling division (with or without a saturating
    conversion to u32) next to the float one of the reviewed code"""
    import re as _re
    m = _re.match(r'^(?:into_iter\()?Range::Range\{1, (.*)\}\)?$', it)
    if not m:
        return False
    e = m.group(1)
    for _ in range(4):
        m2 = _re.match(r'^unwrap_or\(try_from\((.*)\), 0xffffffff\)$', e) or _re.match(r'^\((.*) as u32\)$', e) or _re.match(r'^phi\((.*) \| 0xffffffff\)$', e) or _re.match(r'^phi\(0xffffffff \| (.*)\)$', e)
        if not m2:
            break
        e = m2.group(1)
    K = '$klen'
    forms = (
        'div_ceil(%s, 32)' % K,
        'Div(AddWithOverflow(%s, 31).0, 32)' % K,
        'AddWithOverflow(Div(%s, 32), (Ne(Rem(%s, 32), 0) as usize)).0' % (K, K),
        'AddWithOverflow(Div(%s, 32), ((Ne(Rem(%s, 32), 0) as u8) as usize)).0' % (K, K),
        'phi(AddWithOverflow(Div(%s, 32), 1).0 | Div(%s, 32))' % (K, K),
        'phi(Div(%s, 32) | AddWithOverflow(Div(%s, 32), 1).0)' % (K, K),
    )
    return e in forms


def variant_names(cx, adt_suffix):
    for n, a in cx.F.adts.items():
        if n == adt_suffix or n.endswith('::' + adt_suffix):
            return [v['name'] for v in a['variants']]
    return []


def check_kdf(cx, qual, rule='F-KDF'):
    """counter-mode KDF: block i hashes [Z, u32-BE(i)], i = 1,2,...; ceil(klen/32) blocks; last truncated to klen%32"""
    fn = cx.fn(qual, rule)
    if fn is None:
        return
    P = Prov(fn, cx.F)
    cn = Canon(fn, P)
    hs = FR.calls_of(fn, 'gm_sm3::sm3_hash')
    cx.floor(rule, fn.short + '/hash-sites', len(hs), 2, 'SM3 invocations in the KDF (loop body + last block)')
    # the counter: a variable started at 1 and incremented once per block (the same expression at both hash sites), or the
    # loop variable of `for ct in 1..B` for the full blocks and max(B, 1) for the last one -- the loop runs max(B-1, 0)
    # times, so the block after it is number 1 + max(B-1, 0) = max(B, 1)
    c0 = c1 = COUNTER
    seqs = [preimage(fn, P, b, 0, cn)[0] for b in hs]
    if len(seqs) == 2 and all(sq and len(sq) == 2 for sq in seqs):
        m_ = re.match(r'^to_be_bytes:u32\(each\(Range::Range\{1, (.*)\}\)\)$', seqs[0][1])
        if m_ and seqs[1][1] == 'to_be_bytes:u32(max(%s, 1))' % m_.group(1):
            c0, c1 = 'each(Range::Range{1, %s})' % m_.group(1), 'max(%s, 1)' % m_.group(1)
    block = '[$z, to_be_bytes:u32(%s)]' % c0
    for b in hs:
        seq, other = preimage(fn, P, b, 0, cn)
        FR.check_seq(cx, rule, '%s/preimage@%d' % (fn.short, hs.index(b)), fn, seq, ['$z', 'to_be_bytes:u32(%s)' % (c0 if hs.index(b) == 0 else c1)],
                     'KDF block preimage is Z || 4-byte big-endian counter starting at 1, +1 per block', b)
    # result layout
    rets = [(b, i, st['rv']['op']) for b, i, st in fn.stmts() if st['k'] == 'assign' and st['lhs']['l'] == 0 and not st['lhs']['p'] and st['rv']['k'] == 'use']
    if len(rets) != 1:
        cx.lost(rule, fn.short + '/result', 'expected a single returned vector', fn.loc())
        return
    b, i, op = rets[0]
    chains = branch_sequences(fn, P, op, b, i, cn)
    h = 'sm3_hash(%s)' % block
    hl = 'sm3_hash([$z, to_be_bytes:u32(%s)])' % c1        # the last block
    want = sorted([['LOOP(bytes:%s)' % h, hl], ['LOOP(bytes:%s)' % h, 'index(%s, Range::Range{0, Rem($klen, 32)})' % hl]])
    got = sorted(seq for _, seq in (chains or []))
    cx.add(rule, fn.short + '/result', got == want,
           'KDF output = full hash blocks in a loop, then the last block whole (klen%%32==0) or truncated to klen%%32 bytes: %s' % (got if got != want else 'ok'),
           fn.loc(), {'got': got})
    # which branch is which: whole last block only under klen % 32 == 0
    for conds, seq in chains or []:
        pass
    sw = [(bb, p, te, fe) for bb, p, te, fe in G.bool_switches(fn, P)]
    okb = False
    for bb, p, te, fe in sw:
        s = cn.c(p.raw) if p.raw is not None else ''
        if p.kind == 'eq' and sorted(cn.c(a) for a in p.args) == ['0', 'Rem($klen, 32)']:
            # on the "equal" edge the whole block must be appended, on the other the truncated one
            eq_edges = fe if p.neg else te
            ne_edges = te if p.neg else fe
            whole = [x for x in FR.calls_of(fn, 'extend_from_slice')]
            def appended(edge):
                r = fn.reachable(edge[1], removed_blocks={bb})
                outs = []
                for cb in whole:
                    if cb in r:
                        outs.append(cn.c(norm(P.operand(fn.blocks[cb]['term']['args'][1], cb, len(fn.blocks[cb]['stmts'])))))
                return outs
            a_eq = appended(eq_edges[0]) if eq_edges else []
            a_ne = appended(ne_edges[0]) if ne_edges else []
            okb = (hl in a_eq and not any('Rem($klen' in x for x in a_eq)) and any(x.startswith('index(' + hl) for x in a_ne)
    cx.add(rule, fn.short + '/trunc-branch', okb, 'the whole last block is used exactly when klen % 32 == 0, otherwise its first klen % 32 bytes', fn.loc())
    # loop trip count
    nx = FR.calls_of(fn, 'next')
    idioms = []
    for b2 in nx:
        e = cn.c(norm(P.operand(fn.blocks[b2]['term']['args'][0], b2, len(fn.blocks[b2]['stmts']))))
        idioms.append(e)
    ok = any(any(r in e for r in RANGE_IDIOMS) for e in idioms) or any(ceil_blocks(e) for e in idioms)
    cx.add(rule, fn.short + '/block-count', ok, 'loop runs for counters 1..ceil(klen/32)-1 and the last block follows (accepted idioms: %d): %s' % (len(RANGE_IDIOMS), idioms), fn.loc())


S = 'scalar_mul($self.point, rand#1)'
C1 = 'BE(to_affine_point(g_mul(rand#1)), $compressed)'
C2 = 'xor_bytes($msg, kdf([X(%s), Y(%s)], len($msg)))' % (S, S)
C3 = 'sm3_hash([X(%s), $msg, Y(%s)])' % (S, S)


def run(cx):
    cx.not_decided.append('round trip for every message and equality with reference ciphertexts (functional: scalar multiplication, SM3, xor)')
    check_kdf(cx, 'gm_sm2::util::kdf')
    fn = cx.fn('<impl key::Sm2PublicKey>::encrypt')
    if fn is None:
        return
    P = Prov(fn, cx.F)
    cn = Canon(fn, P)
    rets = FR.ret_exprs(fn, P)
    if len(rets) != 1:
        cx.lost('F-CT-ORDER', 'encrypt', 'expected one Ok(..) exit in encrypt, found %d' % len(rets), fn.loc())
        return
    b, i, op = rets[0]
    chains = branch_sequences(fn, P, op, b, i, cn) or []
    names = variant_names(cx, 'key::Sm2Model')
    want = {'C1C2C3': [C1, C2, C3], 'C1C3C2': [C1, C3, C2]}
    seen = set()
    for conds, seq in chains:
        vn = None
        for c in conds:
            if c.startswith('discr($model)='):
                v = c.split('=')[1]
                if v.isdigit() and int(v) < len(names):
                    vn = names[int(v)]
        if vn is None:
            cx.violate('F-CT-ORDER', 'encrypt/?', 'ciphertext layout not selected by the model argument: %s' % conds, G.where(fn, b))
            continue
        seen.add(vn)
        FR.check_seq(cx, 'F-CT-ORDER', 'encrypt/' + vn, fn, seq, want.get(vn, []),
                     'ciphertext for %s is C1=[k]G encoded, C2=M xor KDF(x2||y2,|M|), C3=SM3(x2||M||y2) with (x2,y2)=[k]P, same k' % vn, b)
    cx.floor('F-CT-ORDER', 'encrypt/variants', len(seen), 2, 'ciphertext layouts (one per Sm2Model variant)')


_run0 = run


def zero_check(cx, fn, P, cn, inst, want_kdf):
    """the all-zero test that precedes the xor is applied to the KDF output t (not to the message / plaintext)"""
    its = []
    from ..prov import strip as _strip, norm as _norm2
    for b, t_ in fn.calls():
        if t_['fn']['k'] != 'def' or last(t_['fn']['name']) not in ('next', 'all', 'any') or not t_['args']:
            continue
        e = _strip(_norm2(P.operand(t_['args'][0], b, len(fn.blocks[b]['stmts']))))
        # the scanned collection: strip the iterator adapters (a `for` loop, `.iter().all(..)`, `.iter().any(..)`)
        while e.k == 'call' and last(e.name) in ('into_iter', 'iter', 'by_ref') and e.args:
            e = _strip(e.args[0])
        a = cn.c(e)
        if 'kdf(' in a and 'Range::Range' not in a.split('kdf(')[0]:
            its.append('into_iter(%s)' % a)
    ok = any(a == 'into_iter(%s)' % want_kdf for a in its)
    cx.add('F-ZERO-CHECK', inst, ok, 'the zero test iterates over the KDF output: %s' % [FR.short(a, 120) for a in its], fn.loc())


def run(cx):
    _run0(cx)
    fn = cx.fn('<impl key::Sm2PublicKey>::encrypt')
    if fn is not None:
        P = Prov(fn, cx.F); cn = Canon(fn, P)
        zero_check(cx, fn, P, cn, 'encrypt', 'kdf([X(%s), Y(%s)], len($msg))' % (S, S))
    # sibling: decrypt applies the same test to its own KDF output (a test on the plaintext would reject all-zero messages)
    fd = cx.fn('<impl key::Sm2PrivateKey>::decrypt')
    if fd is not None:
        from ..prov import norm as _norm
        P = Prov(fd, cx.F); cn = Canon(fd, P)
        kd = FR.calls_of(fd, 'util::kdf')
        if len(kd) == 1:
            t = cn.c(_norm(P.local(fd.blocks[kd[0]]['term']['dest']['l'], fd.blocks[kd[0]]['term']['target'], 0)))
            zero_check(cx, fd, P, cn, 'decrypt', t)
        else:
            cx.lost('F-ZERO-CHECK', 'decrypt', 'expected one kdf call in decrypt')


_run_min = run


def run(cx):
    _run_min(cx)
    # round trip: decryption must not refuse the shortest ciphertexts encryption can produce
    fd = cx.fn('<impl key::Sm2PrivateKey>::decrypt')
    if fd is not None:
        from .C06 import dec_minlen
        dec_minlen(cx, fd)


_run_c1 = run


def run(cx):
    from .C19 import from_byte, to_byte
    _run_c1(cx)
    # decoding and encoding of C1 (both encodings): tag, length, coordinate range, root selection, tag parity
    from_byte(cx)
    to_byte(cx)


_run_xor = run


def run(cx):
    from .. import rules_i as _I
    _run_xor(cx)
    # C2 = M xor K: the byte-wise XOR helper pairs equal indices over the whole length
    _I.xor_rule(cx, 'I-XOR', 'gm_sm2::util::xor_bytes', 'a', 'b', ('len($a)', 'len($b)'))
