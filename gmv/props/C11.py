"""C11 SM2 curve and field arithmetic implement the group law exactly"""
from .. import rules_k as K, paramalg as pa


def run(cx):
    cx.not_decided.append('group law and Montgomery exactness for all operands (functional)')
    s = pa.sm2()
    K.k_ints(cx, 'K-SM2', 'gm_sm2', s.consts)
    K.k_table(cx, 'K-SM2-TABLE', 'gm_sm2', 'SM2P256_PRECOMPUTED', s.table(), 'fixed-base table [w][2j-2..2j-1] = mont(affine(j*256^w*G))')


_run0 = run


def run(cx):
    from .. import rules_s as S, rules_d as D, rules_i as I
    _run0(cx)
    fn = cx.fn('gm_sm2::p256_ecc::<impl p256_ecc::Point>::point_add', 'S-JADD')
    if fn is not None:
        S.s_jadd(cx, 'S-JADD', fn, 'Point::Point')
    D.d_deadpure(cx, 'D-DEADPURE', ('gm_sm2',), floor_calls=100)


_run1 = run


def run(cx):
    from .. import rules_s as S, rules_i as I
    _run1(cx)
    S.s_siblings(cx, 'S-SIBLING')
    fn = cx.fn('gm_sm2::p256_ecc::<impl p256_ecc::Point>::zero', 'I-INF-ENC')
    if fn is not None:
        r = [v for _, v in I.returns(fn, cx.F, True)]
        cx.add('I-INF-ENC', fn.short, r == ['Point::Point{SM2_MODP_MONT_ONE, SM2_MODP_MONT_ONE, SM2_ZERO}'], 'the identity is encoded as (1 : 1 : 0): %s' % r, fn.loc())
    fn = cx.fn('gm_sm2::p256_ecc::<impl p256_ecc::Point>::to_affine_point', 'I-AFFINE')
    if fn is not None:
        r = [v for _, v in I.returns(fn, cx.F, True)]
        want = 'Point::Point{fp_mul($self.x, fp_sqr(fp_inv($self.z))), fp_mul($self.y, fp_mul(fp_sqr(fp_inv($self.z)), fp_inv($self.z))), SM2_MODP_MONT_ONE}'
        cx.add('I-AFFINE', fn.short, r == [want], 'affine conversion is (X/Z^2, Y/Z^3, 1): %s' % r, fn.loc())


_run2 = run


def run(cx):
    from . import scalar_rules as SR
    _run2(cx)
    SR.sm2_scalar(cx)
    SR.acc_rules(cx, 'sm2')
    SR.curve_predicates(cx)


_run3 = run


def run(cx):
    from .. import rules_s as S
    _run3(cx)
    S.carry_chain(cx, 'A-CARRY', ('gm_sm2::',), 4)
    S.carry_by_comparison(cx, 'A-CARRY', ('gm_sm2::',))


_run_curve = run


def run(cx):
    from .. import rules_a as A
    _run_curve(cx)
    A.a_curve(cx, 'A-CURVE', 'sm2', 4)


_run_pow = run


def run(cx):
    from .. import rules_s as S
    _run_pow(cx)
    # I-POW: the square-and-multiply loops cannot skip a limb, a bit or a squaring
    for q in ('gm_sm2::fields::fp64::fp_pow','gm_sm2::fields::fn64::fn_pow',):
        S.square_multiply(cx, 'I-POW', q)


_run_poly = run


def run(cx):
    from .. import rules_poly as RPL
    _run_poly(cx)
    # A-POLY: the Jacobian formulas equal the chord-and-tangent law as rational functions
    RPL.a_poly_curve(cx, 'A-POLY', 'gm_sm2', 3)


_run_cmp = run


def run(cx):
    from .. import rules_poly as RPL
    _run_cmp(cx)
    # I-CMP: the 256-bit comparison, decided over all 81 orderings of corresponding limbs
    RPL.limb_compare(cx, 'I-CMP', 'gm_sm2::u256::u256_cmp')
