"""C03 SM2 signatures verify and conform to GB/T 32918.2"""
from ..prov import Prov, norm, strip, same, last, fn_is, const_int
from ..builder import Canon, branch_sequences, preimage
from .. import frame as FR, rules_g as G, paramalg as pa, rules_k as K

R_EXPR = 'fn_add(INT($digest), plain(affx(g_mul(rand#1))))'
R_ALT = 'fn_add(plain(affx(g_mul(rand#1))), INT($digest))'
ZA_SEQ = ['to_be_bytes:u16((MulWithOverflow(len($id), 8).0 as u16))', 'LOOP(byte:each(bytes($id)))', 'BE(plain(SM2_MODP_MONT_A))', 'BE(plain(SM2_MODP_MONT_B))',
          'BE(SM2_G_X)', 'BE(SM2_G_Y)', 'X($pk)', 'Y($pk)']
# accepted idioms for "the ID bytes": a byte loop, or one extend of the bytes
ZA_ID_IDIOMS = ('LOOP(byte:each(bytes($id)))', '$id', 'as_bytes($id)')


def check_za(cx):
    fn = cx.fn('gm_sm2::util::compute_za', 'F-ZA')
    if fn is None:
        return
    P = Prov(fn, cx.F)
    cn = Canon(fn, P)
    hs = FR.calls_of(fn, 'gm_sm3::sm3_hash')
    if len(hs) != 1:
        cx.lost('F-ZA', 'compute_za', 'expected exactly one SM3 invocation in compute_za, found %d' % len(hs), fn.loc())
        return
    seq, other = preimage(fn, P, hs[0], 0, cn)
    want = list(ZA_SEQ)
    if seq and len(seq) == len(want) and seq[1] in ZA_ID_IDIOMS:
        want[1] = seq[1]
    FR.check_seq(cx, 'F-ZA', 'compute_za', fn, seq, want,
                 'ZA = SM3(ENTL(2 bytes, bits) || ID || a || b || xG || yG || xA || yA)', hs[0])
    # the hash must be what is returned
    rets = FR.ret_exprs(fn, P)
    ok = len(rets) == 1 and cn.c(norm(P.operand(rets[0][2], rets[0][0], rets[0][1]))).startswith('sm3_hash(')
    cx.add('F-ZA', 'compute_za/ret', ok, 'compute_za returns that digest', fn.loc())
    # the a, b, G constants are the curve parameters (value check through the Montgomery representation)
    s = pa.sm2()
    K.k_ints(cx, 'K-ZA', 'gm_sm2', {'SM2_MODP_MONT_A': s.consts['SM2_MODP_MONT_A'], 'SM2_MODP_MONT_B': s.consts['SM2_MODP_MONT_B'],
                                    'SM2_G_X': s.G[0], 'SM2_G_Y': s.G[1]})
    # ENTL guard: ids longer than 8191 bytes are rejected before the u16 cast (no silent truncation)
    sinks = G.ok_sinks(fn)
    G.guard(cx, 'G-ZA-ENTL', 'compute_za', fn, P, sinks,
            lambda p: p.kind == 'cmp' and p.op in ('Gt', 'Le') and const_int(p.args[1]) == 65535 and 'len($id)' in cn.c(p.args[0]),
            None, '') if False else None
    def m(p):
        return p.kind == 'cmp' and const_int(p.args[1]) == 65535 and 'len($id)' in cn.c(p.args[0]) and p.op in ('Gt', 'Le')
    insts = [p for _, p, _, _ in G.bool_switches(fn, P) if m(p)]
    if insts:
        G.guard(cx, 'G-ZA-ENTL', 'compute_za', fn, P, sinks, m, insts[0].op == 'Le', 'ID bit length must fit 16 bits (else Err), so the cast to u16 cannot truncate')
    else:
        cx.violate('G-ZA-ENTL', 'compute_za', 'no check that 8*len(id) fits in 16 bits before the u16 cast', fn.loc())


def check_za_id(cx, qual, inst, params=('id',), want_calls=None):
    """F-ZA-ID: the ID that reaches compute_za is the caller's `id` whenever one was given: Some(x) -> x with nothing
    in between (a filter/map on the option would substitute or alter a legal ID, e.g. the empty one), None -> DEFAULT_ID"""
    fn = cx.fn(qual, 'F-ZA-ID')
    if fn is None:
        return
    P = Prov(fn, cx.F); cn = Canon(fn, P)
    cbs = FR.calls_of(fn, 'util::compute_za')
    if not cbs:
        cx.lost('F-ZA-ID', inst, 'no compute_za call in %s' % fn.short, fn.loc())
        return
    if want_calls is not None and len(cbs) != want_calls:
        cx.lost('F-ZA-ID', inst, 'expected %d compute_za calls in %s, found %d' % (want_calls, fn.short, len(cbs)), fn.loc())
        return
    for n_, b in enumerate(cbs):
        a = strip(G.call_args(fn, P, b)[0])
        ok, how = False, cn.c(a)
        if len(cbs) > 1:
            inst = inst.split('#')[0] + '#%d' % (n_ + 1)
        if a.k == 'param' and a.name in params:
            ok = True
        elif a.k == 'call' and last(a.name) in ('unwrap_or', 'unwrap_or_else', 'unwrap_or_default', 'unwrap', 'expect') and a.args:
            src = strip(a.args[0])
            dflt_ok = True
            if last(a.name) == 'unwrap_or' and len(a.args) > 1:
                dflt_ok = cn.c(a.args[1]) in ('DEFAULT_ID', '"1234567812345678"') or 'DEFAULT_ID' in cn.c(a.args[1])
            if last(a.name) == 'unwrap_or_else' and len(a.args) > 1:
                c = strip(a.args[1])
                cl = cx.F.fns.get((c.c or {}).get('closure')) if c.k == 'aggr' else None
                if cl is None:
                    dflt_ok = False
                    how += ' (closure body not found)'
                else:
                    PC = Prov(cl, cx.F); cc = Canon(cl, PC)
                    rr = [cc.c(norm(PC.rvalue(st['rv'], b_, i_, 0))) for b_, i_, st in cl.stmts() if st['k'] == 'assign' and st['lhs']['l'] == 0 and not st['lhs']['p']]
                    dflt_ok = bool(rr) and all('DEFAULT_ID' in x or '1234567812345678' in x for x in rr)
                    how += ' with closure -> %s' % rr
            ok = src.k == 'param' and src.name in params and dflt_ok
        cx.add('F-ZA-ID', inst, ok, 'ID handed to compute_za in %s: %s (the caller\'s id unchanged when given, DEFAULT_ID otherwise)' % (fn.short, how), G.where(fn, b))


def run(cx):
    cx.not_decided.append('acceptance by independent verifiers and exact (r,s) for a fixed nonce (functional: scalar multiplication and mod-n arithmetic)')
    n = pa.sm2().n
    check_za(cx)
    fn = cx.fn('<impl key::Sm2PrivateKey>::sign_raw')
    if fn is None:
        return
    P = Prov(fn, cx.F)
    cn = Canon(fn, P)
    sinks = G.ok_sinks(fn)
    rets = FR.ret_exprs(fn, P)
    if len(rets) != 1:
        cx.lost('F-SIG', 'sign_raw', 'expected one Ok exit', fn.loc())
        return
    b, i, op = rets[0]
    chains = branch_sequences(fn, P, op, b, i, cn) or []
    seq = chains[0][1] if len(chains) == 1 else None
    r_expr = R_EXPR
    if seq and len(seq) == 2 and seq[0] == 'BE(%s)' % R_ALT:
        r_expr = R_ALT
    s_expr = 'fn_mul(fn_pow(u256_add(SM2_ONE, $sk).0, SM2_N_MINUS_TWO), fn_sub(rand#1, fn_mul(%s, $sk)))' % r_expr
    FR.check_seq(cx, 'F-SIG', 'sign_raw', fn, seq, ['BE(%s)' % r_expr, 'BE(%s)' % s_expr],
                 'signature = BE32(r) || BE32(s), r = (e + x1) mod n with x1 from [k]G, s = (1+d)^(n-2) * (k - r*d) mod n, same k', b)
    K.k_ints(cx, 'K-SIGN', 'gm_sm2', {'SM2_N_MINUS_TWO': n - 2, 'SM2_N': n, 'SM2_ONE': 1})
    # retry conditions
    samplers = G.call_blocks(fn, 'fp64::random_u256')
    cx.floor('G-SIGN-RETRY', 'sign_raw/sampler', len(samplers), 1, 'nonce sampler call in sign_raw')
    G.guard(cx, 'G-SIGN-RETRY', 'r!=0', fn, P, sinks, lambda p: p.kind == 'is_zero' and cn.c(p.args[0]) == r_expr, False,
            'r = 0 restarts with a fresh nonce', fail_must_pass=samplers)
    G.guard(cx, 'G-SIGN-RETRY', 'r+k!=n', fn, P, sinks,
            lambda p: p.kind == 'eq' and cn.c(p.args[0]) in ('u256_add(%s, rand#1).0' % r_expr, 'u256_add(rand#1, %s).0' % r_expr) and const_int(p.args[1]) == n,
            False, 'r + k = n restarts with a fresh nonce (comparand evaluates to n)', fail_must_pass=samplers)
    G.guard(cx, 'G-SIGN-RETRY', 's!=0', fn, P, sinks, lambda p: p.kind == 'is_zero' and cn.c(p.args[0]) == s_expr, False,
            's = 0 restarts with a fresh nonce', fail_must_pass=samplers)
    # wrapper
    sf = cx.fn('<impl key::Sm2PrivateKey>::sign')
    if sf is None:
        return
    PS = Prov(sf, cx.F)
    cs = Canon(sf, PS)
    cbs = G.call_blocks(sf, 'sign_raw')
    if len(cbs) != 1:
        cx.lost('F-E', 'sign', 'expected one call of sign_raw', sf.loc())
        return
    a = [cs.c(x) for x in G.call_args(sf, PS, cbs[0])]
    ok = a[1].startswith('sm3_hash([try(compute_za(') and a[1].endswith(', $self.public_key.point)), $msg])') and '$id' in a[1]
    cx.add('F-E', 'sign', ok, 'digest signed is SM3(ZA || msg), ZA over (id, own public key): %s' % a[1], G.where(sf, cbs[0]))
    cx.add('F-E-KEY', 'sign', a[2] == '$self.d', 'signing scalar passed to sign_raw is self.d: %s' % a[2], G.where(sf, cbs[0]))
    # default id
    did = cx.F.items_by_suffix('DEFAULT_ID')
    ok = False
    if did:
        from ..facts import item_bytes
        v = did[0].get('value', {})
        ok = bytes.fromhex(v.get('bytes', '')) == pa.params()['sm2']['default_id'].encode()
    cx.add('K-DEFAULT-ID', 'gm_sm2', ok, 'default signer ID is the 16 bytes "1234567812345678"')


_run0 = run


def run(cx):
    from .. import rules_s as S
    _run0(cx)
    check_za_id(cx, '<impl key::Sm2PrivateKey>::sign', 'sign')
    S.s_siblings(cx, 'S-SIBLING', only=('mod-add', 'modn-sub', 'mont-mul', 'to-mont', 'from-mont', 'limb-add', 'limb-sub', 'limb-cmp', 'limb-mul'))


_run_scalar = run


def run(cx):
    from . import scalar_rules as SR
    _run_scalar(cx)
    # [k]G of the signature and [d]G of the key: the fixed-base multiplication walks every limb of the scalar
    SR.sm2_scalar(cx)
    SR.acc_rules(cx, 'sm2')
