"""P-STATELESS: the deterministic entry points of a property have an effect-free call closure once the random samplers
are set aside — no `static mut`, no interior-mutable or thread-local static, no `OnceLock`/`lazy_static` cell, no
unsafe, no ambient callee.  "For every input ..." in the property statements quantifies over histories as well: a
memoised pairing, a per-thread scratch buffer, a cached hash-to-range value make the result depend on what was
computed before (four independent seeded changes of the fourth wave did exactly that)."""
from .. import rules_p as RP

SAMPLERS = ('random_u256', 'sm9_random_u256', 'fn_random_u256', 'fp_random_u256')

ROOTS = {
    'C03': ['<impl key::Sm2PrivateKey>::sign', 'gm_sm2::util::compute_za'],
    'C04': ['<impl key::Sm2PublicKey>::verify'],
    'C05': ['<impl key::Sm2PublicKey>::encrypt', 'gm_sm2::util::kdf'],
    'C06': ['<impl key::Sm2PrivateKey>::decrypt'],
    'C07': ['<impl Sm4CipherMode>::encrypt', '<impl Sm4CipherMode>::decrypt'],
    'C08': ['<impl ZUC>::new', '<impl ZUC>::generate_keystream'],
    'C09': ['<impl key::Sm9SignKey>::sign', '<impl key::Sm9SignMasterKey>::verify_sign'],
    'C10': ['<impl key::Sm9EncMasterKey>::encrypt', '<impl key::Sm9EncKey>::decrypt'],
    'C11': ['gm_sm2::p256_ecc::<impl p256_ecc::Point>::point_add', 'gm_sm2::p256_ecc::<impl p256_ecc::Point>::point_dbl', 'gm_sm2::p256_ecc::g_mul',
            'gm_sm2::p256_ecc::<impl p256_ecc::Point>::scalar_mul', 'gm_sm2::p256_ecc::<impl p256_ecc::Point>::to_affine_point', 'gm_sm2::p256_ecc::<impl p256_ecc::Point>::is_valid'],
    'C12': ['gm_sm9::points::sm9_u256_pairing'],
    'C13': ['gm_sm9::points::<impl points::Point>::point_mul', 'gm_sm9::points::<impl points::Point>::g_mul', 'gm_sm9::points::<impl points::TwistPoint>::point_mul',
            'gm_sm9::points::<impl points::TwistPoint>::g_mul', 'gm_sm9::points::<impl points::Point>::point_equals', 'gm_sm9::points::<impl points::TwistPoint>::point_equals',
            'gm_sm9::fields::mod_n_mul', 'gm_sm9::fields::mod_n_inv', '<impl fields::FieldElement for fields::fp12::Fp12>::fp_inv'],
    'C15': ['<impl exchange::Exchange>::exchange_1', '<impl exchange::Exchange>::exchange_2', '<impl exchange::Exchange>::exchange_3', '<impl exchange::Exchange>::exchange_4'],
    'C16': ['gm_sm9::key::sm9_u256_hash1', 'gm_sm9::key::sm9_u256_hash2', '<impl key::Sm9SignMasterKey>::extract_key', '<impl key::Sm9EncMasterKey>::extract_key',
            '<impl key::Sm9EncMasterKey>::extract_exch_key'],
    'C17': ['gm_sm9::key::exch_step_1a', 'gm_sm9::key::exch_step_1b', 'gm_sm9::key::exch_step_2a'],
    'C18': ['<impl eea::EEA>::encrypt', '<impl eia::EIA>::gen_mac'],
    'C19': ['<impl key::Sm2PublicKey>::new', '<impl key::Sm2PrivateKey>::new', '<impl p256_ecc::Point>::from_byte', '<impl p256_ecc::Point>::to_byte_be'],
}


def resolve(cx, suffix):
    fs = [n for n in cx.F.fns if n == suffix or n.endswith('::' + suffix) or n.endswith(suffix)]
    fs = [n for n in fs if '{closure' not in n]
    return sorted(fs, key=len)[:1]


def run(cx, prop):
    roots = []
    for r in ROOTS.get(prop, []):
        got = resolve(cx, r)
        if not got:
            cx.lost('P-STATELESS', r, 'entry point not found')
            continue
        roots += got
    if not roots:
        return
    RP.p_pure(cx, 'P-STATELESS', prop.lower() + '-entry-points', roots, stop=SAMPLERS)
