"""C18 128-EEA3 and 128-EIA3 match the 3GPP specification for every bit length"""
from ..prov import Prov, norm, strip, same, last, fn_is, const_int
from ..builder import Canon
from .. import frame as FR, rules_g as G

IVR = 'var:iv=repeat{0}[%d]'


def iv_stores(fn, P, cn):
    out = {}
    for b, i, st in fn.stmts():
        if st['k'] == 'assign' and fn.locals[st['lhs']['l']].get('name') == 'iv' and len(st['lhs']['p']) == 1 and 'idx' in st['lhs']['p'][0]:
            k = const_int(norm(P.local(st['lhs']['p'][0]['idx'], b, i)))
            out.setdefault(k, []).append(cn.c(norm(P.rvalue(st['rv'], b, i, 0))))
    return out


def iv_at_zuc_new(cx, fn):
    """(the 16 byte expressions, the key expression) handed to ZUC::new"""
    from ..rules_a import ExprFlow
    ef = ExprFlow(cx.F, fn)
    ef.run({i: '$' + fn.local_name(i) for i in range(1, fn.arg_count + 1)})
    calls = [(b, a) for (b, n, a) in getattr(ef, 'call_log', []) if n.endswith('<impl ZUC>::new') or n.endswith('ZUC::new')]
    if len(calls) != 1 or len(calls[0][1]) != 2:
        return None, None
    key, iv = calls[0][1]
    if isinstance(iv, list):
        # byte k of `count.to_be_bytes()` is (count >> 8(3-k)) as u8; x ^ 0 is x
        import re as _re
        def nb(t):
            if not isinstance(t, str):
                return t
            t = _re.sub(r'to_be_bytes\(\$count\)\.([0-3])', lambda m_: {0: '(Shr($count, 24) as u8)', 1: '(Shr($count, 16) as u8)', 2: '(Shr($count, 8) as u8)', 3: '($count as u8)'}[int(m_.group(1))], t)
            m_ = _re.match(r'^BitXor\(0, (.*)\)$', t)
            return m_.group(1) if m_ else t
        iv = [nb(x) for x in iv]
    return (iv if isinstance(iv, list) and len(iv) == 16 else None), (key if isinstance(key, str) else None)


COUNT = {0: '(Shr($count, 24) as u8)', 1: '(Shr($count, 16) as u8)', 2: '(Shr($count, 8) as u8)', 3: '($count as u8)'}
# accepted idioms for ceil(LENGTH / 32)
CEIL = ('Div(AddWithOverflow($ilen, 31).0, 32)', 'AddWithOverflow(Div($ilen, 32), (Ne(Rem($ilen, 32), 0) as u32)).0')
KL = '(%s as usize)' % CEIL[0]
KL2 = '(AddWithOverflow(%s, 2).0 as usize)' % CEIL[0]


from .. import rules_i as _I


def _norm_len(text):
    """word-count arithmetic in one normal form: a widening `as usize` of `x (+|-) k` (x a u32 word count of at most 2^27 + 1,
    k small: no wrap either way) is moved onto x, and nested constant additions / subtractions are folded"""
    from .. import ctext as CT
    try:
        e = CT.parse(text)
    except CT.ParseError:
        return text

    def addk(x):
        # (inner, k) when x is inner (+|-) const through checked arithmetic, else None
        if x[0] == 'call' and x[1] == 'sel.0' and x[2][0][0] == 'call' and x[2][0][1] in ('AddWithOverflow', 'SubWithOverflow'):
            a, b = x[2][0][2]
            if b[0] == 'int':
                return a, b[1] if x[2][0][1] == 'AddWithOverflow' else -b[1]
        return None

    def mk(a, k):
        if k == 0:
            return a
        return ('call', 'sel.0', [('call', 'AddWithOverflow' if k > 0 else 'SubWithOverflow', [a, ('int', abs(k))], None)], None)

    def go(x):
        if x[0] == 'call':
            x = ('call', x[1], [go(a) for a in x[2]], x[3])
            ak = addk(x)
            if ak is not None:
                inner = addk(ak[0])
                if inner is not None:
                    return mk(inner[0], inner[1] + ak[1])
            return x
        if x[0] == 'cast':
            y = go(x[1])
            ak = addk(y)
            if ak is not None and x[2] == 'usize' and abs(ak[1]) <= 8:
                return go(mk(('cast', ak[0], 'usize'), ak[1]))
            return ('cast', y, x[2])
        if x[0] == 'aggr':
            return ('aggr', x[1], [go(a) for a in x[2]])
        if x[0] == 'idx':
            return ('idx', go(x[1]), go(x[2]), x[3])
        if x[0] == 'phi':
            return ('phi', [go(a) for a in x[1]])
        return x
    try:
        return CT.show(go(e))
    except Exception:
        return text


def run(cx):
    cx.not_decided.append('equality with the 3GPP keystream / MAC (functional: depends on ZUC, C08)')
    # ------------------------------------------------------------ EEA3
    fn = cx.fn('<impl eea::EEA>::new')
    if fn is not None:
        P = Prov(fn, cx.F); cn = Canon(fn, P)
        # the sixteen bytes handed to ZUC::new, each as a composed expression (field-sensitive flow: element stores,
        # copy_from_slice, copy_within, ^= all give the same final array)
        iv, key = iv_at_zuc_new(cx, fn)
        c_ = [COUNT[k] for k in range(4)]
        b4 = '(Shl(BitOr(Shl($bearer, 1), BitAnd($direction, 1)), 2) as u8)'
        b4alt = '(BitOr(Shl($bearer, 3), Shl(BitAnd($direction, 1), 2)) as u8)'
        ok = iv is not None and any(iv == c_ + [x] + ['0'] * 3 + c_ + [x] + ['0'] * 3 for x in (b4, b4alt))
        cx.add('I-EEA-IV', 'EEA::new', ok, 'IV = COUNT(4, big-endian) || BEARER<<3|DIRECTION<<2 || 0 0 0, repeated in bytes 8..15: %s' % iv, fn.loc())
        cx.add('I-EEA-IV', 'EEA::new/zuc', key == '$ck', 'the generator is keyed with (CK, IV)', fn.loc())
        # no store after the generator is created
    fn = cx.fn('<impl eea::EEA>::encrypt')
    if fn is not None:
        P = Prov(fn, cx.F); cn = Canon(fn, P)
        gk = FR.calls_of(fn, 'generate_keystream')
        got = FR.arg_canon(fn, P, cn, gk[0], 1) if len(gk) == 1 else ''
        KL = next(('(%s as usize)' % c for c in CEIL if got == '(%s as usize)' % c), '(%s as usize)' % CEIL[0])
        ok = got == KL
        cx.add('I-EEA', 'encrypt/keylen', ok, 'keystream length is ceil(LENGTH/32) words: %s' % got, fn.loc())
        KS = 'generate_keystream($self.zuc, %s)' % KL
        I = 'each(Range::Range{0, %s})' % KL
        ps = [FR.arg_canon(fn, P, cn, b, 1) for b in FR.calls_of(fn, 'push')]
        # the counter may also run over the key stream itself (`for (i, k) in keys.iter().enumerate()`): it has KL words
        # (C08 P-SPLIT/generate_keystream/count)
        I2 = 'each(Range::Range{0, len(%s)})' % KS
        xor_ok = any(ps == ['BitXor($msg[%s], %s[%s])' % (i_, KS, i_)] or ps == ['BitXor(%s[%s], $msg[%s])' % (KS, i_, i_)] for i_ in (I, I2))
        inplace = False
        if not ps:
            # in place: the key-stream vector itself becomes the result, `ks[i] ^= msg[i]` for i < KL, and is returned
            T = 'index_mut(%s, %s)' % (KS, I)
            xs = [(cn.c(norm(P.local(st['lhs']['l'], b, i))), cn.c(norm(P.rvalue(st['rv'], b, i, 0)))) for b, i, st in fn.stmts()
                  if st['k'] == 'assign' and st['lhs']['p'] == ['deref'] and cn.c(norm(P.rvalue(st['rv'], b, i, 0))).startswith('BitXor(')]
            rets = [v for _, v in _I.returns(fn, cx.F)]
            inplace = xs in ([(T, 'BitXor(%s, $msg[%s])' % (T, I))], [(T, 'BitXor($msg[%s], %s)' % (I, T))]) and rets == [KS]
            xor_ok = inplace
        if not ps and not inplace:
            z = _I.zip_xor_collect(fn, cx.F)
            if z is not None:
                # msg[..KL].iter().zip(keys.iter()).map(|(m, k)| m ^ k).collect(): the key stream has KL words (C08), the
                # message is cut to KL
                zs = sorted(z, key=lambda x_: x_[0])
                xor_ok = sorted(z) == sorted([('$msg', KL), (KS, None)]) or sorted(z) == sorted([('$msg', KL), (KS, KL)])
                if xor_ok:
                    ps = ['<collected>']
        cx.add('I-EEA', 'encrypt/xor', xor_ok,
               'output word i = msg[i] xor keystream[i] for i < ceil(LENGTH/32)%s' % (' (in place in the key-stream vector, which is returned)' if inplace else ''), fn.loc(), {'push': ps})
        # trailing-bit mask
        masks = []
        for b, i, st in fn.stmts():
            if st['k'] == 'assign' and st['lhs']['p'] and st['lhs']['p'][0] == 'deref':
                v = cn.c(norm(P.rvalue(st['rv'], b, i, 0)))
                if v.startswith('BitAnd('):
                    conds = [c for c in __import__('gmv.builder', fromlist=['x']).select_conds(fn, P, b, cn)]
                    masks.append((v, conds))
        LASTW = 'SubWithOverflow(%s, 1).0' % KL
        okm = len(masks) == 1 and masks[0][0].endswith('Shl(0xffffffff, SubWithOverflow(32, Rem($ilen, 32)).0))') and \
            any(c in ('Ne(Rem($ilen, 32), 0)=otherwise', 'Ne(Rem($ilen, 32), 0)=1', 'Eq(Rem($ilen, 32), 0)=0') for c in masks[0][1])
        cx.add('I-EEA', 'encrypt/mask', okm, 'bits beyond LENGTH are cleared in the last word with mask 0xffffffff << (32 - LENGTH%32), only when LENGTH%32 != 0', fn.loc(), {'masks': masks})
        im = [FR.arg_canon(fn, P, cn, b, 1) for b in FR.calls_of(fn, 'index_mut')]
        if inplace and I in im:
            im.remove(I)
        tgt = [cn.c(norm(P.local(st['lhs']['l'], b, i))) for b, i, st in fn.stmts() if st['k'] == 'assign' and st['lhs']['p'] == ['deref']
               and cn.c(norm(P.rvalue(st['rv'], b, i, 0))).startswith('BitAnd(')]
        lastmut = not im and len(tgt) == 1 and tgt[0].startswith('last_mut(') and tgt[0].endswith(')!') and bool(ps)
        cx.add('I-EEA', 'encrypt/mask-word', im == [LASTW] or lastmut, 'the masked word is the last output word', fn.loc(), {'index': im})
    # ------------------------------------------------------------ EIA3
    fn = cx.fn('<impl eia::EIA>::new')
    if fn is not None:
        P = Prov(fn, cx.F); cn = Canon(fn, P)
        iv, key = iv_at_zuc_new(cx, fn)
        c_ = [COUNT[k] for k in range(4)]
        D7 = '(Shl($direction, 7) as u8)'
        b4 = '(Shl($bearer, 3) as u8)'
        want = c_ + [b4, '0', '0', '0'] + ['BitXor(%s, %s)' % (c_[0], D7)] + c_[1:] + [b4, '0', 'BitXor(0, %s)' % D7, '0']
        alt = list(want)
        alt[14] = D7        # 0 ^ x written as x
        cx.add('I-EIA-IV', 'EIA::new', iv in (want, alt), 'IV = COUNT || BEARER<<3 || 0 0 0 || IV[0]^(DIR<<7) || IV[1..4] || 0 || IV[6]^(DIR<<7) || 0: %s' % iv, fn.loc())
        cx.add('I-EIA-IV', 'EIA::new/zuc', key == '$ik', 'the generator is keyed with (IK, IV)', fn.loc())
    fn = cx.fn('<impl eia::EIA>::gen_mac')
    if fn is not None:
        P = Prov(fn, cx.F); cn = Canon(fn, P)
        gk = FR.calls_of(fn, 'generate_keystream')
        got = FR.arg_canon(fn, P, cn, gk[0], 1) if len(gk) == 1 else ''
        CE = next((c for c in CEIL if _norm_len(got) == _norm_len('(AddWithOverflow(%s, 2).0 as usize)' % c)), CEIL[0])
        KL2 = '(AddWithOverflow(%s, 2).0 as usize)' % CE
        if _norm_len(got) == _norm_len(KL2):
            KL2 = got            # the same count with the widening cast placed before the `+ 2`
        cx.add('I-EIA', 'gen_mac/keylen', got == KL2, 'keystream length is ceil(LENGTH/32) + 2 words: %s' % got, fn.loc())
        KS = 'generate_keystream($self.zuc, %s)' % KL2
        I = 'each(Range::Range{0, ($ilen as usize)})'
        rets = [cn.c(norm(P.rvalue(st['rv'], b, i, 0))) for b, i, st in fn.stmts() if st['k'] == 'assign' and st['lhs']['l'] == 0 and not st['lhs']['p']]
        acc = 'phi(0 | BitXor(phi(0 | var:t@loop), find_word(%s, %s)))' % (KS, I)
        want = 'BitXor(BitXor(%s, find_word(%s, ($ilen as usize))), find_word(%s, MulWithOverflow(32, (SubWithOverflow(AddWithOverflow(%s, 2).0, 1).0 as usize)).0))' % (acc, KS, KS, CE)
        # the accumulator is identified by its role, not by its name
        import re as _re3
        rets = [_re3.sub(r'var:\w+@loop', 'var:t@loop', r_) for r_ in rets]
        if rets != [want] and [_norm_len(r_) for r_ in rets] == [_norm_len(want)]:
            rets = [want]        # index 32*(L-1) written as 32*(ceil + 1) in usize
        cx.add('I-EIA', 'gen_mac/final', rets == [want], 'MAC = T xor z[LENGTH] xor z[32*(L-1)], T = xor of z[i] over the processed bits: %s' % [FR.short(r, 200) for r in rets], fn.loc())
        sw = [(p, cn) for _, p, _, _ in G.bool_switches(fn, P)]
        bit = 'BitAnd($m[Shr(%s, 5)], Shl(1, SubWithOverflow(31, BitAnd(%s, 31)).0))' % (I, I)
        ok = any(p.kind == 'cmp' and p.op in ('Gt', 'Ne') and cn.c(p.args[0]) == bit and const_int(p.args[1]) == 0 for p, _ in sw) or \
            any(p.kind == 'eq' and cn.c(p.args[0]) == bit and const_int(p.args[1]) == 0 for p, _ in sw)
        cx.add('I-EIA', 'gen_mac/bits', ok, 'exactly message bits 0..LENGTH-1 (MSB-first within each word) select the keystream words', fn.loc())
    fn = cx.fn('gm_zuc::eia::find_word')
    if fn is not None:
        P = Prov(fn, cx.F); cn = Canon(fn, P)
        rets = sorted(cn.c(norm(P.rvalue(st['rv'], b, i, 0))) for b, i, st in fn.stmts() if st['k'] == 'assign' and st['lhs']['l'] == 0 and not st['lhs']['p'])
        want = sorted(['$keys[Shr($i, 5)]', 'BitOr(Shl($keys[Shr($i, 5)], BitAnd($i, 31)), Shr($keys[AddWithOverflow(Shr($i, 5), 1).0], SubWithOverflow(32, BitAnd($i, 31)).0))'])
        cx.add('I-EIA', 'find_word', rets == want, 'z[i] = 32 keystream bits starting at bit i (two-word funnel shift, single word when i%32 == 0)', fn.loc(), {'got': rets})
        sw = [p for _, p, _, _ in G.bool_switches(fn, P)]
        cx.add('I-EIA', 'find_word/aligned', any(p.kind == 'eq' and cn.c(p.args[0]) == 'BitAnd($i, 31)' and const_int(p.args[1]) == 0 for p in sw), 'the single-word case is selected by i % 32 == 0 (avoids a shift by 32)', fn.loc())
