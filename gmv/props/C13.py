"""C13 SM9 field tower, mod-N arithmetic and G1/G2 group operations are exact"""
from .. import rules_k as K, paramalg as pa


def run(cx):
    cx.not_decided.append('exactness of tower arithmetic, Booth recoding and the Barrett quotient estimate for all operands (functional)')
    s = pa.sm9()
    K.k_ints(cx, 'K-SM9', 'gm_sm9', {k: v for k, v in s.consts.items() if not k.startswith('SM9_H')})
    for n in ('SM9_U256_MONT_G2', 'G1', 'G2', 'SM9_POINT_MONT_P1', 'SM9_TWIST_POINT_MONT_P2'):
        K.k_struct(cx, 'K-SM9-GEN', 'gm_sm9', n, s.struct_consts[n])
    K.k_table(cx, 'K-SM9-TABLE', 'gm_sm9', 'SM9_P256_PRECOMPUTED', s.table(), 'fixed-base table [w][2(j-1)..] = mont(affine(j*2^(7w)*P1))')


_run0 = run


def run(cx):
    from .. import rules_s as S, rules_d as D
    _run0(cx)
    for q, t in (('gm_sm9::points::<impl points::Point>::point_add', 'Point::Point'), ('gm_sm9::points::<impl points::TwistPoint>::point_add', 'TwistPoint::TwistPoint'),
                 ('gm_sm9::points::twist_point_add_full', 'TwistPoint::TwistPoint')):
        fn = cx.fn(q, 'S-JADD')
        if fn is not None:
            S.s_jadd(cx, 'S-JADD', fn, t)
    for q in ('gm_sm9::points::<impl points::Point>::point_equals', 'gm_sm9::points::<impl points::TwistPoint>::point_equals'):
        fn = cx.fn(q, 'S-PTEQ')
        if fn is not None:
            S.s_pteq(cx, 'S-PTEQ', fn)
    D.d_deadpure(cx, 'D-DEADPURE', ('gm_sm9',), floor_calls=500)


_run1 = run


def run(cx):
    from .. import rules_s as S, rules_i as I
    _run1(cx)
    F = cx.F
    S.s_siblings(cx, 'S-SIBLING')
    # point-at-infinity convention (1 : 1 : 0): point_equals and the adders rely on non-zero X, Y of the identity
    for q, want in (('gm_sm9::points::<impl points::Point>::zero', 'Point::Point{one(), one(), zero()}'),
                    ('gm_sm9::points::<impl points::TwistPoint>::zero', 'TwistPoint::TwistPoint{one(), one(), zero()}')):
        fn = cx.fn(q, 'I-INF-ENC')
        if fn is not None:
            r = [v for _, v in I.returns(fn, F, True)]
            cx.add('I-INF-ENC', fn.short, r == [want], 'the identity is encoded as (1 : 1 : 0) (point equality would otherwise equate it with every point): %s' % r, fn.loc())
    ones = {'gm_sm9::fields::fp::<impl fields::FieldElement for [u64; 4]>::one': 'SM9_MODP_MONT_ONE', 'gm_sm9::fields::fp::<impl fields::FieldElement for [u64; 4]>::zero': 'SM9_ZERO',
            'gm_sm9::fields::fp2::<impl fields::FieldElement for fields::fp2::Fp2>::one': 'Fp2::Fp2{one(), zero()}', 'gm_sm9::fields::fp2::<impl fields::FieldElement for fields::fp2::Fp2>::zero': 'Fp2::Fp2{zero(), zero()}'}
    for q, want in ones.items():
        fn = cx.fn(q, 'I-INF-ENC')
        if fn is not None:
            r = [v for _, v in I.returns(fn, F, True)]
            cx.add('I-INF-ENC', fn.short, r == [want], 'field constant %s' % r, fn.loc())
    # affine conversion: (X / Z^2, Y / Z^3, 1), with the Z = 1 shortcut; nothing else
    fn = cx.fn('gm_sm9::points::<impl points::Point>::to_affine_point', 'I-AFFINE')
    if fn is not None:
        r = sorted(v for _, v in I.returns(fn, F, True))
        want = sorted(['Point::Point{$self.x, $self.y, one()}',
                       'Point::Point{fp_mul($self.x, fp_sqr(fp_inv($self.z))), fp_mul(fp_mul($self.y, fp_inv($self.z)), fp_sqr(fp_inv($self.z))), one()}'])
        cx.add('I-AFFINE', fn.short, r == want, 'G1 affine conversion returns (X/Z^2, Y/Z^3, 1) or (X, Y, 1) when Z = 1 and nothing else (the pairing relies on infinity normalising to (0, 0, 1))', fn.loc(), {'got': r})
        conds = sorted(str(c) for c, _ in I.returns(fn, F, True))
        cx.add('I-AFFINE', fn.short + '/branch', all('u256_cmp($self.z, SM9_MODP_MONT_ONE)' in c for c in conds), 'the shortcut is taken exactly on Z == mont(1)', fn.loc())


_run2 = run


def run(cx):
    from . import scalar_rules as SR
    _run2(cx)
    SR.sm9_scalar(cx)
    SR.acc_rules(cx, 'sm9')
    SR.curve_predicates(cx)


_run3 = run


def run(cx):
    from .. import rules_s as S
    _run3(cx)
    # mod_n_from_hash belongs to C16 (hash-to-range); everything else in the crate is field/scalar arithmetic
    S.carry_chain(cx, 'A-CARRY', ('gm_sm9::',), 4, exclude=('mod_n_from_hash',))
    S.carry_by_comparison(cx, 'A-CARRY', ('gm_sm9::',))
    from .. import rules_a as A
    A.a_grade(cx, 'A-GRADE', 30)
    fn = cx.fn('gm_sm9::fields::mod_n_mul', 'I-BARRETT')
    if fn is not None:
        S.barrett(cx, 'I-BARRETT', fn, cx.F)


_run_curve = run


def run(cx):
    from .. import rules_a as A
    _run_curve(cx)
    A.a_curve(cx, 'A-CURVE', 'sm9', 10)


_run_pow = run


def run(cx):
    from .. import rules_s as S
    _run_pow(cx)
    # I-POW: the square-and-multiply loops cannot skip a limb, a bit or a squaring
    for q in ('<impl fields::fp12::Fp12>::pow','gm_sm9::fields::fp::fp_pow','gm_sm9::fields::mod_n_pow',):
        S.square_multiply(cx, 'I-POW', q)


_run_poly = run


def run(cx):
    from .. import rules_poly as RPL
    _run_poly(cx)
    # A-POLY: tower functions and Jacobian formulas equal their defining formulas as rational functions
    RPL.a_poly(cx, 'A-POLY', 39)
    RPL.a_poly_curve(cx, 'A-POLY', 'gm_sm9', 8)


_run_cmp = run


def run(cx):
    from .. import rules_poly as RPL
    _run_cmp(cx)
    # I-CMP: the 256-bit comparison, decided over all 81 orderings of corresponding limbs
    RPL.limb_compare(cx, 'I-CMP', 'gm_sm9::u256::u256_cmp')
