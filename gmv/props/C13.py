"""C13 SM9 field tower, mod-N arithmetic and G1/G2 group operations are exact"""
from .. import rules_k as K, paramalg as pa


def run(cx):
    cx.not_decided.append('exactness of tower arithmetic, Booth recoding and the Barrett quotient estimate for all operands (functional)')
    s = pa.sm9()
    K.k_ints(cx, 'K-SM9', 'gm_sm9', {k: v for k, v in s.consts.items() if not k.startswith('SM9_H')})
    for n in ('SM9_U256_MONT_G2', 'G1', 'G2', 'SM9_POINT_MONT_P1', 'SM9_TWIST_POINT_MONT_P2'):
        K.k_struct(cx, 'K-SM9-GEN', 'gm_sm9', n, s.struct_consts[n])
    K.k_table(cx, 'K-SM9-TABLE', 'gm_sm9', 'SM9_P256_PRECOMPUTED', s.table(), 'fixed-base table [w][2(j-1)..] = mont(affine(j*2^(7w)*P1))')


_run0 = run


def run(cx):
    from .. import rules_s as S, rules_d as D
    _run0(cx)
    for q, t in (('gm_sm9::points::<impl points::Point>::point_add', 'Point::Point'), ('gm_sm9::points::<impl points::TwistPoint>::point_add', 'TwistPoint::TwistPoint'),
                 ('gm_sm9::points::twist_point_add_full', 'TwistPoint::TwistPoint')):
        fn = cx.fn(q, 'S-JADD')
        if fn is not None:
            S.s_jadd(cx, 'S-JADD', fn, t)
    for q in ('gm_sm9::points::<impl points::Point>::point_equals', 'gm_sm9::points::<impl points::TwistPoint>::point_equals'):
        fn = cx.fn(q, 'S-PTEQ')
        if fn is not None:
            S.s_pteq(cx, 'S-PTEQ', fn)
    D.d_deadpure(cx, 'D-DEADPURE', ('gm_sm9',), floor_calls=500)
