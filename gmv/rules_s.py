"""S — sibling agreement rules for group operations"""
import re
from .prov import Prov, norm, strip, last, const_int
from .builder import Canon
from . import rules_g as G, frame as FR


def zero_preds(fn, P, cn):
    """(block, canonical expr, true_edges(is zero), false_edges(non-zero)) for is_zero(e) / e == ZERO tests"""
    out = []
    for b, p, te, fe in G.bool_switches(fn, P):
        e = None
        if p.kind == 'is_zero':
            e = p.args[0]
        elif p.kind == 'eq' and len(p.args) == 2:
            s0, s1 = cn.c(p.args[0]), cn.c(p.args[1])
            if s1 in ('SM9_ZERO', 'SM2_ZERO', '0') or const_int(p.args[1]) == 0:
                e = p.args[0]
            elif s0 in ('SM9_ZERO', 'SM2_ZERO', '0') or const_int(p.args[0]) == 0:
                e = p.args[1]
        if e is None:
            continue
        z, nz = (te, fe) if not p.neg else (fe, te)
        out.append((b, cn.c(e), z, nz))
    return out


def coords(s):
    return set(re.findall(r'\$(\w+)\.([xyz])\b', s))


def s_jadd(cx, rule, fn, point_type):
    """the general addition formula is not reachable when both the x cross-difference H and the y cross-difference R
    are zero (equal points in different Jacobian representations must be doubled)"""
    P = Prov(fn, cx.F); cn = Canon(fn, P)
    inst = fn.short
    params = [fn.local_name(i) for i in range(1, fn.arg_count + 1)]
    if len(params) != 2:
        cx.lost(rule, inst, 'adder does not take two points')
        return
    a, b = params
    zs = zero_preds(fn, P, cn)
    def is_diff(s, axis):
        c = coords(s)
        return s.startswith('fp_sub(') and (a, axis) in c and (b, axis) in c and not any(ax == ('y' if axis == 'x' else 'x') for _, ax in c)
    H = [z for z in zs if is_diff(z[1], 'x')]
    R = [z for z in zs if is_diff(z[1], 'y')]
    sinks = []
    for bb, i, rv in G.aggr_blocks(fn, point_type):
        xs = cn.c(norm(P.operand(rv['ops'][0], bb, i)))
        if 'fp_sub(' in xs or 'fp_mul(' in xs or 'fp_sqr(' in xs:
            sinks.append(bb)
    if not sinks:
        cx.lost(rule, inst, 'general-case result construction not found', fn.loc())
        return
    nz_edges = [e for z in H + R for e in z[3]]
    left = G.reachable_without(fn, sinks, nz_edges)
    cx.add(rule, inst, bool(H) and not left,
           'general addition formula is reached only after observing H != 0 or R != 0 (H = x2*z1^2 - x1*z2^2, R likewise for y); H tests at bb%s, R tests at bb%s%s' % (
               [z[0] for z in H], [z[0] for z in R], '' if (H and not left) else ' — equal points with different Z fall into the general formula and yield (0,0,0)'),
           G.where(fn, sinks[0]), {'H': [z[1] for z in H], 'R': [z[1] for z in R]})
    dbl = [bb for bb, t in fn.calls() if t['fn']['k'] == 'def' and last(t['fn']['name']) in ('point_dbl', 'point_double')]
    cx.add(rule, inst + '/doubles', bool(dbl), 'the adder delegates the P = Q case to doubling', fn.loc())
    # doubling must require R == 0 as well: a doubling call reachable with H == 0 but R != 0 would turn P + (-P) into 2P
    # accepted idiom: doubling guarded by bitwise equality of all three coordinates (trivially H = R = 0)
    def raw_eq_edges(axis):
        out = []
        for bb, p, te, fe in G.bool_switches(fn, P):
            if p.kind == 'eq' and len(p.args) == 2 and sorted([cn.c(p.args[0]), cn.c(p.args[1])]) == sorted(['$%s.%s' % (a, axis), '$%s.%s' % (b, axis)]):
                out += fe if p.neg else te
        return out
    raw = [raw_eq_edges(ax) for ax in 'xyz']
    if all(raw):
        dbl = [d for d in dbl if not all(d not in fn.reachable(0, removed_edges=r) for r in raw)]
    if H and dbl:
        if R:
            r1 = fn.reachable(0, removed_edges=[x for rr in R for x in rr[2]])
            r2 = fn.reachable(0, removed_edges=[x for hh in H for x in hh[2]])
            cx.add(rule, inst + '/neg', not any(d in r1 for d in dbl) and not any(d in r2 for d in dbl),
                   'doubling is reached only after observing both H == 0 and R == 0 (P + (-P) must give infinity, not 2P)', fn.loc())
        else:
            cx.add(rule, inst + '/neg', False, 'H == 0 leads to doubling without testing R (P + (-P) would give 2P)', fn.loc())


def s_pteq(cx, rule, fn):
    """point equality is true only after BOTH the x and the y cross-comparison succeeded"""
    P = Prov(fn, cx.F); cn = Canon(fn, P)
    inst = fn.short
    a, b = fn.local_name(1), fn.local_name(2)
    xs, ys = [], []
    for bb, p, te, fe in G.bool_switches(fn, P):
        if p.kind in ('eq', 'cmp') and len(p.args) == 2:
            s = cn.c(p.args[0]) + ' ' + cn.c(p.args[1])
            c = coords(s)
            if p.kind == 'cmp' and p.op not in ('Eq', 'Ne'):
                continue
            eq_true = not p.neg if p.kind == 'eq' else (p.op == 'Eq') != p.neg
            passed = te if eq_true else fe
            if (a, 'x') in c and (b, 'x') in c and not any(ax == 'y' for _, ax in c):
                xs.append((bb, passed))
            if (a, 'y') in c and (b, 'y') in c and not any(ax == 'x' for _, ax in c):
                ys.append((bb, passed))
    # true exits: `_0 = const true` or `_0 = <y comparison>` (returning the last comparison)
    true_blocks = []
    ycmp_ret = []
    for bb, i, st in fn.stmts():
        if st['k'] == 'assign' and st['lhs']['l'] == 0 and not st['lhs']['p']:
            v = cn.c(norm(P.rvalue(st['rv'], bb, i, 0)))
            if v in ('1', 'true'):
                true_blocks.append(bb)
            elif v not in ('0', 'false'):
                c = coords(v)
                if (a, 'y') in c and (b, 'y') in c:
                    ycmp_ret.append(bb)
                else:
                    true_blocks.append(bb)
    for bb, t in fn.calls():
        if t['dest']['l'] == 0 and not t['dest']['p']:
            v = cn.c(norm(P.local(0, t['target'], 0))) if t['target'] is not None else ''
            c = coords(v)
            if (a, 'y') in c and (b, 'y') in c and not any(ax == 'x' for _, ax in c):
                ycmp_ret.append(bb)
            else:
                true_blocks.append(bb)
    okx = bool(xs) and not G.reachable_without(fn, true_blocks + ycmp_ret, [e for _, ps in xs for e in ps])
    oky = (not true_blocks) or (bool(ys) and not G.reachable_without(fn, true_blocks, [e for _, ps in ys for e in ps]))
    cx.add(rule, inst + '/x', okx, '`true` is returned only after x1*z2^2 == x2*z1^2 held (x tests bb%s; true exits bb%s, y-comparison returns bb%s)' % ([b_ for b_, _ in xs], true_blocks, ycmp_ret), fn.loc())
    cx.add(rule, inst + '/y', oky and bool(ys or ycmp_ret), '`true` is returned only after y1*z2^3 == y2*z1^3 held (a point and its negative share x)', fn.loc())
