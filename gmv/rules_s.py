"""S — sibling agreement rules for group operations"""
import re
from .prov import Prov, norm, strip, last, const_int
from .builder import Canon
from . import rules_g as G, frame as FR


def zero_preds(fn, P, cn):
    """(block, canonical expr, true_edges(is zero), false_edges(non-zero)) for is_zero(e) / e == ZERO tests"""
    out = []
    for b, p, te, fe in G.bool_switches(fn, P):
        e = None
        if p.kind == 'is_zero':
            e = p.args[0]
        elif p.kind == 'eq' and len(p.args) == 2:
            s0, s1 = cn.c(p.args[0]), cn.c(p.args[1])
            if s1 in ('SM9_ZERO', 'SM2_ZERO', '0') or const_int(p.args[1]) == 0:
                e = p.args[0]
            elif s0 in ('SM9_ZERO', 'SM2_ZERO', '0') or const_int(p.args[0]) == 0:
                e = p.args[1]
        if e is None:
            continue
        z, nz = (te, fe) if not p.neg else (fe, te)
        out.append((b, cn.c(e), z, nz))
    return out


def coords(s):
    return set(re.findall(r'\$(\w+)\.([xyz])\b', s))


def s_jadd(cx, rule, fn, point_type):
    """the general addition formula is not reachable when both the x cross-difference H and the y cross-difference R
    are zero (equal points in different Jacobian representations must be doubled)"""
    P = Prov(fn, cx.F); cn = Canon(fn, P)
    inst = fn.short
    params = [fn.local_name(i) for i in range(1, fn.arg_count + 1)]
    if len(params) != 2:
        cx.lost(rule, inst, 'adder does not take two points')
        return
    a, b = params
    zs = zero_preds(fn, P, cn)
    def is_diff(s, axis):
        c = coords(s)
        return s.startswith('fp_sub(') and (a, axis) in c and (b, axis) in c and not any(ax == ('y' if axis == 'x' else 'x') for _, ax in c)
    H = [z for z in zs if is_diff(z[1], 'x')]
    R = [z for z in zs if is_diff(z[1], 'y')]
    sinks = []
    for bb, i, rv in G.aggr_blocks(fn, point_type):
        xs = cn.c(norm(P.operand(rv['ops'][0], bb, i)))
        if 'fp_sub(' in xs or 'fp_mul(' in xs or 'fp_sqr(' in xs:
            sinks.append(bb)
    if not sinks:
        cx.lost(rule, inst, 'general-case result construction not found', fn.loc())
        return
    nz_edges = [e for z in H + R for e in z[3]]
    left = G.reachable_without(fn, sinks, nz_edges)
    cx.add(rule, inst, bool(H) and not left,
           'general addition formula is reached only after observing H != 0 or R != 0 (H = x2*z1^2 - x1*z2^2, R likewise for y); H tests at bb%s, R tests at bb%s%s' % (
               [z[0] for z in H], [z[0] for z in R], '' if (H and not left) else ' — equal points with different Z fall into the general formula and yield (0,0,0)'),
           G.where(fn, sinks[0]), {'H': [z[1] for z in H], 'R': [z[1] for z in R]})
    # the identity is returned for H == 0 only after R has been seen to be non-zero (same x, different y: P + (-P));
    # returning it on H == 0 alone turns P + P' (same point, another representation) into the identity
    inf = [bb for (bb, i) in G.ret_def_sites(fn) if i == -1 and fn.blocks[bb]['term']['fn'].get('k') == 'def' and last(fn.blocks[bb]['term']['fn']['name']) == 'zero']
    if inf and H:
        def is_sum(s_):
            c = coords(s_)
            return s_.startswith('fp_add(') and (a, 'y') in c and (b, 'y') in c and not any(ax == 'x' for _, ax in c)
        S = [z for z in zs if is_sum(z[1])]
        cut = [e for z in R for e in z[3]] + [e for z in S for e in z[2]]
        left_inf = sorted({bb for z in H for (_, tgt) in z[2] for bb in inf if bb in fn.reachable_ds(tgt, removed_edges=cut)})
        cx.add(rule, inst + '/inf', not left_inf,
               'after H == 0 the identity is returned only once R != 0 (or y1\' + y2\' == 0) has been observed: identity returns at bb%s, reached from an H == 0 edge without it: bb%s' % (inf, left_inf), fn.loc())
    dbl = [bb for bb, t in fn.calls() if t['fn']['k'] == 'def' and last(t['fn']['name']) in ('point_dbl', 'point_double')]
    cx.add(rule, inst + '/doubles', bool(dbl), 'the adder delegates the P = Q case to doubling', fn.loc())
    # doubling must require R == 0 as well: a doubling call reachable with H == 0 but R != 0 would turn P + (-P) into 2P
    # accepted idiom: doubling guarded by bitwise equality of all three coordinates (trivially H = R = 0)
    def raw_eq_edges(axis):
        out = []
        for bb, p, te, fe in G.bool_switches(fn, P):
            if p.kind == 'eq' and len(p.args) == 2 and sorted([cn.c(p.args[0]), cn.c(p.args[1])]) == sorted(['$%s.%s' % (a, axis), '$%s.%s' % (b, axis)]):
                out += fe if p.neg else te
        return out
    raw = [raw_eq_edges(ax) for ax in 'xyz']
    if not all(raw):
        # the same guard written `self == p` with the derived (field-wise) equality of the point type: the derive must
        # compare x, y and z
        for bb, p, te, fe in G.bool_switches(fn, P):
            if p.kind == 'eq' and len(p.args) == 2 and sorted([cn.c(p.args[0]), cn.c(p.args[1])]) == sorted(['$' + a, '$' + b]):
                t_ = fn.blocks[bb]['term'] if fn.blocks[bb]['term'].get('k') == 'call' else None
                eqs = [g for q_, g in cx.F.fns.items() if 'PartialEq for' in q_ and q_.endswith('::eq') and point_type.split('::')[0] in q_]
                from . import rules_i as _I
                full = False
                for g in eqs:
                    rr = _I.returns(g, cx.F, True)
                    txt = ' '.join([' '.join(c_) for c_, _ in rr] + [v_ for _, v_ in rr])
                    full = full or all(('eq($self.%s, $other.%s)' % (ax, ax)) in txt for ax in 'xyz')
                if full:
                    e_ = fe if p.neg else te
                    raw = [e_, e_, e_]
    if all(raw):
        dbl = [d for d in dbl if not all(d not in fn.reachable(0, removed_edges=r) for r in raw)]
    if H and dbl:
        if R:
            r1 = fn.reachable(0, removed_edges=[x for rr in R for x in rr[2]])
            r2 = fn.reachable(0, removed_edges=[x for hh in H for x in hh[2]])
            cx.add(rule, inst + '/neg', not any(d in r1 for d in dbl) and not any(d in r2 for d in dbl),
                   'doubling is reached only after observing both H == 0 and R == 0 (P + (-P) must give infinity, not 2P)', fn.loc())
        else:
            cx.add(rule, inst + '/neg', False, 'H == 0 leads to doubling without testing R (P + (-P) would give 2P)', fn.loc())


def s_pteq(cx, rule, fn):
    """point equality is true only after BOTH the x and the y cross-comparison succeeded"""
    P = Prov(fn, cx.F); cn = Canon(fn, P)
    inst = fn.short
    a, b = fn.local_name(1), fn.local_name(2)
    xs, ys = [], []
    cross_fail = []
    for bb, p, te, fe in G.bool_switches(fn, P):
        if p.kind in ('eq', 'cmp') and len(p.args) == 2:
            s = cn.c(p.args[0]) + ' ' + cn.c(p.args[1])
            c = coords(s)
            if p.kind == 'cmp' and p.op not in ('Eq', 'Ne'):
                continue
            eq_true = not p.neg if p.kind == 'eq' else (p.op == 'Eq') != p.neg
            passed = te if eq_true else fe
            failing = fe if eq_true else te
            if (a, 'x') in c and (b, 'x') in c and not any(ax == 'y' for _, ax in c):
                xs.append((bb, passed))
            if (a, 'y') in c and (b, 'y') in c and not any(ax == 'x' for _, ax in c):
                ys.append((bb, passed))
            # a comparison of cross-multiplied coordinates (x1*z2^2 with x2*z1^2, y likewise): the only kind whose failure
            # shows that two Jacobian triples denote different points
            if (a, 'z') in c and (b, 'z') in c and (((a, 'x') in c and (b, 'x') in c) or ((a, 'y') in c and (b, 'y') in c)):
                cross_fail += failing
    # true exits: `_0 = const true` or `_0 = <y comparison>` (returning the last comparison)
    true_blocks = []
    ycmp_ret = []
    for bb, i, st in fn.stmts():
        if st['k'] == 'assign' and st['lhs']['l'] == 0 and not st['lhs']['p']:
            v = cn.c(norm(P.rvalue(st['rv'], bb, i, 0)))
            if v in ('1', 'true'):
                true_blocks.append(bb)
            elif v not in ('0', 'false'):
                c = coords(v)
                if (a, 'y') in c and (b, 'y') in c:
                    ycmp_ret.append(bb)
                else:
                    true_blocks.append(bb)
    for bb, t in fn.calls():
        if t['dest']['l'] == 0 and not t['dest']['p']:
            v = cn.c(norm(P.local(0, t['target'], 0))) if t['target'] is not None else ''
            c = coords(v)
            if (a, 'y') in c and (b, 'y') in c and not any(ax == 'x' for _, ax in c):
                ycmp_ret.append(bb)
            else:
                true_blocks.append(bb)
    okx = bool(xs) and not G.reachable_without(fn, true_blocks + ycmp_ret, [e for _, ps in xs for e in ps])
    oky = (not true_blocks) or (bool(ys) and not G.reachable_without(fn, true_blocks, [e for _, ps in ys for e in ps]))
    cx.add(rule, inst + '/x', okx, '`true` is returned only after x1*z2^2 == x2*z1^2 held (x tests bb%s; true exits bb%s, y-comparison returns bb%s)' % ([b_ for b_, _ in xs], true_blocks, ycmp_ret), fn.loc())
    false_blocks = [bb for bb, i, st in fn.stmts() if st['k'] == 'assign' and st['lhs']['l'] == 0 and not st['lhs']['p']
                    and cn.c(norm(P.rvalue(st['rv'], bb, i, 0))) in ('0', 'false')]
    left_false = G.reachable_without(fn, false_blocks, cross_fail) if false_blocks else []
    cx.add(rule, inst + '/false', not left_false,
           '`false` is returned only after a comparison of cross-multiplied coordinates failed (raw coordinates of two Jacobian triples say nothing, e.g. for two forms of the identity): false exits bb%s, reachable without such a failure: bb%s' % (false_blocks, left_false), fn.loc())
    cx.add(rule, inst + '/y', oky and bool(ys or ycmp_ret), '`true` is returned only after y1*z2^3 == y2*z1^3 held (a point and its negative share x)', fn.loc())


# ---------------------------------------------------------------- duplicated arithmetic code must agree
FPI2 = 'gm_sm2::fields::fp64::<impl fields::FieldModOperation for [u64; 4]>::'
FPI9 = 'gm_sm9::fields::fp::<impl fields::FieldElement for [u64; 4]>::'
N2P = {'SMx_N_PRIME': 'SMx_P_PRIME', 'SMx_N_NEG': 'SMx_MODP_MONT_ONE', 'SMx_MOD_N_2E512': 'SMx_MODP_2E512', 'SMx_N_MINUS_TWO': 'SMx_P_MINUS_TWO', 'SMx_N': 'SMx_P'}
W512 = {'Eq(i@in, 7)': 'Eq(i@in, 3)', 'Eq(var:i@in, 7)': 'Eq(var:i@in, 3)', 'SubWithOverflow(7, j@in)': 'SubWithOverflow(3, j@in)'}
SIBLINGS = [
    # (label, [(function, substitution map)])
    ('limb-add', [('gm_sm2::u256::u256_add', {}), ('gm_sm9::u256::u256_add', {}), ('gm_sm2::u256::u512_add', W512), ('gm_sm9::u256::u512_add', W512)]),
    ('limb-sub', [('gm_sm2::u256::u256_sub', {}), ('gm_sm9::u256::u256_sub', {}), ('gm_sm2::u256::u512_sub', W512), ('gm_sm9::u256::u512_sub', W512)]),
    ('limb-mul', [('gm_sm2::u256::u256_mul', {}), ('gm_sm9::u256::u256_mul', {})]),
    ('be-decode', [('gm_sm2::u256::u256_from_be_bytes', {}), ('gm_sm9::u256::u256_from_be_bytes', {})]),
    ('be-encode', [('gm_sm2::u256::u256_to_be_bytes', {}), ('gm_sm9::u256::u256_to_be_bytes', {})]),
    ('mont-mul', [('gm_sm2::fields::fp64::mont_mul', {}), ('gm_sm9::fields::fp::mont_mul', {}), ('gm_sm2::fields::fn64::mont_mul', N2P)]),
    ('mod-add', [(FPI2 + 'fp_add', {}), (FPI9 + 'fp_add', {}), ('gm_sm2::fields::fn64::fn_add', N2P), ('gm_sm9::fields::mod_n_add', N2P)]),
    ('mod-sub', [(FPI2 + 'fp_sub', {}), (FPI9 + 'fp_sub', {})]),
    ('modn-sub', [('gm_sm2::fields::fn64::fn_sub', {}), ('gm_sm9::fields::mod_n_sub', {})]),
    ('mod-neg', [(FPI2 + 'fp_neg', {}), (FPI9 + 'fp_neg', {})]),
    ('mod-half', [(FPI2 + 'fp_div2', {}), (FPI9 + 'fp_div2', {})]),
    ('mod-sqr', [(FPI2 + 'fp_sqr', {}), (FPI9 + 'fp_sqr', {})]),
    ('mod-double', [(FPI2 + 'fp_double', {}), (FPI9 + 'fp_double', {})]),
    ('mod-mul', [(FPI2 + 'fp_mul', {}), (FPI9 + 'fp_mul', {})]),
    ('mod-inv', [(FPI2 + 'fp_inv', {}), (FPI9 + 'fp_inv', {})]),
    ('to-mont', [('gm_sm2::fields::fp64::fp_to_mont', {}), ('gm_sm9::fields::fp::fp_to_mont', {}), ('gm_sm2::fields::fn64::fn_to_mont', N2P)]),
    ('from-mont', [('gm_sm2::fields::fp64::fp_from_mont', {}), ('gm_sm9::fields::fp::fp_from_mont', {}), ('gm_sm2::fields::fn64::fn_from_mont', {})]),
]



def be_decode_exact(cx, qual, nwords=4, cursor_form=True):
    """`u256_from_be_bytes`: limb 3-i is the big-endian u64 at bytes 8i..8i+8 of the input, i = 0..3 -- decided exactly
    when the limbs are stored as `out[L] = u64::from_be_bytes(<8-byte window of input>)` in a constant-trip loop: index
    and window bounds are evaluated for every iteration.  (True/False, text) or None when the function is not of that form
    (for instance sequential reads through a Cursor), in which case only the sibling comparison speaks."""
    from . import ctext as CT, rules_i as _I
    fn = cx.F.fns.get(qual)
    if fn is None:
        return None
    arrs = [l.get('name') for l in fn.locals if l.get('name') and (l.get('ty') or '').replace(' ', '') == '[u64;%d]' % nwords]
    st = [(a_, b_) for nm in arrs for a_, b_ in _I.stores(fn, cx.F, nm)]
    st = [(_I.shorten_vars(a_), _I.shorten_vars(b_)) for a_, b_ in st]
    st = [(a_, b_) for a_, b_ in st if 'from_be_bytes' in b_ or 'read_u64' in b_ or ('$' + fn.local_name(1)) in b_]
    if cursor_form and st == [('each(rev(Range::Range{0, 4}))', 'unwrap(read_u64(new(%s)))' % ('$' + fn.local_name(1)))]:
        # sequential reads through one Cursor over the input: the k-th iteration (limb 3-k) reads bytes 8k..8k+8;
        # big-endian by the type argument of read_u64, one cursor created before the loop, one read per iteration
        rd = [(b_, t_) for b_, t_ in fn.calls() if t_['fn']['k'] == 'def' and last(t_['fn']['name']) == 'read_u64']
        nw = [b_ for b_, t_ in fn.calls() if t_['fn']['k'] == 'def' and last(t_['fn']['name']) == 'new' and 'Cursor' in (t_['fn']['name'] + (t_['fn'].get('generic') or ''))]
        loops = [c_ for c_ in fn.sccs() if len(c_) > 1]
        ok = len(rd) == 1 and 'BigEndian' in (rd[0][1]['fn'].get('generic') or '') and len(nw) == 1 and len(loops) == 1 and rd[0][0] in loops[0] and nw[0] not in loops[0]
        return (ok, 'limb 3-k = k-th sequential big-endian u64 read of a Cursor over the input, k = 0..3 (one cursor, one read per iteration)')
    if not st or not all(v_.startswith('from_be_bytes:u64(') for _, v_ in st):
        return None
    pname = '$' + fn.local_name(1)
    seen = {}
    for it, vt in st:
        try:
            ix, val = CT.parse(it), CT.parse(vt)
        except CT.ParseError as ex_:
            return (False, str(ex_))
        ctr = CT.counters(ix) | CT.counters(val)
        if len(ctr) > 1:
            return (False, 'more than one loop counter')
        doms = [None] if not ctr else CT.counter_domain(list(ctr)[0])
        if doms is None:
            return (False, 'the loop does not run over a constant range')
        for t_ in doms:
            env = {list(ctr)[0]: t_} if ctr else {}
            L = CT.ev(ix, env)
            # walk from_be_bytes:u64( unwrap / try_into / [..] wrappers ) down to the window index(base, Range{a, b})
            node = val[2][0] if val[0] == 'call' and len(val[2]) == 1 else None
            while node is not None and ((node[0] == 'call' and node[1] in ('unwrap', 'try_into', 'expect') and node[2]) or (node[0] == 'aggr' and node[1] == 'list' and len(node[2]) == 1)):
                node = node[2][0]
            off = 0
            ok = False
            if node is not None and node[0] == 'call' and node[1] in ('index', 'index_mut') and len(node[2]) == 2 and node[2][1][0] == 'aggr' and node[2][1][1] == 'Range::Range':
                a_, b_ = CT.ev(node[2][1][2][0], env), CT.ev(node[2][1][2][1], env)
                base = node[2][0]
                if base[0] == 'call' and base[1] == 'index' and len(base[2]) == 2 and base[2][1][0] == 'aggr' and base[2][1][1] == 'RangeTo::RangeTo':
                    base = base[2][0]          # input[..32][a..b]
                if base == ('sym', pname) and None not in (a_, b_, L):
                    ok = b_ - a_ == 8 and 0 <= L <= nwords - 1 and a_ == 8 * (nwords - 1 - L)
            if not ok:
                return (False, 'limb %s is not the big-endian u64 at input[%s..%s+8] (store %s = %s)' % (L, 8 * (nwords - 1 - L) if L is not None else '?', 8 * (nwords - 1 - L) if L is not None else '?', it[:50], vt[:90]))
            if L in seen:
                return (False, 'limb %d is stored twice' % L)
            seen[L] = True
    if sorted(seen) != list(range(nwords)):
        return (False, 'limbs stored: %s' % sorted(seen))
    rets = [v_ for _, v_ in _I.returns(fn, cx.F)]
    return (True, 'limb %d-i = BE64(input[8i..8i+8]) for i = 0..%d (indices and window bounds evaluated for every iteration)' % (nwords - 1, nwords - 1))


def s_siblings(cx, rule, only=None):
    """implementations of the same operation (code duplicated between the SM2 and SM9 crates, between the 256- and
    512-bit widths, and between the mod-p and mod-n variants) must have the same structure up to the listed renaming.
    A deviation in one copy is either a defect there or in all the others (Engler-style cross-check)."""
    import re
    from .rules_i import fn_shape
    n = 0
    for label, members in SIBLINGS:
        if only and label not in only:
            continue
        shapes = []
        # loop-free members are compared by their path summaries (what is returned under which decisions), which do not
        # depend on temporaries or statement order; groups with a member that loops keep the structural fingerprint
        from .rules_poly import path_summary
        sums = {}
        exact = {}
        if label == 'be-decode':
            # a copy that is decided exactly on its own does not take part in the cross-check
            for name, sub in members:
                r_ = be_decode_exact(cx, name)
                if r_ is not None:
                    exact[name] = r_
                    fn_ = cx.F.fns.get(name)
                    cx.add('I-BE-DECODE', name, r_[0], r_[1], fn_.loc() if fn_ is not None else '')
            members = [(n_, s_) for n_, s_ in members if n_ not in exact]
            if len(members) < 2:
                for n_, s_ in members:
                    fn_ = cx.F.fns.get(n_)
                    if fn_ is None:
                        cx.lost(rule, '%s/%s' % (label, n_), 'sibling implementation not found')
                    else:
                        cx.add(rule, '%s/%s' % (label, n_.split('::', 1)[-1]), False, 'this copy is of a form that is neither decided exactly nor has a sibling of the same form to be compared with', fn_.loc())
                continue
        for name, sub in members:
            fn = cx.F.fns.get(name)
            sums[name] = path_summary(cx.F, fn) if fn is not None else None
        use_sum = all(v is not None for v in sums.values())
        for name, sub in members:
            fn = cx.F.fns.get(name)
            if fn is None:
                cx.lost(rule, '%s/%s' % (label, name), 'sibling implementation not found')
                continue
            if use_sum:
                s = re.sub(r'\bSM[29]_', 'SMx_', '\n'.join(sums[name]))
                s = _complement_norm(cx, s)
            else:
                s = fn_shape(fn, cx.F)
            for a, b in sorted(sub.items(), key=lambda kv: -len(kv[0])):
                s = s.replace(a, b)
            s = re.sub(r'\b_\d+@in', 'tmp@in', s)
            if not use_sum:
                # iteration bookkeeping is not structure: which local is the counter or the element binding, how the
                # exhaustion of a finite iterator is tested, the name of the array that is filled and returned
                ls0 = s.split('\n')
                stored = {m_.group(1) for m_ in (re.match(r'^store ([\w.]+)\[', l) for l in ls0) if m_}
                out0 = []
                for l in ls0:
                    if re.match(r"^loop [\w.']+' = (phi\()?each\((rev\()?Range::Range\{", l) or re.match(r"^loop [\w.']+' = [^\[\]]*\[each\((rev\()?Range::Range\{0, \d+\}\)?\)\]$", l):
                        continue
                    if re.match(r'^exit on discr\(next\(into_iter\((rev\()?(Range::Range\{\d+, \d+\}|iter(_mut)?\()', l):
                        continue
                    m_ = re.match(r'^ret \[(.*)\] => (.*)$', l)
                    if m_:
                        conds = [c_ for c_ in re.findall(r"'([^']*)'", m_.group(1)) if not c_.startswith('discr(next(')]
                        v_ = m_.group(2)
                        if len(stored) == 1 and (v_ in stored or v_ == 'repeat{0}'):
                            v_ = '<the filled array>'
                        l = 'ret %s => %s' % (conds, v_)
                    if len(stored) == 1:
                        l = re.sub(r'^store [\w.]+\[', 'store A[', l)
                    out0.append(l)
                s = '\n'.join(out0)
            # identity transfers of (possibly unused) loop-local bindings carry no information
            s = '\n'.join(l for l in s.split('\n') if not re.match(r"^loop (\w+)' = \1@in$", l) and not re.match(r"^loop (\w+)' = (phi\()?each\(Range", l))
            # parameter names are irrelevant
            for i in range(1, fn.arg_count + 1):
                s = re.sub(r'\$%s\b' % re.escape(fn.local_name(i)), '$%d' % i, s)
            # names of loop-carried locals are irrelevant, and so is how many temporaries hold the same value
            # (a helper that was extracted and inlined again leaves one more): compare the SET of per-iteration values
            ls_ = []
            for l in s.split('\n'):
                m_ = re.match(r"^loop ([\w.']+)' = (.*)$", l)
                if m_:
                    nm_ = m_.group(1)
                    v_ = re.sub(r'\b%s@in\b' % re.escape(nm_), 'self@in', m_.group(2))
                    l = 'loop = ' + v_
                    if re.match(r'^(\$\w+|[\w.]+@in|\d+|0x[0-9a-f]+)$', v_):
                        continue      # a plain copy (the parameter binding of an inlined helper) is not structure
                ls_.append(l)
            s = '\n'.join(sorted(set(ls_)))
            shapes.append((name, s))
        if len(shapes) < 2:
            continue
        n += 1
        # majority shape
        from collections import Counter
        cnt = Counter(s for _, s in shapes)
        major, _ = cnt.most_common(1)[0]
        dev = [nm for nm, s in shapes if s != major]
        if not dev:
            cx.hold(rule, label, '%d implementations of %s agree structurally: %s' % (len(shapes), label, [m.split('::', 1)[1][-40:] for m, _ in shapes]))
        else:
            for nm in dev:
                other = next(m for m, s in shapes if s == major)
                fn = cx.F.fns[nm]
                a = dict(shapes)[nm].split('\n'); b = major.split('\n')
                diff = [(x, y) for x, y in zip(a, b) if x != y][:2]
                cx.violate(rule, '%s/%s' % (label, nm.split('::', 1)[1]), '%s deviates from its sibling %s: %s' % (nm.split('::', 1)[1], other.split('::', 1)[1], diff or 'different number of statements'), fn.loc(), {'this': a, 'sibling': b})
    return n


# ---------------------------------------------------------------------------------------------------------------------
# A-CARRY: limb carry chains.  In a multi-limb add/subtract the carry-out of limb i is the OR of every wrap that
# happened while limb i was combined with the other operand and the carry-in.  Folding the carry-in into one operand with
# an unchecked add (`x.overflowing_sub(y.wrapping_add(c))`, or `y + c`) loses the wrap of `y + c` when y is all ones:
# the flag of the outer operation no longer is the carry-out.  The rule inspects every overflowing_add/overflowing_sub
# whose flag is used and requires that no operand is `limb (+|-) carry` computed without its own flag, unless the
# interval engine shows the limb is below the type maximum (mask/shift results).

_COMPL = {'SMx_MODP_MONT_ONE': 'SMx_P', 'SMx_N_NEG': 'SMx_N'}


def _complement_ok(cx):
    """the constants named *_MODP_MONT_ONE / *_N_NEG are 2^256 minus the modulus (evaluated initialisers; every pair present in
    the workspace must satisfy it, and at least one must be present)"""
    if getattr(cx, '_compl_ok', None) is None:
        from .facts import item_int
        vals = {}
        for k_, it in cx.F.items.items():
            try:
                vals[last(k_)] = item_int(it)
            except Exception:
                pass
        n_, ok = 0, True
        for pre in ('SM2_', 'SM9_'):
            for neg, mod in (('MODP_MONT_ONE', 'P'), ('N_NEG', 'N')):
                a_, b_ = vals.get(pre + neg), vals.get(pre + mod)
                if a_ is None or b_ is None:
                    continue
                n_ += 1
                ok = ok and a_ + b_ == (1 << 256)
        cx._compl_ok = ok and n_ > 0
    return cx._compl_ok


def _complement_norm(cx, s):
    """u256_add(x, 2^256 - m).0 and u256_sub(x, m).0 are the same 256-bit word (and likewise with add/sub exchanged): one
    spelling, so that `r + (2^256 - m)` and `r - m` in a final correction compare equal.  Only the `.0` component: the
    carry / borrow flags of the two differ."""
    if 'SMx_MODP_MONT_ONE' not in s and 'SMx_N_NEG' not in s:
        return s
    if not _complement_ok(cx):
        return s

    def rw(t):
        out, i = [], 0
        while i < len(t):
            m = re.compile(r'u256_(add|sub)\(').match(t, i)
            if not m or (i > 0 and (t[i - 1].isalnum() or t[i - 1] == '_')):
                out.append(t[i]); i += 1
                continue
            j, depth = m.end(), 1
            while j < len(t) and depth:
                depth += t[j] in '([{'
                depth -= t[j] in ')]}'
                j += 1
            inner = t[m.end():j - 1]
            # top-level split
            parts, d_, cur = [], 0, ''
            for ch in inner:
                d_ += ch in '([{'
                d_ -= ch in ')]}'
                if ch == ',' and d_ == 0:
                    parts.append(cur); cur = ''
                else:
                    cur += ch
            parts.append(cur)
            parts = [rw(p_.strip()) for p_ in parts]
            op = m.group(1)
            if t.startswith('.0', j) and len(parts) == 2 and parts[1] in _COMPL and not t.startswith('.0.', j):
                out.append('u256_%s(%s, %s)' % ('sub' if op == 'add' else 'add', parts[0], _COMPL[parts[1]]))
            else:
                out.append('u256_%s(%s)' % (op, ', '.join(parts)))
            i = j
        return ''.join(out)
    return '\n'.join(rw(l) for l in s.split('\n'))


def _is_carry(e):
    from .prov import strip
    e = strip(e)
    if e.k == 'cast' and e.args:
        a = strip(e.args[0])
        if (a.ty or '').strip() == 'bool':
            return True
        if a.k == 'phi' and all((x.ty or '').strip() == 'bool' or (x.k == 'const' and x.c.get('ty') == 'bool') for x in a.args):
            return True
        if a.k == 'field' and a.name == '1':
            return True
        if a.k == 'binop' and a.name in ('BitOr', 'BitAnd', 'BitXor') and all(_is_boolish(x) for x in a.args):
            return True
    return False


def _is_boolish(e):
    from .prov import strip
    e = strip(e)
    return (e.ty or '').strip() == 'bool' or (e.k == 'field' and e.name == '1') or (e.k == 'const' and e.c.get('ty') == 'bool')



def carry_by_comparison(cx, rule, crates):
    """A borrow (carry) out of the three-operand limb step d = a - b - c (s = a + b + c) cannot be read off ONE comparison
    `d > a` (`s < a`): for b = 2^64-1 and c = 1 the step wraps all the way round, d = a, and the comparison says "no
    borrow".  Correct forms take the flag of each of the two steps (overflowing_sub twice, or two comparisons) and OR
    them.  The rule reports every comparison of a doubly wrapped difference / sum with its own first operand; the expected
    number of such sites is zero."""
    from .prov import strip, norm
    from .builder import Canon
    F = cx.F
    bad = []
    seen = 0
    for name, fn in sorted(F.fns.items()):
        if not name.startswith(tuple(crates)):
            continue
        cmps = [(b, i, st) for b, i, st in fn.stmts() if st['k'] == 'assign' and st['rv']['k'] == 'binop' and st['rv']['op'] in ('Gt', 'Lt', 'Ge', 'Le')]
        if not cmps:
            continue
        P = Prov(fn, F, cut_loops=True)
        cn = Canon(fn, P)
        for b, i, st in cmps:
            seen += 1
            x, y = strip(norm(P.operand(st['rv']['a'], b, i))), strip(norm(P.operand(st['rv']['b'], b, i)))
            op = st['rv']['op']
            for big, small, kind in ((x, y, 'sub' if op in ('Gt', 'Ge') else 'add'), (y, x, 'sub' if op in ('Lt', 'Le') else 'add')):
                # kind 'sub': big is the doubly wrapped difference compared as  d > a ;  kind 'add': big is the sum in  s < a
                w = 'wrapping_sub' if kind == 'sub' else 'wrapping_add'
                def nested(e):
                    e = strip(e)
                    if e.k == 'call' and last(e.name) == w and len(e.args) == 2:
                        inner = strip(e.args[0])
                        if inner.k == 'call' and last(inner.name) == w and len(inner.args) == 2:
                            return inner.args[0]
                    return None
                first = nested(big)
                if first is not None and cn.c(first) == cn.c(small):
                    bad.append((fn, b, cn.c(big)))
    for fn, b, txt in bad:
        cx.violate(rule, 'cmp-idiom/%s' % fn.short, 'the carry/borrow out of a three-operand limb step is taken from one comparison of %s with its first operand: wrong when the middle operand is all ones and a carry comes in' % txt[:80], G.where(fn, b))
    if not bad:
        cx.hold(rule, 'cmp-idiom', 'no carry/borrow is derived from a single comparison of a doubly wrapped sum or difference with its first operand (%d comparisons inspected)' % seen)

def carry_chain(cx, rule, crates, floor, only=None, exclude=()):
    from .prov import strip
    from . import rules_l as L
    F = cx.F
    n = 0
    bad = 0
    for name, fn in sorted(F.fns.items()):
        if not name.startswith(tuple(crates)):
            continue
        if (only is not None and last(name) not in only) or last(name) in exclude:
            continue
        blocks = [b for b, t in fn.calls() if t['fn']['k'] == 'def' and last(t['fn']['name']) in ('overflowing_add', 'overflowing_sub')]
        if not blocks:
            continue
        P = Prov(fn, F, cut_loops=True)
        fa = None
        for b in blocks:
            n += 1
            args = G.call_args(fn, P, b)
            for ai, a in enumerate(args):
                a = strip(a)
                inner = None
                if a.k == 'call' and last(a.name) in ('wrapping_add', 'wrapping_sub') and len(a.args) == 2:
                    inner = (last(a.name), a.args)
                elif a.k == 'field' and a.name == '0' and a.args and strip(a.args[0]).k == 'binop' and strip(a.args[0]).name in ('AddWithOverflow', 'SubWithOverflow'):
                    bb = strip(a.args[0])
                    inner = (bb.name, bb.args)
                elif a.k == 'binop' and a.name in ('Add', 'Sub', 'AddUnchecked', 'SubUnchecked'):
                    inner = (a.name, a.args)
                if inner is None:
                    continue
                cs = [i for i, x in enumerate(inner[1]) if _is_carry(x)]
                if not cs:
                    continue
                other = inner[1][1 - cs[0]]
                if fa is None:
                    fa = L.FnAnalysis(L.Analyzer(F), fn)
                hi = fa.iv(other, b)[1]
                tr = L.ty_range((strip(other).ty or 'u64'))
                if hi < tr[1]:
                    continue
                bad += 1
                cx.violate(rule, '%s/%s' % (fn.short, inner[0]),
                           'carry chain: operand %d of %s in %s is `limb %s carry` computed without a flag; when the limb is all ones the wrap is lost and the flag of the outer operation is not the carry-out'
                           % (ai, last(fn.blocks[b]['term']['fn']['name']), fn.short, '+' if 'dd' in inner[0] else '-'), G.where(fn, b))
        # the dual form: the carry-in is added AFTER the flagged operation with an unflagged add,
        # `let (s, c2) = x.overflowing_add(y); limb = s.wrapping_add(c1)`: the wrap of `s + c1` (s all ones) is in no flag
        for b, t in fn.calls():
            if t['fn']['k'] != 'def' or last(t['fn']['name']) not in ('wrapping_add', 'wrapping_sub'):
                continue
            args = G.call_args(fn, P, b)
            if len(args) != 2:
                continue
            cs = [i for i, x in enumerate(args) if _is_carry(x)]
            if len(cs) != 1:
                continue
            other = strip(args[1 - cs[0]])
            if not (other.k == 'field' and other.name == '0' and other.args and strip(other.args[0]).k == 'call'
                    and last(strip(other.args[0]).name or '') in ('overflowing_add', 'overflowing_sub')):
                continue
            if fa is None:
                fa = L.FnAnalysis(L.Analyzer(F), fn)
            if fa.iv(other, b)[1] < L.ty_range((other.ty or 'u64'))[1]:
                continue
            bad += 1
            cx.violate(rule, '%s/%s-after' % (fn.short, last(t['fn']['name'])),
                       'carry chain: %s adds the carry-in to the result of a flagged %s with an unflagged %s; when that result is all ones the wrap is in no flag and the carry-out of the limb is lost'
                       % (fn.short, last(strip(other.args[0]).name), last(t['fn']['name'])), G.where(fn, b))
        # the same with the plain operators (`s + c1`): wraps silently in release builds, panics in debug builds
        for b, bl in enumerate(fn.blocks):
            t = bl['term']
            if t['k'] != 'assert' or not t['kind'].startswith(('Overflow(Add', 'Overflow(Sub')) or bl.get('cleanup'):
                continue
            ops = [norm(P.operand(o, b, len(bl['stmts']))) for o in t['ops'][:2]]
            cs = [i for i, x in enumerate(ops) if _is_carry(x)]
            if len(ops) != 2 or len(cs) != 1:
                continue
            other = strip(ops[1 - cs[0]])
            if not (other.k == 'field' and other.name == '0' and other.args and strip(other.args[0]).k == 'call'
                    and last(strip(other.args[0]).name or '') in ('overflowing_add', 'overflowing_sub')):
                continue
            if fa is None:
                fa = L.FnAnalysis(L.Analyzer(F), fn)
            if fa.iv(other, b)[1] < L.ty_range((other.ty or 'u64'))[1]:
                continue
            bad += 1
            cx.violate(rule, '%s/op-after' % fn.short,
                       'carry chain: %s adds the carry-in to the result of a flagged %s with a plain operator; when that result is all ones the operation overflows (panic in debug builds, lost carry in release builds)'
                       % (fn.short, last(strip(other.args[0]).name)), G.where(fn, b))
    cx.floor(rule, 'sites', n, floor, 'overflowing_add/overflowing_sub sites examined for folded carries')
    if not bad:
        cx.hold(rule, 'chains', 'no overflowing_add/overflowing_sub among %d sites takes a `limb +/- carry` operand that was computed without its own flag' % n)


# ---------------------------------------------------------------------------------------------------------------------
# I-BARRETT: a Barrett reduction estimates the quotient with a truncated reciprocal, so x - q*M is the remainder only up
# to a small multiple of M.  Every function that multiplies by a *_BARRETT_MU constant and then by the modulus M must
# therefore (1) compare the difference with M and subtract M on the >= edge before the value is used further, and
# (2) when 2*M >= 2^256 the difference does not fit 256 bits, so the correction must also be entered from a second test
# (the limb above the 256-bit difference), i.e. a switch other than the comparison with one edge leading to the
# subtraction of M and the other to the comparison.

def barrett(cx, rule, fn, F):
    from .prov import const_item
    P = Prov(fn, F, cut_loops=True)
    cn = Canon(fn, P)
    mu = None
    mods = []
    for b, t in fn.calls():
        if t['fn']['k'] != 'def' or last(t['fn']['name']) not in ('u256_mul', 'u320_mul'):
            continue
        for a in G.call_args(fn, P, b):
            it = const_item(strip(a)) if strip(a).k == 'const' else None
            if it is None:
                s_ = cn.c(a)
                it = s_ if re.match(r'^[A-Z0-9_]+$', s_) else None
            if it and 'BARRETT_MU' in it:
                mu = it
            elif it and mu is not None:
                mods.append((b, last(it)))
    if mu is None or not mods:
        cx.lost(rule, fn.short, 'no Barrett multiplication (.. * *_BARRETT_MU, then q * M) found in %s' % fn.short, fn.loc())
        return
    mb, M = mods[0]
    mval = None
    for k_, it in F.items.items():
        if last(k_) == M:
            from .facts import item_int
            mval = item_int(it)
    # (1) comparison with M after the q*M product, with a subtraction of M on the >= edge
    cmp_sites = []
    for b, p, te, fe in G.bool_switches(fn, P):
        if p.kind != 'cmp' or len(p.args) != 2:
            continue
        sides = [cn.c(x) for x in p.args]
        if M not in sides:
            continue
        op = p.op if sides[1] == M else G.SWAPOP[p.op]
        ge_edges = {'Ge': te, 'Gt': None, 'Lt': fe, 'Le': None}.get(op)
        if p.neg and ge_edges is not None:
            ge_edges = fe if ge_edges is te else te
        if not ge_edges:
            continue
        if b not in fn.reachable(mb):
            continue
        subs = [sb for sb in G.call_blocks(fn, 'u256_sub') if M in [cn.c(x) for x in G.call_args(fn, P, sb)][1:2]]
        r = fn.reachable(ge_edges[0][1])
        near = [sb for sb in subs if sb in r]
        if near:
            cmp_sites.append((b, near))
    cx.add(rule, fn.short + '/correct', bool(cmp_sites),
           '%s: after x - q*%s (q from %s) the difference is compared with %s and %s is subtracted on the >= edge%s' % (fn.short, M, last(mu), M, M, '' if cmp_sites else ' — NO such correction: the result is off by the modulus whenever the quotient estimate is short'),
           G.where(fn, cmp_sites[0][0] if cmp_sites else mb))
    if mval is not None and 2 * mval >= (1 << 256):
        ok = False
        for cb, near in cmp_sites:
            for b, p, te, fe in G.bool_switches(fn, P):
                if b == cb or b not in fn.reachable(mb):
                    continue
                for (e1, e2) in ((te, fe), (fe, te)):
                    r1 = fn.reachable(e1[0][1], removed_blocks={cb})
                    if any(sb in r1 for sb in near) and (e2[0][1] == cb or cb in fn.reachable(e2[0][1])) and not any(sb in fn.reachable(e2[0][1], removed_blocks={cb}) for sb in near):
                        ok = True
        cx.add(rule, fn.short + '/top-limb', ok,
               '%s: 2*%s >= 2^256, so x - q*%s can exceed 256 bits: the correction is %sentered from a second test besides the 256-bit comparison' % (fn.short, M, M, '' if ok else 'NOT '),
               G.where(fn, cmp_sites[0][0] if cmp_sites else mb))


# ---------------------------------------------------------------------------------------------------------------------
# I-POW: left-to-right binary exponentiation over the four 64-bit limbs of the exponent
POW_FNS = {
    # function suffix: (accumulator local, square template, multiply template, base, initial value)
    '<impl fields::fp12::Fp12>::pow': ('t', 'fp_sqr(%s)', 'fp_mul(%s, %s)', '$self', 'Fp12::Fp12{mont_one(), zero(), zero()}'),
    'gm_sm9::fields::fp::fp_pow': ('r', 'fp_sqr(%s)', 'fp_mul(%s, %s)', '$a', 'SM9_MODP_MONT_ONE'),
    'gm_sm9::fields::mod_n_pow': ('r', 'mod_n_mul(%s, %s)', 'mod_n_mul(%s, %s)', '$a', 'SM9_ONE'),
    'gm_sm2::fields::fp64::fp_pow': ('r', 'fp_sqr(%s)', 'fp_mul(%s, %s)', '$a', 'SM2_MODP_MONT_ONE'),
    'gm_sm2::fields::fn64::fn_pow': ('r', 'mont_mul(%s, %s)', 'mont_mul(%s, %s)', 'fn_to_mont($a)', 'SM2_N_NEG'),
}


def square_multiply(cx, rule, suffix):
    """the exponentiation loop: for every limb of the exponent, most significant first, exactly 64 times
    `acc = acc^2; if top bit of w { acc = acc * base }; w <<= 1` — no iteration, limb or squaring can be skipped"""
    from . import rules_i as I, rules_g as G
    from .prov import Prov, norm, last
    from .builder import Canon
    acc, sq_t, mul_t, base, one = POW_FNS[suffix]
    fn = cx.fn(suffix, rule)
    if fn is None:
        return
    F = cx.F
    inst = fn.short
    P = Prov(fn, F, cut_loops=True)
    cn = Canon(fn, P)
    vin = 'var:%s@in' % acc
    sq = sq_t % ((vin,) * sq_t.count('%s'))
    mul = mul_t % (sq, base)
    LIMB = '$e[each(rev(Range::Range{0, 4}))]'
    inner = I.find_loop(fn, P, cn, 'Range::Range{0, 64}', defines=[acc])
    outer = I.find_loop(fn, P, cn, 'rev(Range::Range{0, 4})') or I.find_loop(fn, P, cn, 'rev(iter($e))')
    has_w = any(l.get('name') == 'w' for l in fn.locals)
    tr = I.transfer(fn, F, 'Range::Range{0, 64}', [acc, 'w'] if has_w else [acc])
    if tr is None or inner is None or outer is None:
        cx.violate(rule, inst + '/loops', 'the limb loop `for i in (0..4).rev()` with the bit loop `for _ in 0..64` inside was not found', fn.loc())
        return
    got = tr[acc] or ''
    alts = sorted(x.strip() for x in got[4:-1].split(' | ')) if got.startswith('phi(') and got.endswith(')') else [got]
    # the current bit is either the top bit of a shifting copy of the limb, or bit 63, 62, .. 0 of the limb itself
    shifting = has_w and tr.get('w') == 'Shl(var:w@in, 1)'
    bit_tests = ['BitAnd(var:w@in, 0x8000000000000000)'] if shifting else ['BitAnd(Shr(%s, each(rev(Range::Range{0, 64}))), 1)' % LIMB]
    # (a local that merely holds the current limb and is not changed inside the bit loop is not a shifting copy)
    plain_w = has_w and not shifting and tr.get('w') in (None, LIMB, 'var:w@in')
    cx.add(rule, inst + '/step', alts == sorted([sq, mul]) and (shifting or not has_w or plain_w),
           'one bit step: %s = %s^2, times the base when the current bit is set; the bits are taken from the top down (got %s; w = %s)' % (acc, acc, FR_short(got), tr.get('w')), fn.loc(), {'got': tr})
    ih, icomp, _ = inner
    oh, ocomp, olatches = outer
    # the multiplication is selected by the top bit of w
    mul_last = last(mul_t.split('(')[0])
    mul_blocks = [b for b in icomp if fn.blocks[b]['term']['k'] == 'call' and fn.blocks[b]['term']['fn'].get('k') == 'def'
                  and cn.c(norm(P.local(fn.blocks[b]['term']['dest']['l'], fn.blocks[b]['term']['target'], 0))) == mul] if True else []
    sel = []
    for b, p, te, fe in G.bool_switches(fn, P):
        if b in icomp and p.kind == 'eq' and sorted(cn.c(a) for a in p.args) in [sorted([bt_, '0']) for bt_ in bit_tests]:
            sel.append((b, te if p.neg else fe))
    ok_sel = len(sel) == 1 and len(mul_blocks) == 1 and mul_blocks[0] not in fn.reachable_ds(ih, removed_edges=sel[0][1])
    cx.add(rule, inst + '/bit', ok_sel, 'the multiplication by the base is done exactly when the current bit of the limb is set (bit tests %s, multiplication blocks %s)' % ([s[0] for s in sel], mul_blocks), fn.loc())
    # nothing is skipped: the bit loop leaves only when its range is exhausted, every pass of the limb loop runs it
    def exits(comp):
        return sorted((u, v) for u in comp for v in fn.succ(u) if v not in comp and not fn.blocks[v].get('cleanup') and fn.blocks[v]['term']['k'] != 'unreachable')
    iex, oex = exits(icomp), exits(ocomp)
    def is_iter_exit(u, rng):
        t = fn.blocks[u]['term']
        return t['k'] == 'switch' and rng in cn.c(norm(P.operand(t['op'], u, len(fn.blocks[u]['stmts']))))
    ok_exit = len(iex) == 1 and (is_iter_exit(iex[0][0], 'next(into_iter(Range::Range{0, 64}))') or is_iter_exit(iex[0][0], 'next(into_iter(rev(Range::Range{0, 64})))')) and len(oex) == 1 and (is_iter_exit(oex[0][0], 'next(into_iter(rev(Range::Range{0, 4})))') or is_iter_exit(oex[0][0], 'next(into_iter(rev(iter($e))))'))
    cx.add(rule, inst + '/no-early-exit', ok_exit, 'both loops are left only when their ranges are exhausted (bit-loop exits %s, limb-loop exits %s)' % (iex, oex), fn.loc())
    r = fn.reachable_ds(oh, removed_blocks={ih})
    skipping = [l for l in olatches if l in r and l != oh]
    # a latch reachable from the limb-loop header without entering the bit loop = a limb whose 64 squarings are skipped
    within = [l for l in skipping if l in ocomp]
    cx.add(rule, inst + '/every-limb', icomp < ocomp and not within, 'every pass of the limb loop runs the 64 bit steps (no path from the limb-loop header back to it avoids the bit loop)', fn.loc(),
           {'skipping_latches': within})
    # w is the limb i of the exponent, i = 3, 2, 1, 0
    if shifting:
        wl = [cn.c(norm(P.rvalue(st['rv'], b, i, 0))) for b, i, st in fn.stmts() if st['k'] == 'assign' and not st['lhs']['p']
              and fn.locals[st['lhs']['l']].get('name') == 'w' and b in ocomp and b not in icomp]
        cx.add(rule, inst + '/limb', wl == [LIMB], 'w is loaded with limb i of the exponent, i = 3, 2, 1, 0 (got %s)' % wl, fn.loc())
    else:
        cx.hold(rule, inst + '/limb', 'the bit test reads limb i of the exponent, i = 3, 2, 1, 0, directly', fn.loc())
    # start value and result
    idx = {l.get('name'): i for i, l in enumerate(fn.locals) if l.get('name')}
    P0 = Prov(fn, F)
    cn0 = Canon(fn, P0)
    pre = [p for p in fn.pred(oh) if p not in ocomp]
    init = sorted({cn0.c(norm(P0.local(idx[acc], p, len(fn.blocks[p]['stmts'])))) for p in pre}) if acc in idx else []
    cx.add(rule, inst + '/init', init == [one], 'the accumulator starts as the multiplicative identity %s (got %s)' % (one, init), fn.loc())
    rets = {v for _, v in I.returns(fn, F, cut_loops=True)}
    inner_vals = set()
    for v in rets:
        if v.startswith('fn_from_mont(phi(') and v.endswith('))'):
            inner_vals |= {x.strip() for x in v[len('fn_from_mont(phi('):-2].split(' | ')}
        elif v.startswith('phi(') and v.endswith(')'):
            inner_vals |= {x.strip() for x in v[4:-1].split(' | ')}
        else:
            inner_vals.add(v)
    cx.add(rule, inst + '/result', inner_vals == {one, sq, mul}, 'the result is the accumulator after the last limb (returned values %s)' % sorted(FR_short(x, 60) for x in rets), fn.loc())


def FR_short(s, n=160):
    from .frame import short
    return short(s, n)
