"""I — algorithm structure: one-iteration transfer functions of loops and return expressions of
small helper functions, rendered canonically and compared with the standard's definition."""
from .prov import Prov, norm, last
from .builder import Canon
from . import frame as FR


def find_loop(fn, P, cn, range_str, containing_call=None, defines=None):
    """(header_block, loop_blocks, latch_blocks) of `for _ in <range_str>` (or the counted while-loop over that range);
    optionally the loop whose body calls a function with the given last name / assigns the named locals (disambiguates
    loops over equal ranges)"""
    nl = dict(fn.natural_loops())
    def body_of(b):
        # the iterator's next() call sits in the loop header block (or the block leading to its switch)
        if b in nl:
            return nl[b]
        cands = [(h, body) for h, body in nl.items() if b in body]
        return min(cands, key=lambda x: len(x[1]))[1] if cands else None
    def header_of(b):
        if b in nl:
            return b
        cands = [(h, body) for h, body in nl.items() if b in body]
        return min(cands, key=lambda x: len(x[1]))[0] if cands else None
    heads = []
    for b in FR.calls_of(fn, 'next'):
        if range_str in FR.arg_canon(fn, P, cn, b, 0):
            h = header_of(b)
            if h is not None and h not in heads:
                heads.append(h)
    if getattr(P, 'cut_loops', False):
        for (h, comp, l, lo, hi) in P.induction_loops():
            if range_str in 'Range::Range{%s, %s}' % (cn.bound(lo), cn.bound(hi)) and h not in heads:
                heads.append(h)
    if containing_call and len(heads) > 1:
        heads = [h for h in heads if any(fn.blocks[x]['term']['k'] == 'call' and fn.blocks[x]['term']['fn']['k'] == 'def' and last(fn.blocks[x]['term']['fn']['name']) == containing_call for x in nl[h])]
    if defines and len(heads) > 1:
        idx = {l.get('name'): i for i, l in enumerate(fn.locals) if l.get('name')}
        want = {idx[n] for n in defines if n in idx}
        keep = []
        for h in heads:
            d = {l for l, ds in P.defs.items() if any(b in nl[h] and k in ('full', 'call') for (b, i, k) in ds)}
            if want and want <= d:
                keep.append(h)
        heads = keep
    if len(heads) != 1:
        return None
    hdr = heads[0]
    loop = nl[hdr]
    latches = [p for p in fn.pred(hdr) if p in loop]
    return hdr, loop, latches


def transfer(fn, F, range_str, names, containing_call=None, innermost=True):
    """expressions of the named locals at the end of one iteration of the loop over range_str, in terms of the
    values at the start of the iteration (`var:x@in`)"""
    P = Prov(fn, F, cut_loops=True)
    cn = Canon(fn, P)
    fl = find_loop(fn, P, cn, range_str, containing_call, defines=names)
    if fl is None or len(fl[2]) != 1:
        return None
    hdr, loop, latches = fl
    lb = latches[0]
    idx = {l.get('name'): i for i, l in enumerate(fn.locals) if l.get('name')}
    out = {}
    for n in names:
        if n not in idx:
            out[n] = None
            continue
        out[n] = cn.c(norm(P.local(idx[n], lb, len(fn.blocks[lb]['stmts']))))
    return out


def returns(fn, F, cut_loops=False):
    """canonical expressions assigned to the return place, with the dominating branch conditions"""
    from .builder import select_conds
    P = Prov(fn, F, cut_loops=cut_loops)
    cn = Canon(fn, P)
    out = []
    from .rules_g import ret_def_sites
    for b, i in ret_def_sites(fn):
        if i == -1:
            t = fn.blocks[b]['term']
            out.append((tuple(select_conds(fn, P, b, cn)), cn.c(norm(P.local(t['dest']['l'], t['target'], 0))) if t['target'] is not None else '?'))
        else:
            st = fn.blocks[b]['stmts'][i]
            out.append((tuple(select_conds(fn, P, b, cn)), cn.c(norm(P.rvalue(st['rv'], b, i, 0)))))
    return out


def stores(fn, F, local_name, cut_loops=True, through_deref=False):
    """canonical (index, value) pairs of element stores into a named array local / `*param`"""
    P = Prov(fn, F, cut_loops=cut_loops)
    cn = Canon(fn, P)
    out = []
    for b, i, st in fn.stmts():
        if st['k'] != 'assign':
            continue
        lp = st['lhs']
        nm_ = fn.locals[lp['l']].get('name') or ''
        if nm_ != local_name and not nm_.endswith('.' + local_name):
            continue
        pr = lp['p']
        if through_deref:
            if not pr or pr[0] != 'deref':
                continue
            pr = pr[1:]
        if len(pr) == 1 and isinstance(pr[0], dict) and 'idx' in pr[0]:
            out.append((cn.c(norm(P.local(pr[0]['idx'], b, i))), cn.c(norm(P.rvalue(st['rv'], b, i, 0)))))
        elif len(pr) == 1 and isinstance(pr[0], dict) and 'cidx' in pr[0]:
            out.append((str(pr[0]['cidx']), cn.c(norm(P.rvalue(st['rv'], b, i, 0)))))
    # `*cell = v` with cell the element of local.iter_mut() (.enumerate() / .zip(..) / .rev()): the store local[i] = v
    if not through_deref:
        import re as _re
        for b, i, st in fn.stmts():
            if st['k'] != 'assign' or st['lhs']['p'] != ['deref']:
                continue
            l = st['lhs']['l']
            if l <= fn.arg_count or not (fn.local_ty(l) or '').startswith('&mut '):
                continue
            raw = P.local(l, b, i)
            tgt = cn.c(norm(raw))
            # which local does the iterator borrow?
            owner = None
            from .builder import root_local as _root
            for x in raw.walk():
                if x.k == 'call' and last(x.name or '') in ('iter_mut', 'chunks_exact_mut', 'chunks_mut') and x.site and x.site[1] == -1:
                    tb_ = fn.blocks[x.site[0]]['term']
                    if tb_['args'] and tb_['args'][0]['k'] in ('copy', 'move'):
                        rl_ = _root(P, tb_['args'][0], x.site[0], len(fn.blocks[x.site[0]]['stmts']))
                        owner = fn.locals[rl_].get('name') if rl_ is not None else None
                        break
            if owner != local_name or not tgt.endswith(']'):
                continue
            # the index is the text inside the last top-level brackets
            d_, k_ = 0, None
            for pos in range(len(tgt) - 1, -1, -1):
                if tgt[pos] == ']':
                    d_ += 1
                elif tgt[pos] == '[':
                    d_ -= 1
                    if d_ == 0:
                        k_ = pos
                        break
            if k_ is not None:
                out.append((tgt[k_ + 1:-1], cn.c(norm(P.rvalue(st['rv'], b, i, 0)))))
    # local[a..a+n].copy_from_slice(src) with a source of known length n is n element stores
    if not through_deref:
        from .builder import be_call_type, be_byte, root_local
        from .prov import strip, const_int
        for b, t in fn.calls():
            if t['fn']['k'] != 'def' or last(t['fn']['name']) != 'copy_from_slice' or len(t['args']) != 2:
                continue
            n_ = len(fn.blocks[b]['stmts'])
            dst = strip(norm(P.operand(t['args'][0], b, n_)))
            src = strip(norm(P.operand(t['args'][1], b, n_)))
            if not (dst.k == 'call' and last(dst.name) in ('index_mut', 'index') and len(dst.args) == 2):
                continue
            base = strip(dst.args[0])
            bname = base.name if base.k == 'local' else None
            if bname is None and t['args'][0]['k'] in ('copy', 'move'):
                rl = root_local(P, t['args'][0], b, n_)
                bname = fn.locals[rl].get('name') if rl is not None else None
            if bname != local_name:
                continue
            r = strip(dst.args[1])
            if not (r.k == 'aggr' and r.name in ('Range::Range', 'RangeFrom::RangeFrom', 'RangeTo::RangeTo')):
                continue
            start = None if r.name == 'RangeTo::RangeTo' else r.args[0]
            bt = be_call_type(src)
            if bt and bt[0] == 'to' and src.args:
                n = bt[2]
                vals = [cn.c(be_byte(src.args[0], bt[1], k)) for k in range(n)]
            else:
                from .rules_l import array_len
                n = array_len(src.ty or '')
                if n is None or n > 64:
                    continue
                vals = ['%s[%d]' % (cn.c(src), k) for k in range(n)]
            s0 = cn.c(start) if start is not None else '0'
            for k in range(n):
                if k == 0:
                    idx = s0
                elif s0.isdigit():
                    idx = str(int(s0) + k)
                else:
                    idx = 'AddWithOverflow(%s, %d).0' % (s0, k)
                out.append((idx, vals[k]))
    return out


def shorten_vars(s):
    """`var:name=<initialiser expression>` -> `name` (the initialiser of an in-place mutated local is not part of the
    per-iteration structure)"""
    out = []
    i = 0
    n = len(s)
    while i < n:
        if s.startswith('var:', i):
            j = i + 4
            while j < n and (s[j].isalnum() or s[j] in '_@'):
                j += 1
            name = s[i + 4:j]
            if j < n and s[j] == '=':
                k = j + 1
                # identifier part
                while k < n and (s[k].isalnum() or s[k] in '_:.$#'):
                    k += 1
                if k < n and s[k] in '({[':
                    depth = 0
                    while k < n:
                        if s[k] in '({[':
                            depth += 1
                        elif s[k] in ')}]':
                            depth -= 1
                            if depth == 0:
                                k += 1
                                break
                        k += 1
                out.append(name)
                i = k
                continue
            out.append(name)
            i = j
            continue
        out.append(s[i])
        i += 1
    return ''.join(out)


def fn_shape(fn, F):
    """normalised structural fingerprint of a small arithmetic function: returns with their branch conditions, element
    stores into named locals, and the one-iteration transfer of every named scalar assigned inside a loop.
    Crate-specific constant prefixes are unified (SM2_/SM9_ -> SMx_) so that duplicated code can be compared."""
    import re
    P = Prov(fn, F, cut_loops=True)
    cn = Canon(fn, P)
    from .builder import select_conds
    lines = []
    for c, v in returns(fn, F, True):
        lines.append('ret %s => %s' % (list(c), shorten_vars(v)))
    named = [(i, l['name']) for i, l in enumerate(fn.locals) if l.get('name')]
    for i, nm in named:
        st = stores(fn, F, nm)
        for a, b in st:
            lines.append('store %s[%s] = %s' % (nm, shorten_vars(a), shorten_vars(b)))
    loops = fn.sccs()
    for comp in loops:
        hdrs = [b for b in comp if any(p not in comp for p in fn.pred(b))]
        if len(hdrs) != 1:
            continue
        latches = [p for p in fn.pred(hdrs[0]) if p in comp]
        if len(latches) != 1:
            continue
        lb = latches[0]
        for i, nm in named:
            if any(b in comp and kind in ('full', 'call') for (b, _, kind) in P.defs.get(i, [])):
                lines.append('loop %s\' = %s' % (nm, shorten_vars(cn.c(norm(P.local(i, lb, len(fn.blocks[lb]['stmts'])))))))
        # exit conditions
        for b in sorted(comp):
            t = fn.blocks[b]['term']
            if t['k'] == 'switch' and any(s not in comp for s in fn.succ(b)):
                lines.append('exit on %s' % shorten_vars(cn.c(norm(P.operand(t['op'], b, len(fn.blocks[b]['stmts']))))))
    # every two-way decision (the alternatives of a merged value are only as good as the test that selects them)
    in_loop_exit = set()
    for comp in loops:
        for b in comp:
            t = fn.blocks[b]['term']
            if t['k'] == 'switch' and any(s not in comp for s in fn.succ(b)):
                in_loop_exit.add(b)
    conds = []
    for b, bl in enumerate(fn.blocks):
        t = bl['term']
        if t['k'] == 'switch' and b not in in_loop_exit and not bl.get('cleanup'):
            c = shorten_vars(cn.c(norm(P.operand(t['op'], b, len(bl['stmts'])))))
            if not c.startswith('discr('):
                conds.append('test %s' % c)
    lines += sorted(conds)
    txt = '\n'.join(lines)
    txt = re.sub(r'\bSM[29]_', 'SMx_', txt)
    # fingerprints of duplicated code are compared without memory versions: a sibling may initialise or copy its result
    # array differently (the versions are part of the per-function templates, not of the cross-check)
    prev = None
    while prev != txt:
        prev = txt
        txt = re.sub(r'#\{[^{}]*\}', '', txt)
    return txt


def eval_small(e, env, depth=0, hook=None):
    """value of an integer/bool expression that depends only on the parameters in env (finite-domain case analysis of a
    selector such as the SM3 round index); None when anything else is involved"""
    from .prov import strip, const_int
    e = strip(e)
    if depth > 30:
        return None
    v = const_int(e) if e.k == 'const' else None
    if v is not None:
        return v
    if hook is not None:
        hv = hook(e)
        if hv is not None:
            return hv
    if e.k == 'param':
        return env.get(e.name)
    if e.k == 'cast' and e.args:
        return eval_small(e.args[0], env, depth + 1, hook)
    if e.k == 'field' and e.name == '0' and e.args and strip(e.args[0]).k == 'binop' and strip(e.args[0]).name.endswith('WithOverflow'):
        return eval_small(e.args[0], env, depth + 1, hook)
    if e.k == 'unop' and e.name == 'Not' and e.args:
        a = eval_small(e.args[0], env, depth + 1, hook)
        if a is None:
            return None
        return (not a) if (e.ty or '').strip() == 'bool' or a in (True, False) else None
    if e.k == 'phi':
        vals = {eval_small(a, env, depth + 1, hook) for a in e.args}
        return vals.pop() if len(vals) == 1 else None
    if e.k == 'binop' and len(e.args) == 2:
        a = eval_small(e.args[0], env, depth + 1, hook)
        b = eval_small(e.args[1], env, depth + 1, hook)
        if a is None or b is None:
            return None
        n = e.name.replace('WithOverflow', '')
        try:
            return {'Lt': lambda: a < b, 'Le': lambda: a <= b, 'Gt': lambda: a > b, 'Ge': lambda: a >= b, 'Eq': lambda: a == b, 'Ne': lambda: a != b,
                    'Add': lambda: a + b, 'Sub': lambda: a - b, 'Mul': lambda: a * b, 'BitAnd': lambda: a & b, 'BitOr': lambda: a | b, 'BitXor': lambda: a ^ b,
                    'Rem': lambda: a % b if b else None, 'Div': lambda: a // b if b else None, 'Shr': lambda: a >> b, 'Shl': lambda: a << b}[n]()
        except (KeyError, TypeError, ValueError):
            return None
    return None


def piecewise(fn, F, pname, domain):
    """{v: canonical returned expression} for every value v of the selector parameter `pname` in `domain`, by following,
    for each v, the one path whose branch conditions (which must depend on the selector alone) hold.  None when a branch
    depends on anything else, the function loops, or it calls something before returning a selected value."""
    from .rules_g import ret_def_sites
    P = Prov(fn, F)
    cn = Canon(fn, P)
    sites = {}
    for b, i in ret_def_sites(fn):
        if i == -1:
            return None
        st = fn.blocks[b]['stmts'][i]
        sites.setdefault(b, []).append((i, cn.c(norm(P.rvalue(st['rv'], b, i, 0)))))
    out = {}
    for v in domain:
        env = {pname: v}
        b, steps, val = 0, 0, None
        while True:
            steps += 1
            if steps > 300:
                return None
            bl = fn.blocks[b]
            if b in sites:
                val = sorted(sites[b])[-1][1]
            t = bl['term']
            k = t['k']
            if k == 'return':
                break
            if k == 'goto':
                b = t['target']
            elif k == 'switch':
                c = eval_small(P.operand(t['op'], b, len(bl['stmts'])), env)
                if c is None:
                    return None
                c = int(c)
                nxt = [tb for x, tb in t['targets'] if str(x) == str(c)]
                b = nxt[0] if nxt else t['otherwise']
            elif k in ('assert', 'drop') and t.get('target') is not None:
                b = t['target']
            elif k == 'call' and t.get('target') is not None:
                b = t['target']
            else:
                return None
        if val is None:
            return None
        out[v] = val
    return out



def zip_xor_collect(fn, F):
    """the returned vector when it is `a.iter().zip(b).map(|(x, y)| x ^ y).collect()`: [(base text, length text or None)]
    for the two zipped slices (`index(base, RangeTo{n})` gives (base, n), a whole collection (base, None)); the element i
    of the result is a[i] ^ b[i] for i below the shorter length.  None when the function is not of that form."""
    from . import ctext as CT
    rets = [v for _, v in returns(fn, F, True)]
    if len(rets) != 1:
        return None
    try:
        e = CT.parse(rets[0])
    except CT.ParseError:
        return None
    if not (e[0] == 'call' and e[1] == 'collect' and len(e[2]) == 1):
        return None
    m = e[2][0]
    if not (m[0] == 'call' and m[1] == 'map' and len(m[2]) == 2 and m[2][0][0] == 'call' and m[2][0][1] == 'zip' and len(m[2][0][2]) == 2):
        return None
    cl = [g for n, g in F.fns.items() if n.startswith(fn.name + '::{closure')]
    if len(cl) != 1 or [v for _, v in returns(cl[0], F, True)] not in (['BitXor($_2.0, $_2.1)'], ['BitXor($_2.1, $_2.0)']):
        return None
    out = []
    for side in m[2][0][2]:
        while side[0] == 'call' and side[1] in ('iter', 'into_iter', 'copied', 'cloned') and len(side[2]) == 1:
            side = side[2][0]
        if side[0] == 'call' and side[1] == 'index' and len(side[2]) == 2 and side[2][1][0] == 'aggr' and side[2][1][1] == 'RangeTo::RangeTo':
            out.append((CT.show(side[2][0]), CT.show(side[2][1][2][0])))
        else:
            out.append((CT.show(side), None))
    return out

def xor_rule(cx, rule, qual, pa, pb, lens):
    """byte-wise XOR helper: the returned vector consists of a[i] ^ b[i] for i = 0 .. n (one append per index, same index
    on both operands, nothing else appended)"""
    from . import frame as FR
    fn = cx.fn(qual, rule)
    if fn is None:
        return
    P = Prov(fn, cx.F, cut_loops=True)
    cn = Canon(fn, P)
    apps = []
    for b, t in fn.calls():
        if t['fn']['k'] == 'def' and last(t['fn']['name']) in ('push', 'extend_from_slice', 'append', 'extend') and 'Vec' in t['fn']['name']:
            apps.append((b, cn.c(norm(P.operand(t['args'][1], b, len(fn.blocks[b]['stmts']))))))
    inloop = set().union(*[c for _, c in fn.natural_loops()]) if fn.natural_loops() else set()
    want = []
    for n in lens:
        i = 'each(Range::Range{0, %s})' % n
        want += ['BitXor($%s[%s], $%s[%s])' % (pa, i, pb, i), 'BitXor($%s[%s], $%s[%s])' % (pb, i, pa, i)]
    ok = len(apps) == 1 and apps[0][0] in inloop and apps[0][1] in want
    if not apps:
        z = zip_xor_collect(fn, cx.F)
        if z is not None:
            # a[..n].iter().zip(&b[..n]).map(|(x, y)| x ^ y).collect(): both sides cut to the same n, equal indices paired
            ok = sorted(x[0] for x in z) == sorted(['$' + pa, '$' + pb]) and z[0][1] is not None and z[0][1] == z[1][1] and z[0][1] in lens
    cx.add(rule, fn.short, ok, 'output byte i is %s[i] ^ %s[i] for every i below the length, one append per index: %s' % (pa, pb, [FR.short(x[1], 120) for x in apps]), fn.loc())
