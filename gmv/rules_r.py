"""R — randomness provenance (C14)"""
from .prov import Prov, norm, strip, same, last, fn_is, const_int, const_item
from .builder import Canon, root_local
from . import rules_g as G, frame as FR

RNG_OK = ('rand::rngs::thread::thread_rng',
          'rand::rngs::thread::<impl rand::RngCore for rand::prelude::ThreadRng>::fill_bytes',
          'rand::rngs::thread::<impl rand::RngCore for rand::prelude::ThreadRng>::try_fill_bytes',
          'rand::rngs::os::<impl rand::RngCore for rand::rngs::OsRng>::fill_bytes')
SAMPLER_NAMES = ('random_u256', 'sm9_random_u256', 'fn_random_u256', 'fp_random_u256')


def rng_callees(cx, crates=('gm_sm2', 'gm_sm9', 'gm_sm3', 'gm_sm4', 'gm_zuc')):
    """R-SRC: every callee in the rand / rand_core / getrandom crates must be thread_rng or ThreadRng/OsRng byte filling"""
    users = {}
    bad = []
    for name, fn in sorted(cx.F.fns.items()):
        for b, t in fn.calls():
            c = t['fn']
            if c['k'] != 'def':
                continue
            k = c.get('krate', '')
            if k in ('rand', 'rand_core', 'rand_chacha', 'getrandom', 'fastrand', 'oorandom') or 'Rng' in c['name']:
                users.setdefault(name, []).append(c['name'])
                if c['name'] not in RNG_OK:
                    bad.append((name, c['name'], G.where(fn, b)))
    for name, callee, w in bad:
        cx.violate('R-SRC', '%s->%s' % (name.split('::', 1)[1], last(callee)), 'randomness obtained from %s, which is not the OS-seeded thread CSPRNG' % callee, w)
    cx.add('R-SRC', 'workspace', not bad, 'all %d randomness-consuming functions use rand::thread_rng() + ThreadRng::fill_bytes only: %s' % (len(users), sorted(u.split('::', 1)[1] for u in users)))
    return users


def sampler_shape(cx, fn, bound_check):
    """R-SHAPE: rejection sampler draws 32 fresh bytes inside the loop, decodes them, and leaves the loop only
    through candidate < BOUND and candidate != 0; returns that candidate.  bound_check(expr, canon) decides the bound."""
    P = Prov(fn, cx.F); cn = Canon(fn, P)
    inst = fn.short
    fills = [b for b, t in fn.calls() if t['fn']['k'] == 'def' and last(t['fn']['name']) in ('fill_bytes', 'try_fill_bytes')]
    decs = G.call_blocks(fn, 'u256_from_be_bytes')
    if len(fills) != 1 or len(decs) != 1:
        cx.violate('R-SHAPE', inst, 'expected exactly one byte draw and one decode in the sampler (found %d, %d)' % (len(fills), len(decs)), fn.loc())
        return
    fb, db = fills[0], decs[0]
    loops = fn.sccs()
    loop = next((c for c in loops if fb in c), None)
    cx.add('R-SHAPE', inst + '/draw-in-loop', loop is not None and db in loop, 'the byte draw and the decode are inside the retry loop (fresh bytes per attempt)', G.where(fn, fb))
    tf = fn.blocks[fb]['term']
    rng_root = root_local(P, tf['args'][0], fb, len(fn.blocks[fb]['stmts']))
    rng_def = norm(P.local(rng_root, fb, len(fn.blocks[fb]['stmts']))) if rng_root is not None else None
    cx.add('R-SHAPE', inst + '/rng', rng_def is not None and rng_def.k == 'call' and fn_is(rng_def.name, 'rand::rngs::thread::thread_rng'),
           'the generator is the value of rand::thread_rng()', G.where(fn, fb))
    buf = root_local(P, tf['args'][1], fb, len(fn.blocks[fb]['stmts']))
    td = fn.blocks[db]['term']
    dbuf = root_local(P, td['args'][0], db, len(fn.blocks[db]['stmts']))
    ok = buf is not None and buf == dbuf and fn.local_ty(buf) == '[u8; 32]'
    # whole buffer: the slice handed to fill_bytes is buf[..] / &mut buf (no sub-range)
    whole = True
    for b, t in fn.calls():
        if t['fn']['k'] == 'def' and last(t['fn']['name']) in ('index_mut', 'index') and root_local(P, t['args'][0], b, len(fn.blocks[b]['stmts'])) == buf:
            ity = fn.local_ty(t['args'][1]['pl']['l']) if t['args'][1]['k'] != 'const' else t['args'][1]['c'].get('ty', '')
            if 'RangeFull' not in ity:
                whole = False
    cx.add('R-SHAPE', inst + '/buffer', ok and whole and fb in fn.dominators().get(db, ()), 'all 32 bytes of one buffer are drawn and then decoded (draw dominates decode)', G.where(fn, db))
    cand = norm(P.local(td['dest']['l'], td['target'], 0))
    # return value is the candidate
    rets = [(b, i, st) for b, i, st in fn.stmts() if st['k'] == 'assign' and st['lhs']['l'] == 0 and not st['lhs']['p']]
    rok = len(rets) == 1 and same(norm(P.rvalue(rets[0][2]['rv'], rets[0][0], rets[0][1], 0)), cand)
    cx.add('R-SHAPE', inst + '/returns-candidate', rok, 'the value returned is the candidate that passed the tests', fn.loc())
    sinks = [rets[0][0]] if rets else []
    # range test
    def is_cand(e):
        return same(norm(e), cand)
    bounds = []
    for b, p, te, fe in G.bool_switches(fn, P):
        if p.kind == 'cmp' and p.op in ('Lt', 'Ge') and is_cand(p.args[0]):
            bounds.append(p.args[1])
    if not bounds:
        cx.violate('R-BOUND', inst, 'no `candidate < BOUND` test found in the sampler', fn.loc())
    else:
        G.guard(cx, 'R-SHAPE', inst + '/range-exit', fn, P, sinks, lambda p: p.kind == 'cmp' and p.op in ('Lt', 'Ge') and is_cand(p.args[0]),
                None, '') if False else None
        insts = [p for _, p, _, _ in G.bool_switches(fn, P) if p.kind == 'cmp' and p.op in ('Lt', 'Ge') and is_cand(p.args[0])]
        G.guard(cx, 'R-SHAPE', inst + '/range-exit', fn, P, sinks, lambda p: p.kind == 'cmp' and p.op == insts[0].op and is_cand(p.args[0]),
                insts[0].op == 'Lt', 'the loop is left only with candidate < BOUND', fail_must_pass=[fb])
        bound_check(bounds[0], cn)
    # non-zero test: != 0, is_zero, or lexicographic >= [1,0,0,0]
    def nz(p):
        if p.kind == 'is_zero' and is_cand(p.args[0]):
            return True
        if p.kind == 'eq' and ((is_cand(p.args[0]) and const_int(p.args[1]) == 0) or (is_cand(p.args[1]) and const_int(p.args[0]) == 0)):
            return True
        if p.kind == 'unknown' and p.args and p.args[0].k == 'call' and last(p.args[0].name) == 'ge' and is_cand(p.args[0].args[0]) and const_int(p.args[0].args[1]) == 1:
            return True
        return False
    insts = [p for _, p, _, _ in G.bool_switches(fn, P) if nz(p)]
    if not insts:
        cx.violate('R-SHAPE', inst + '/nonzero-exit', 'no non-zero test of the candidate', fn.loc())
    else:
        p0 = insts[0]
        truth = {'is_zero': False, 'eq': False, 'unknown': True}[p0.kind]
        G.guard(cx, 'R-SHAPE', inst + '/nonzero-exit', fn, P, sinks, nz, truth, 'the loop is left only with candidate != 0', fail_must_pass=[fb])


def must_draw(cx, fn, samplers, rule='R-SITES', inst=None):
    """every path from entry to a success exit of fn passes a call of a sampler (directly, or through a callee all of
    whose returning paths pass one: one-level summary)"""
    inst = inst or fn.short
    def direct_blocks(f):
        return [b for b, t in f.calls() if t['fn']['k'] == 'def' and last(t['fn']['name']) in samplers]
    blocks = direct_blocks(fn)
    # one-level summary
    for b, t in fn.calls():
        c = t['fn']
        if c['k'] == 'def' and c['name'] in cx.F.fns and last(c['name']) not in samplers:
            g = cx.F.fns[c['name']]
            db = direct_blocks(g)
            if db:
                rets = [bb for bb, bl in enumerate(g.blocks) if bl['term']['k'] == 'return']
                r = g.reachable(0, removed_blocks=set(db))
                if not any(x in r for x in rets):
                    blocks.append(b)
    exits = G.ok_sinks(fn) or [bb for bb, bl in enumerate(fn.blocks) if bl['term']['k'] == 'return']
    if not blocks:
        cx.violate(rule, inst, 'no sampler call on any path of %s' % fn.short, fn.loc())
        return []
    r = fn.reachable(0, removed_blocks=set(blocks))
    bad = [e for e in exits if e in r]
    cx.add(rule, inst, not bad, 'every successful run of %s draws a fresh scalar (sampler call at bb%s is on every path to the exit)' % (fn.short, blocks), G.where(fn, blocks[0]))
    return blocks
