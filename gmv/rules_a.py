"""A-GRADE — graded homogeneity of field-tower and curve formulas (a dimension-type check over MIR).

Tower.  Fp2 = Fp[u]/(u^2 + 2),  Fp4 = Fp2[v]/(v^2 - u),  Fp12 = Fp4[w]/(w^3 - v).  With weight(w) = 1, weight(v) = 3,
weight(u) = 6 the defining relations are homogeneous modulo 12 (w^12 = u^2 = -2 is a scalar), so Fp12 is a Z/12-graded
Fp-algebra.  Give the Fp coordinate of x at basis element w^i v^j u^k the formal weight -(i + 3j + 6k) and the formal
degree 1: every coordinate of x*y, x^2, x^-1, v*x, ... is then a homogeneous expression of a known degree and weight in
the operand coordinates.

Curve.  Jacobian coordinates are weighted-projective: (X, Y, Z) ~ (l^2 X, l^3 Y, l Z).  Give X, Y, Z of the first
operand the weights 2, 3, 1 (and, independently, those of the second operand in a second dimension): the coordinates of
a doubling, an addition, a negation, an affine conversion again have weights (2m, 3m, m) for some m, and both sides of
the curve equation have the same weight.

Adding two terms of different grade, storing a term in the wrong coordinate, using x where x^2 belongs, Z^2 where Z^3
belongs — any of these breaks homogeneity whatever the values are.  The analysis is a forward dataflow over the MIR of
each formula function.  Abstract values are trees shaped like the type whose leaves are  Z (zero, fits any grade),
g(vector),  T (inhomogeneous, with the first offending operation)  or  U (not a field value / unknown).  A dimension is
either strict (a mismatch is an error) or lenient (a mismatch makes that component unknown, '*': Karatsuba sums and the
(Y+Z)^2 - Y^2 - Z^2 trick add terms of different weight on purpose and cancel them later).  Calls to tower operations
use the table of expected grades that each callee is itself verified against (assume/guarantee).  The rule decides
homogeneity only: numeric coefficients (a missing doubling, a sign) keep every grade and are not seen by it.
"""
from .prov import last
from . import rules_g as G

OFFS = {'Fp2': [0, 6], 'Fp4': [0, 3], 'Fp12': [0, 1, 2]}
CHILD = {'Fp2': 'Fp', 'Fp4': 'Fp2', 'Fp12': 'Fp4'}
Z = 'Z'
U = 'U'
OKPT = 'OKPT'     # result of a point-valued callee that is verified on its own


class Dom:
    """grade vectors: mods[i] = modulus (0: integers); strict[i]; wi = index of the tower-weight dimension"""

    def __init__(self, mods, strict, wi):
        self.mods, self.strict, self.wi, self.n = tuple(mods), tuple(strict), wi, len(mods)

    def red(self, i, v):
        return v if v == '*' or not self.mods[i] else v % self.mods[i]

    def vec(self, *v):
        return tuple(self.red(i, x) for i, x in enumerate(v))

    def add(self, a, b):
        return tuple('*' if (x == '*' or y == '*') else self.red(i, x + y) for i, (x, y) in enumerate(zip(a, b)))

    def scale(self, a, k):
        return tuple('*' if x == '*' else self.red(i, x * k) for i, x in enumerate(a))

    def shift(self, a, k):
        if self.wi is None:
            return a
        return tuple(self.red(i, x + k) if (i == self.wi and x != '*') else x for i, x in enumerate(a))

    def merge(self, a, b):
        """None if a strict dimension differs; else the vector with '*' where lenient dimensions differ"""
        out = []
        for i, (x, y) in enumerate(zip(a, b)):
            if x == y:
                out.append(x)
            elif x == '*' or y == '*':
                out.append('*')
            elif self.strict[i]:
                return None
            else:
                out.append('*')
        return tuple(out)

    def show(self, g):
        if g == Z:
            return 'zero'
        if g in (U, OKPT):
            return 'unknown'
        if is_T(g):
            return 'inhomogeneous'
        return '(' + ', '.join('mixed' if x == '*' else str(x) for x in g) + ')'


TOWER = Dom((0, 12), (True, False), 1)            # (degree, tower weight)
CURVE = Dom((0, 0, 12), (True, True, False), 2)  # (weight wrt operand 1, weight wrt operand 2, tower weight)


def strip_ref(ty):
    t = (ty or '').strip()
    while t.startswith('&'):
        t = t[1:].strip()
        if t.startswith('mut '):
            t = t[4:].strip()
    return t


PT_TYPES = {'p256_ecc::Point': 'Fp', 'points::Point': 'Fp', 'points::TwistPoint': 'Fp2'}


def shape_of_ty(ty):
    t = strip_ref(ty)
    if not t:
        return None
    if t == '[u64; 4]':
        return 'Fp'
    for k in ('Fp12', 'Fp4', 'Fp2'):
        if t.endswith('::' + k) or t == k:
            return k
    for k, c in PT_TYPES.items():
        if t == k or t.endswith('::' + k):
            return ('pt', c)
    if t.startswith('[') and '; ' in t:
        inner, n = t[1:-1].rsplit('; ', 1)
        lv = shape_of_ty(inner)
        if lv and n.isdigit():
            return ('arr', lv, int(n))
    return None


def is_T(x):
    return isinstance(x, tuple) and len(x) == 2 and x[0] == 'T'


def is_S(x):
    return isinstance(x, tuple) and len(x) == 4 and x[0] == 'S'


def is_P(x):
    return isinstance(x, tuple) and len(x) == 4 and x[0] == 'P'


class Grader:
    """Besides graded trees a value can be
       ('S', level, ((vn, g), ..), where)       a formal sum of homogeneous values of different grades, and
       ('P', level, {(vn, g), ..}, (g, ..))     the square of a two-term sum: the listed pure squares A^2, B^2 are still
                                               to be removed; the other grades (the cross term 2AB and whatever else
                                               was added or subtracted meanwhile) must agree in the end.
    (A + B)^2 - A^2 - B^2 = 2AB is the usual way to get a product from squarings.  A pure square is removed only by
    subtracting the value that IS the square of that very summand (value numbers, not grades), so the cancellation is
    exact."""

    def __init__(self, F, fn, dom, point_fns=()):
        self.F, self.fn, self.D = F, fn, dom
        self.point_fns = point_fns
        self.sq_of = {}          # value number of x^2 -> value number of x
        self.ret_sites = []      # ((block, idx), tree) of every full assignment to the return place
        self.eq_sites = []       # (block, grade a, grade b)

    def where(self, b):
        return G.where(self.fn, b)

    def collapse(self, t, dim):
        """the tree with component `dim` of every grade vector set to 0"""
        if isinstance(t, list):
            return [self.collapse(x, dim) for x in t]
        if isinstance(t, tuple) and len(t) == 2 and t[0] == 'g':
            v = list(t[1])
            if dim < len(v):
                v[dim] = 0
            return ('g', type(t[1])(v) if not isinstance(t[1], tuple) else tuple(v))
        if is_S(t):
            terms = []
            for vn, g in t[2]:
                v = list(g)
                if dim < len(v):
                    v[dim] = 0
                terms.append((vn, tuple(v) if isinstance(g, tuple) else type(g)(v)))
            if len({g for _, g in terms}) == 1:
                return ('g', terms[0][1])
            return ('S', t[1], tuple(terms), t[3])
        return t

    # ---- trees
    def mk(self, shape, vec):
        if shape == 'Fp':
            return ('g', vec)
        return [self.mk(CHILD[shape], self.D.shift(vec, -o)) for o in OFFS[shape]]

    def mkz(self, shape):
        if isinstance(shape, tuple):
            if shape[0] == 'arr':
                return [self.mkz(shape[1]) for _ in range(shape[2])]
            return [self.mkz(shape[1]) for _ in range(3)]
        if shape == 'Fp':
            return Z
        return [self.mkz(CHILD[shape]) for _ in OFFS[shape]]

    def mkone(self, shape):
        if shape == 'Fp':
            return ('g', self.D.vec(*([0] * self.D.n)))
        return [self.mkone(CHILD[shape])] + [self.mkz(CHILD[shape]) for _ in OFFS[shape][1:]]

    def grade(self, shape, t):
        """vector | Z | ('T', why) | U of a tree read as one element of a tower level"""
        if t in (U, OKPT) or t is None:
            return U
        if is_S(t):
            return ('T', 'terms of different grades %s are added/subtracted at %s and the result is used as an operand' % (sorted(self.D.show(g) for _, g in t[2]), t[3]))
        if is_P(t):
            if t[2]:
                return ('T', 'the square of a sum of terms of different grade is used before its pure squares (grades %s) were subtracted' % sorted(self.D.show(g) for _, g in t[2]))
            res = None
            for g in t[3]:
                m = g if res is None else self.D.merge(res, g)
                if m is None:
                    return ('T', 'after removing the pure squares the remaining terms have different grades %s' % sorted(self.D.show(x) for x in t[3]))
                res = m
            return res if res is not None else Z
        if shape == 'Fp':
            if isinstance(t, list):
                return U
            if t == Z or is_T(t):
                return t
            return t[1]
        if not isinstance(t, list) or len(t) != len(OFFS[shape]):
            return t if (t == Z or is_T(t)) else U
        res = Z
        for child, off in zip(t, OFFS[shape]):
            g = self.grade(CHILD[shape], child)
            if g == U or is_T(g):
                return g
            if g == Z:
                continue
            cand = self.D.shift(g, off)
            if res == Z:
                res = cand
            else:
                m = self.D.merge(res, cand)
                if m is None:
                    return ('T', 'components of one %s value carry different grades: %s vs %s' % (shape, self.D.show(res), self.D.show(cand)))
                res = m
        return res

    def from_grade(self, shape, g):
        if g == Z:
            return self.mkz(shape)
        if g == U or is_T(g):
            return g
        return self.mk(shape, g)

    def join(self, a, b):
        if a is None:
            return b
        if b is None:
            return a
        if isinstance(a, list) and isinstance(b, list) and len(a) == len(b):
            return [self.join(x, y) for x, y in zip(a, b)]
        if a == b:
            return a
        if is_T(a):
            return a
        if is_T(b):
            return b
        if a == Z:
            return b
        if b == Z:
            return a
        if a in (U, OKPT) or b in (U, OKPT) or isinstance(a, list) or isinstance(b, list):
            return U
        m = self.D.merge(a[1], b[1])
        if m is None:
            return ('T', 'a value is %s on one path and %s on another' % (self.D.show(a[1]), self.D.show(b[1])))
        return ('g', m)

    # ---- constants
    def const_tree(self, c, shape):
        from .facts import item_bytes
        it = c.get('item') or c.get('static')
        raw = None
        if it and it in self.F.items:
            raw = item_bytes(self.F.items[it])
        elif c.get('bytes'):
            try:
                raw = bytes.fromhex(c['bytes'])
            except Exception:
                raw = None
        if raw is None or shape is None:
            return U
        zero = self.D.vec(*([0] * self.D.n))

        def build(sh, off):
            if isinstance(sh, tuple):
                out = []
                for _ in range(sh[2] if sh[0] == 'arr' else 3):
                    t, off = build(sh[1], off)
                    out.append(t)
                return out, off
            if sh == 'Fp':
                chunk = raw[off:off + 32]
                if len(chunk) != 32:
                    raise ValueError
                return (Z if not any(chunk) else ('g', zero)), off + 32
            out = []
            for _ in OFFS[sh]:
                t, off = build(CHILD[sh], off)
                out.append(t)
            return out, off
        try:
            t, used = build(shape, 0)
        except Exception:
            return U
        return t if used == len(raw) else U

    # ---- value numbers
    def vn_place(self, st, pl):
        vn = st.get('#vn', {})
        projs = self._projs(st, pl)
        if projs and (pl['l'], projs) in vn:
            return vn[(pl['l'], projs)]
        base = vn.get(pl['l'], ('local', pl['l']))
        return base if not projs else ('proj', base, projs)

    def _projs(self, st, pl):
        out = []
        for p in pl['p']:
            if p == 'deref':
                continue
            if isinstance(p, dict) and 'f' in p:
                out.append(('f', p['f']))
            elif isinstance(p, dict) and 'cidx' in p:
                out.append(('i', p['cidx']))
            elif isinstance(p, dict) and 'idx' in p:
                c = st.get('#const', {}).get(p['idx'])
                out.append(('i', c) if c is not None else ('?', p['idx']))
            else:
                out.append(('?', repr(p)))
        return tuple(out)

    def vn_operand(self, st, op):
        if op['k'] in ('copy', 'move'):
            return self.vn_place(st, op['pl'])
        c = op.get('c', {})
        return ('const', c.get('item') or c.get('static') or c.get('bytes'))

    def set_vn(self, st, pl, v):
        vn = dict(st.get('#vn', {}))
        projs = self._projs(st, pl)
        if projs:
            vn[(pl['l'], projs)] = v
        else:
            vn[pl['l']] = v
            for k_ in [k_ for k_ in vn if isinstance(k_, tuple) and len(k_) == 2 and k_[0] == pl['l'] and isinstance(k_[1], tuple)]:
                del vn[k_]
        st['#vn'] = vn

    # ---- places
    def read(self, st, pl):
        t = st.get(pl['l'])
        for p in pl['p']:
            if p == 'deref':
                continue
            if t is None or t in (U, OKPT):
                return U
            if isinstance(p, dict) and ('f' in p or 'cidx' in p):
                i = p.get('f', p.get('cidx'))
                if isinstance(t, list) and i < len(t):
                    t = t[i]
                elif t == Z:
                    t = Z
                else:
                    return t if is_T(t) else U
            elif isinstance(p, dict) and 'idx' in p:
                ci = st.get('#const', {}).get(p['idx'])
                if isinstance(t, list) and ci is not None and ci < len(t):
                    t = t[ci]
                elif isinstance(t, list) and t:
                    acc = None
                    for x in t:
                        acc = self.join(acc, x)
                    t = acc
                else:
                    return U
            else:
                return U
        return U if t is None else t

    def write(self, st, pl, val):
        projs = [p for p in pl['p'] if p != 'deref']
        if not projs:
            st[pl['l']] = val
            return
        sh = shape_of_ty(self.fn.local_ty(pl['l']))
        base = st.get(pl['l'])
        if not isinstance(base, list):
            base = self.mkz(sh) if (sh and base in (None, Z)) else None
        if base is None:
            st[pl['l']] = U
            return

        def put(t, ps):
            p = ps[0]
            i = p.get('f', p.get('cidx')) if isinstance(p, dict) else None
            if i is None and isinstance(p, dict) and 'idx' in p:
                i = st.get('#const', {}).get(p['idx'])
            if i is None or not isinstance(t, list) or i >= len(t):
                return U
            t = list(t)
            t[i] = val if len(ps) == 1 else put(t[i] if isinstance(t[i], list) else [], ps[1:])
            return t
        st[pl['l']] = put(base, projs)

    def operand(self, st, op, hint=None):
        if op['k'] in ('copy', 'move'):
            return self.read(st, op['pl'])
        if op['k'] == 'const':
            c = op['c']
            return self.const_tree(c, shape_of_ty(c.get('ty')) or hint)
        return U

    def rvalue(self, st, rv, b, dest_ty):
        k = rv['k']
        if k == 'use':
            return self.operand(st, rv['op'], shape_of_ty(dest_ty))
        if k == 'ref':
            return self.read(st, rv['pl'])
        if k == 'aggr':
            if rv.get('akind') in ('adt', 'array', 'tuple'):
                return [self.operand(st, o) for o in rv['ops']]
            return U
        if k == 'repeat':
            sh = shape_of_ty(dest_ty)
            v = self.operand(st, rv['op'])
            return [v for _ in range(sh[2])] if isinstance(sh, tuple) and sh[0] == 'arr' else U
        if k == 'cast' and 'op' in rv:
            return self.operand(st, rv['op'])
        return U

    # ---- calls
    def call(self, st, t, b):
        c = t['fn']
        dest_ty = self.fn.local_ty(t['dest']['l']) if not t['dest']['p'] else None
        dsh = shape_of_ty(dest_ty)
        if c['k'] != 'def':
            return U
        name = c['name']
        ln = last(name)
        args = [self.operand(st, a) for a in t['args']]
        vns = [self.vn_operand(st, a) for a in t['args']]
        if ln in ('clone', 'deref', 'borrow', 'as_ref', 'from', 'into') and args:
            return args[0]
        D = self.D
        if isinstance(dsh, tuple) and dsh[0] == 'pt':
            if ln == 'zero':
                return self.mkz(dsh)
            if ln in self.point_fns:
                return OKPT
            if ln == 'to_affine_point':
                return [self.mk(dsh[1], D.vec(*([0] * D.n))) for _ in range(3)]     # (x, y, 1): no scaling freedom left
            return U
        lv = callee_level(name)
        if lv is None and ln in ('eq', 'ne', 'u256_cmp') and len(args) == 2:
            for a_ in t['args']:
                if a_['k'] in ('copy', 'move'):
                    pl_ = a_['pl']
                    ty_ = pl_['p'][-1].get('ty') if (pl_['p'] and isinstance(pl_['p'][-1], dict)) else self.fn.local_ty(pl_['l'])
                    sh_ = shape_of_ty(ty_)
                    if isinstance(sh_, str):
                        lv = sh_
        if ln == 'u256_cmp' and lv is not None and len(args) == 2:
            ln = 'eq'
        if lv is None:
            return U
        if ln == 'zero':
            return self.mkz(lv)
        if ln in ('one', 'mont_one'):
            return self.mkone(lv)
        if ln in ('eq', 'ne') and len(args) == 2:
            ga, gb = self.grade(lv, args[0]), self.grade(lv, args[1])
            if not (ga in (U, Z) or gb in (U, Z)):
                self.eq_sites.append((b, ga, gb))
            return U
        if ln == 'fp_sqr' and len(args) == 1:
            self.sq_of[('call', b)] = vns[0]
            if is_S(args[0]):
                terms = args[0][2]
                if len(terms) == 2:
                    (va, ga), (vb, gb) = terms
                    return ('P', args[0][1], frozenset([(va, D.scale(ga, 2)), (vb, D.scale(gb, 2))]), (D.add(ga, gb),))
        if ln in ('fp_neg', 'fp_double', 'fp_triple', 'fp_div2') and len(args) == 1 and (is_S(args[0]) or is_P(args[0])):
            # a scaled sum: its terms are no longer the very values whose squares could cancel
            v = args[0]
            if is_S(v):
                return ('S', v[1], tuple((None, g) for _, g in v[2]), v[3])
            return ('P', v[1], frozenset((None, g) for _, g in v[2]), v[3])
        if ln in SAME and len(args) == 2:
            def terms_of(v, vn):
                if is_S(v):
                    return list(v[2])
                if is_P(v):
                    return None
                g = self.grade(lv, v)
                if g == Z:
                    return []
                if g == U or is_T(g):
                    return g
                return [(vn, g)]
            pa, pb = is_P(args[0]), is_P(args[1])
            if pa != pb:
                pv = args[0] if pa else args[1]
                other = terms_of(args[1] if pa else args[0], vns[1] if pa else vns[0])
                if isinstance(other, list):
                    pures = set(pv[2])
                    extra = list(pv[3])
                    for vn_, g_ in other:
                        root = self.sq_of.get(vn_) if vn_ is not None else None
                        hit = [x for x in pures if ln == 'fp_sub' and root is not None and x[0] == root and D.merge(x[1], g_) is not None]
                        if hit:
                            pures.discard(hit[0])
                        else:
                            extra.append(g_)
                    if not pures:
                        gg = self.grade(lv, ('P', pv[1], frozenset(), tuple(extra)))
                        return gg if is_T(gg) else self.from_grade(lv, gg)
                    return ('P', pv[1], frozenset(pures), tuple(extra))
                return other
            if pa and pb:
                return ('T', 'two squares of mixed sums are combined at %s (not supported by the grading)' % self.where(b))
            ta, tb = terms_of(args[0], vns[0]), terms_of(args[1], vns[1])
            for tt in (ta, tb):
                if not isinstance(tt, list):
                    return self.from_grade(lv, tt) if not is_T(tt) else tt
            terms = ta + tb
            if not terms:
                return self.mkz(lv)
            res = terms[0][1]
            for _, g_ in terms[1:]:
                res = D.merge(res, g_) if res is not None else None
            if res is not None:
                return self.mk(lv, res)
            # kept as an explicit sum: legitimate only as the operand of a squaring whose pure squares are removed
            return ('S', lv, tuple(terms), self.where(b))
        if ln in OPS:
            nargs, f = OPS[ln]
            lvs = [lv, ARG2.get(ln, lv)]
            gs = [self.grade(lvs[i], a) for i, a in enumerate(args[:nargs])]
            for g in gs:
                if is_T(g) or g == U:
                    return g
            if any(g == Z for g in gs):
                return U if ln == 'fp_inv' else self.mkz(dsh if isinstance(dsh, str) else lv)
            out = f(D, *gs)
            return self.mk(dsh if isinstance(dsh, str) else lv, out)
        return U

    def run(self, init, cap=12):
        """path-sensitive up to `cap` alternative states per block (the formula functions are loop-free and small);
        beyond the cap the alternatives are joined"""
        fn = self.fn
        n = len(fn.blocks)
        IN = [[] for _ in range(n)]
        IN[0] = [dict(init)]
        done = [0] * n           # number of states of IN[b] already processed
        work = [0]
        rounds = 0
        ret_vals = []
        sites = []
        self.final_states = []

        def key(st):
            return repr(sorted((str(k), repr(v)) for k, v in st.items() if k != '#vn')) + repr(sorted((st.get('#vn') or {}).items(), key=repr))

        import time as _time
        while work and rounds < 400 * n + 200:
            rounds += 1
            if getattr(self, 'deadline', None) is not None and _time.time() > self.deadline:
                raise TimeoutError('dataflow budget exceeded')
            b = work.pop(0)
            states = IN[b][done[b]:]
            done[b] = len(IN[b])
            bl = fn.blocks[b]
            for st0 in states:
                st = dict(st0)
                if getattr(self, 'deadline', None) is not None and _time.time() > self.deadline:
                    raise TimeoutError('dataflow budget exceeded')
                for i, s in enumerate(bl['stmts']):
                    if s['k'] == 'assign':
                        lhs = s['lhs']
                        dty = fn.local_ty(lhs['l']) if not lhs['p'] else None
                        v = self.rvalue(st, s['rv'], b, dty)
                        self.write(st, lhs, v)
                        rv = s['rv']
                        if not lhs['p']:
                            cs = dict(st.get('#const', {}))
                            cv = None
                            if rv['k'] == 'use' and rv['op']['k'] == 'const' and rv['op']['c'].get('k') == 'int':
                                try:
                                    cv = int(rv['op']['c']['bits'])
                                except Exception:
                                    cv = None
                            elif rv['k'] == 'use' and rv['op']['k'] in ('copy', 'move') and not rv['op']['pl']['p']:
                                cv = cs.get(rv['op']['pl']['l'])
                            if cv is None and isinstance(v, str) and v.isdigit():
                                cv = int(v)       # a folded constant (ExprFlow): loop counters of constant-trip loops
                            if cv is not None:
                                cs[lhs['l']] = cv
                            else:
                                cs.pop(lhs['l'], None)
                            st['#const'] = cs
                        if rv['k'] == 'use' and rv['op']['k'] in ('copy', 'move'):
                            self.set_vn(st, lhs, self.vn_place(st, rv['op']['pl']))
                        elif rv['k'] == 'ref':
                            self.set_vn(st, lhs, self.vn_place(st, rv['pl']))
                        else:
                            self.set_vn(st, lhs, ('def', b, i))
                        if lhs['l'] == 0 and not lhs['p']:
                            sites.append(((b, i), v))
                t = bl['term']
                if t['k'] == 'call':
                    v = self.call(st, t, b)
                    self.write(st, t['dest'], v)
                    self.set_vn(st, t['dest'], ('call', b))
                    if t['dest']['l'] == 0 and not t['dest']['p']:
                        sites.append(((b, -1), v))
                if t['k'] == 'return':
                    ret_vals.append(st.get(0))
                    self.final_states.append(st)
                for s2 in fn.succ(b):
                    st_out = st
                    if (b, s2) in getattr(self, 'fixed_edges', {}):
                        # on this edge a coordinate Z of an operand equals a constant: the operand is affine there and
                        # has no scaling freedom left, so all its coordinates have weight 0
                        st_out = dict(st)
                        for pi, tree in self.fixed_edges[(b, s2)]:
                            st_out[pi] = tree
                            # values computed from that operand BEFORE the test (x^3 hoisted above `if z == 1`) lose the
                            # same scaling dimension: their weight in it no longer matters on this edge
                            dim = getattr(self, 'point_dim', {}).get(pi)
                            if dim is not None:
                                for l_, t_ in list(st_out.items()):
                                    if l_ != pi:
                                        st_out[l_] = self.collapse(t_, dim)
                    if getattr(self, 'refine_edge', None) is not None:
                        st_out = self.refine_edge(b, s2, st_out)
                        if st_out is None:
                            continue          # the edge contradicts a constant the path has established
                    k_ = key(st_out)
                    if any(key(x) == k_ for x in IN[s2]):
                        continue
                    if len(IN[s2]) < cap:
                        IN[s2].append(dict(st_out))
                    else:
                        # join into the last alternative
                        self.joined = True
                        if getattr(self, 'abort_on_join', False):
                            raise TimeoutError('too many paths')
                        old = IN[s2][-1]
                        new = dict(old)
                        for kk in set(old) | set(st_out):
                            if kk in ('#vn', '#const'):
                                a_, b_ = old.get(kk, {}), st_out.get(kk, {})
                                new[kk] = {l_: a_[l_] for l_ in a_ if l_ in b_ and a_[l_] == b_[l_]}
                            else:
                                new[kk] = self.join(old.get(kk), st_out.get(kk))
                        if key(new) == key(old):
                            continue
                        IN[s2][-1] = new
                        done[s2] = min(done[s2], len(IN[s2]) - 1)
                    if s2 not in work:
                        work.append(s2)
        seen = set()
        self.ret_sites = []
        for k_, v in sites:
            r = (k_, repr(v))
            if r not in seen:
                seen.add(r)
                self.ret_sites.append((k_, v))
        self.eq_sites = list({repr(x): x for x in self.eq_sites}.values())
        self.ret_vals = ret_vals
        out = None
        for v in ret_vals:
            out = self.join(out, v)
        return out


# operation -> (number of graded operands, out-grade)
OPS = {
    'fp_mul': (2, lambda D, a, b: D.add(a, b)),
    'fp_sqr': (1, lambda D, a: D.scale(a, 2)),
    'fp_inv': (1, lambda D, a: D.scale(a, -1)),
    'fp_neg': (1, lambda D, a: a), 'fp_double': (1, lambda D, a: a), 'fp_triple': (1, lambda D, a: a), 'fp_div2': (1, lambda D, a: a),
    'conjugate': (1, lambda D, a: a),
    'div': (2, lambda D, a, b: D.add(a, D.scale(b, -1))),
    'fp_mul_fp': (2, lambda D, a, b: D.add(a, b)), 'fp_mul_fp2': (2, lambda D, a, b: D.add(a, b)),
    'a_mul_u': (1, lambda D, a: D.shift(a, 6)), 'fp_mul_u': (2, lambda D, a, b: D.shift(D.add(a, b), 6)), 'sqr_u': (1, lambda D, a: D.shift(D.scale(a, 2), 6)),
    'a_mul_v': (1, lambda D, a: D.shift(a, 3)), 'fp_mul_v': (2, lambda D, a, b: D.shift(D.add(a, b), 3)), 'sqr_v': (1, lambda D, a: D.shift(D.scale(a, 2), 3)),
}
SAME = ('fp_add', 'fp_sub')
ARG2 = {'fp_mul_fp': 'Fp', 'fp_mul_fp2': 'Fp2'}     # level of the second operand where it differs from the receiver's


def callee_level(name):
    if 'for [u64; 4]>' in name or '<impl [u64; 4]>' in name:
        return 'Fp'
    for k in ('Fp12', 'Fp4', 'Fp2'):
        if ('::%s>' % k) in name:
            return k
    return None


def expected(ln):
    a = TOWER.vec(1, 0)
    if ln in SAME:
        return a
    if ln not in OPS:
        return None
    n, f = OPS[ln]
    return f(TOWER, *([a] * n))


TOWER_FNS = ['fp_mul', 'fp_sqr', 'fp_inv', 'fp_add', 'fp_sub', 'fp_neg', 'fp_double', 'fp_triple', 'fp_div2', 'conjugate', 'div',
             'fp_mul_fp', 'fp_mul_fp2', 'a_mul_u', 'fp_mul_u', 'sqr_u', 'a_mul_v', 'fp_mul_v', 'sqr_v']
# Frobenius maps are Fp-linear and multiply coordinate (i,j,k) by a scalar: the grade of the operand is kept
FROB = ['fp12_frobenius', 'fp12_frobenius2', 'fp12_frobenius3', 'fp12_frobenius6']


def a_grade(cx, rule, floor, levels=('Fp2', 'Fp4', 'Fp12')):
    F = cx.F
    D = TOWER
    n = full = 0
    for name, fn in sorted(F.fns.items()):
        if not name.startswith('gm_sm9::fields::fp'):
            continue
        lv = callee_level(name)
        ln = last(name)
        if lv in (None, 'Fp') or lv not in levels:
            continue
        if ln in TOWER_FNS:
            want = expected(ln)
        elif ln in FROB:
            want = D.vec(1, 0)
        elif ln == 'fp_line_mul':
            want = D.vec(2, 0)
        else:
            continue
        g = Grader(F, fn, D)
        init = {}
        for i in range(1, fn.arg_count + 1):
            sh = shape_of_ty(fn.local_ty(i))
            init[i] = g.mk(sh, D.vec(1, 0)) if isinstance(sh, str) else U
            if ln == 'fp_line_mul' and sh == ('arr', 'Fp2', 3):
                # the sparse line is  lw[0] + lw[1]*w^2 + lw[2]*v : as coefficients of a weight-0 element of Fp12 the three
                # Fp2 values carry the tower weights 0, -2, -3
                init[i] = [g.mk('Fp2', D.vec(1, 0)), g.mk('Fp2', D.vec(1, -2)), g.mk('Fp2', D.vec(1, -3))]
        out = g.run(init)
        got = g.grade(lv, out)
        n += 1
        inst = '%s::%s' % (lv, ln)
        if got == Z:
            cx.violate(rule, inst, '%s::%s returns zero on every path' % (lv, ln), fn.loc())
        elif got == U:
            cx.lost(rule, inst, 'the result of %s::%s could not be graded (an operand is not a tracked field value)' % (lv, ln), fn.loc())
        elif is_T(got):
            cx.violate(rule, inst, '%s::%s is not homogeneous: %s' % (lv, ln, got[1]), fn.loc())
        else:
            ok = all(x == y or x == '*' for x, y in zip(got, want))
            cx.add(rule, inst, ok, '%s::%s: every coordinate of the result is homogeneous of (degree, weight) = %s in the operand coordinates (expected %s%s)'
                   % (lv, ln, D.show(got), D.show(want), '; weight not tracked through the Karatsuba sums, degree decided' if '*' in got else ''), fn.loc())
            full += '*' not in got
    cx.floor(rule, 'functions', n, floor, 'extension-field formula functions graded')
    cx.stat('a_grade_functions', n)
    cx.stat('a_grade_weight_decided', full)


# ---------------------------------------------------------------------------------------------------------------------
# curve formulas

POINT_FNS = {
    'sm2': [('gm_sm2::p256_ecc::<impl p256_ecc::Point>::', ['point_add', 'point_dbl', 'to_affine_point', 'is_valid'])],
    'sm9': [('gm_sm9::points::<impl points::Point>::', ['point_add', 'point_double', 'point_neg', 'point_sub', 'to_affine_point', 'is_on_curve']),
            ('gm_sm9::points::<impl points::TwistPoint>::', ['point_add', 'point_double', 'point_neg', 'point_sub', 'is_on_curve']),
            ('gm_sm9::points::', ['twist_point_add_full'])],
}
ALL_POINT_FN_NAMES = ('point_add', 'point_dbl', 'point_double', 'point_neg', 'point_sub', 'twist_point_add_full', 'point_double_x5')


def z_fixed_edges(F, fn, g, init):
    """edges on which `operand.z == constant` holds (u256_cmp(&p.z, &C) == 0, p.z == C, p.z.eq(&one()))"""
    from .prov import Prov, norm, strip
    P = Prov(fn, F)
    out = {}

    def z_of_param(e):
        e = strip(e)
        while e.k in ('deref', 'ref') and e.args:
            e = strip(e.args[0])
        if e.k == 'field' and e.name == 'z' and e.args:
            b_ = strip(e.args[0])
            while b_.k in ('deref', 'ref') and b_.args:
                b_ = strip(b_.args[0])
            if b_.k == 'param':
                return fn.arg_local(b_.name)
        return None

    def is_const(e):
        e = strip(e)
        while e.k in ('deref', 'ref') and e.args:
            e = strip(e.args[0])
        return e.k == 'const' or (e.k == 'call' and last(e.name) in ('one', 'mont_one') and not e.args)

    for b, p, te, fe in G.bool_switches(fn, P):
        if len(p.args) != 2:
            continue
        if p.kind == 'cmp' and p.op in ('Eq', 'Ne'):
            eq_true = (p.op == 'Eq')
        elif p.kind == 'eq':
            eq_true = True
        else:
            continue
        if p.neg:
            eq_true = not eq_true
        for x, y in ((p.args[0], p.args[1]), (p.args[1], p.args[0])):
            pi = z_of_param(x)
            if pi is None or not is_const(y) or not isinstance(init.get(pi), list):
                continue
            sh = shape_of_ty(fn.local_ty(pi))
            aff = [g.mk(sh[1], g.D.vec(*([0] * g.D.n))) for _ in range(3)]
            for e in (te if eq_true else fe):
                out.setdefault(e, []).append((pi, aff))
    return out


def a_curve(cx, rule, which, floor):
    """weighted-projective homogeneity of the Jacobian formulas"""
    F = cx.F
    D = CURVE
    n = 0
    for prefix, names in POINT_FNS[which]:
        for ln in names:
            fn = F.fns.get(prefix + ln)
            if fn is None:
                continue
            g = Grader(F, fn, D, point_fns=ALL_POINT_FN_NAMES)
            init = {}
            npt = 0
            for i in range(1, fn.arg_count + 1):
                sh = shape_of_ty(fn.local_ty(i))
                if isinstance(sh, tuple) and sh[0] == 'pt' and npt < 2:
                    vecs = []
                    for wgt in (2, 3, 1):
                        v = [0, 0, 0]
                        v[npt] = wgt
                        vecs.append(g.mk(sh[1], D.vec(*v)))
                    init[i] = vecs
                    npt += 1
                else:
                    init[i] = U
            if npt == 0:
                continue
            g.fixed_edges = z_fixed_edges(F, fn, g, init)
            g.point_dim = {}
            k_pt = 0
            for i_ in range(1, fn.arg_count + 1):
                if isinstance(init.get(i_), list):
                    g.point_dim[i_] = k_pt
                    k_pt += 1
            g.run(init)
            n += 1
            inst = fn.short
            bad = []
            checked = 0
            rsh = shape_of_ty(fn.local_ty(0))
            if isinstance(rsh, tuple) and rsh[0] == 'pt':
                csh = rsh[1]
                for (b, i), tree in g.ret_sites:
                    if is_T(tree):
                        bad.append((b, tree[1]))
                        continue
                    if tree == OKPT:
                        checked += 1      # the value of a point function that is graded on its own
                        continue
                    if not isinstance(tree, list) or len(tree) != 3:
                        continue
                    gx, gy, gz = [g.grade(csh, x) for x in tree]
                    for nm, gg in (('X', gx), ('Y', gy), ('Z', gz)):
                        if is_T(gg):
                            bad.append((b, 'coordinate %s: %s' % (nm, gg[1])))
                    if any(is_T(x) for x in (gx, gy, gz)):
                        continue
                    if all(x in (Z, U) for x in (gx, gy, gz)):
                        continue
                    checked += 1
                    for d in (0, 1):
                        def val(gg):
                            return None if gg in (Z, U) or gg[d] == '*' else gg[d]
                        x_, y_, z_ = val(gx), val(gy), val(gz)
                        if z_ is not None:
                            if x_ is not None and x_ != 2 * z_:
                                bad.append((b, 'X has weight %d but Z has weight %d with respect to operand %d (X must scale as Z^2)' % (x_, z_, d + 1)))
                            if y_ is not None and y_ != 3 * z_:
                                bad.append((b, 'Y has weight %d but Z has weight %d with respect to operand %d (Y must scale as Z^3)' % (y_, z_, d + 1)))
                        elif x_ is not None and y_ is not None and 3 * x_ != 2 * y_:
                            bad.append((b, 'X has weight %d and Y has weight %d with respect to operand %d (they must be 2m and 3m)' % (x_, y_, d + 1)))
            for (b, ga, gb) in g.eq_sites:
                if is_T(ga) or is_T(gb):
                    bad.append((b, (ga if is_T(ga) else gb)[1]))
                    continue
                sa = {d for d in (0, 1) if ga[d] != 0}
                sb = {d for d in (0, 1) if gb[d] != 0}
                if not sa or not sb or not (sa & sb):
                    # a comparison with a constant, or of a raw coordinate of one operand with a raw coordinate of the
                    # other ("identical representation" shortcut), is not a projective comparison
                    continue
                checked += 1
                if any(x != y and x != '*' and y != '*' for x, y in zip(ga[:2], gb[:2])):
                    bad.append((b, 'the two sides of the comparison have weights %s and %s' % (D.show(ga), D.show(gb))))
            if bad:
                cx.violate(rule, inst, '%s is not weighted-homogeneous in Jacobian coordinates: %s' % (fn.short, bad[0][1]), G.where(fn, bad[0][0]), {'all': [x[1] for x in bad]})
            elif checked == 0:
                cx.lost(rule, inst, 'no result or comparison of %s could be graded' % fn.short, fn.loc())
            else:
                cx.hold(rule, inst, '%s: %d result/comparison site(s) are weighted-homogeneous: (X, Y, Z) scale as (m^2, m^3, m); both sides of comparisons have equal weight' % (fn.short, checked), fn.loc())
    cx.floor(rule, 'curve-functions', n, floor, 'Jacobian formula functions graded')


# ---------------------------------------------------------------------------------------------------------------------
# pairing line functions: each returns the new Jacobian point T and writes the three Fp2 coefficients of the line through
# lw.  The point must again scale as (m^2, m^3, m); the three coefficients may be multiplied by a common factor of the
# subfield (the final exponentiation removes it), so they must all have the SAME weight with respect to each operand.

def point_tree_defects(g, csh, tree):
    D = g.D
    out = []
    if is_T(tree):
        return [tree[1]], False
    if tree == OKPT:
        return [], True
    if not isinstance(tree, list) or len(tree) != 3:
        return [], False
    gx, gy, gz = [g.grade(csh, x) for x in tree]
    for nm, gg in (('X', gx), ('Y', gy), ('Z', gz)):
        if is_T(gg):
            out.append('coordinate %s: %s' % (nm, gg[1]))
    if out:
        return out, True
    if all(x in (Z, U) for x in (gx, gy, gz)):
        return [], False
    for d in (0, 1):
        def val(gg):
            return None if gg in (Z, U) or gg[d] == '*' else gg[d]
        x_, y_, z_ = val(gx), val(gy), val(gz)
        if z_ is not None:
            if x_ is not None and x_ != 2 * z_:
                out.append('X has weight %d but Z has weight %d with respect to operand %d (X must scale as Z^2)' % (x_, z_, d + 1))
            if y_ is not None and y_ != 3 * z_:
                out.append('Y has weight %d but Z has weight %d with respect to operand %d (Y must scale as Z^3)' % (y_, z_, d + 1))
        elif x_ is not None and y_ is not None and 3 * x_ != 2 * y_:
            out.append('X has weight %d and Y has weight %d with respect to operand %d (they must be 2m and 3m)' % (x_, y_, d + 1))
    return out, True


LINE_FNS = ['gm_sm9::points::sm9_u256_eval_g_line_no_pre', 'gm_sm9::points::sm9_u256_eval_g_line', 'gm_sm9::points::sm9_u256_eval_g_tangent']


def a_lines(cx, rule):
    F = cx.F
    D = CURVE
    pre_grades = None     # grades of pre[0..5] with respect to the second twist operand, taken from the function that computes them itself
    n = 0
    for name in LINE_FNS:
        fn = cx.fn(name, rule)
        if fn is None:
            continue
        g = Grader(F, fn, D, point_fns=ALL_POINT_FN_NAMES)
        init = {}
        npt = 0
        lw_l = pre_l = None
        for i in range(1, fn.arg_count + 1):
            sh = shape_of_ty(fn.local_ty(i))
            nm = fn.local_name(i)
            if isinstance(sh, tuple) and sh[0] == 'pt' and sh[1] == 'Fp2' and npt < 2:
                vecs = []
                for wgt in (2, 3, 1):
                    v = [0, 0, 0]
                    v[npt] = wgt
                    vecs.append(g.mk('Fp2', D.vec(*v)))
                init[i] = vecs
                npt += 1
            elif isinstance(sh, tuple) and sh[0] == 'pt':
                init[i] = [g.mk(sh[1], D.vec(0, 0, 0)) for _ in range(3)]      # the affine G1 argument: no scaling freedom
            elif isinstance(sh, tuple) and sh[0] == 'arr' and nm == 'lw':
                init[i] = g.mkz(sh)
                lw_l = i
            elif isinstance(sh, tuple) and sh[0] == 'arr' and nm == 'pre':
                pre_l = i
                init[i] = [g.mk('Fp2', x) if x not in (Z, U) else x for x in pre_grades] if pre_grades else U
            else:
                init[i] = U
        g.fixed_edges = {}
        if pre_l is not None:
            # contract of the precomputed array: pre[0] is the square of the y coordinate of the second twist operand
            # (checked at the producer below)
            tw = [i for i in range(1, fn.arg_count + 1) if isinstance(shape_of_ty(fn.local_ty(i)), tuple) and shape_of_ty(fn.local_ty(i)) == ('pt', 'Fp2')]
            if len(tw) == 2:
                g.sq_of[('proj', ('local', pre_l), (('i', 0),))] = ('proj', ('local', tw[1]), (('f', 1),))
        g.run(init)
        n += 1
        bad = []
        checked = 0
        for (b, i), tree in g.ret_sites:
            d_, ok = point_tree_defects(g, 'Fp2', tree)
            bad += [(b, x) for x in d_]
            checked += ok
        # the coefficients written through lw
        lws = []
        for st in g.final_states:
            t = st.get(lw_l)
            if isinstance(t, list) and len(t) == 3:
                gs = [g.grade('Fp2', x) for x in t]
                lws.append(gs)
        for gs in lws:
            for k_, gg in enumerate(gs):
                if is_T(gg):
                    bad.append((0, 'lw[%d]: %s' % (k_, gg[1])))
            known = [gg for gg in gs if not (gg in (Z, U) or is_T(gg))]
            if len(known) == 3:
                checked += 1
                for d in (0, 1):
                    vals = {gg[d] for gg in known if gg[d] != '*'}
                    if len(vals) > 1:
                        bad.append((0, 'the three line coefficients have different weights %s with respect to operand %d (they may only share a common factor)' % (sorted(vals), d + 1)))
        # the precomputed array of the no_pre variant defines what eval_g_line may assume about `pre`
        if name.endswith('no_pre'):
            ls = [i for i, l in enumerate(fn.locals) if l.get('name') == 'pre']
            if ls and g.final_states:
                t = g.final_states[0].get(ls[0])
                if isinstance(t, list) and len(t) == 5:
                    pre_grades = [g.grade('Fp2', x) for x in t]
        deleg = name.endswith('no_pre') and any(t_['fn']['k'] == 'def' and t_['fn']['name'] == 'gm_sm9::points::sm9_u256_eval_g_line' and (b_, -1) in set(G.ret_def_sites(fn)) for b_, t_ in fn.calls())
        if bad:
            cx.violate(rule, fn.short, '%s is not weighted-homogeneous: %s' % (fn.short, bad[0][1]), G.where(fn, bad[0][0]) if bad[0][0] else fn.loc(), {'all': [x[1] for x in bad][:8]})
        elif deleg:
            cx.hold(rule, fn.short, '%s computes `pre` and delegates to sm9_u256_eval_g_line (graded on its own; the grades of `pre` are taken from here)' % fn.short, fn.loc())
        elif checked < 2:
            cx.lost(rule, fn.short, 'the point and the line coefficients of %s could not both be graded' % fn.short, fn.loc())
        else:
            cx.hold(rule, fn.short, '%s: the returned point scales as (m^2, m^3, m) and the three line coefficients share one weight with respect to each twist operand' % fn.short, fn.loc())
    # the producer of `pre` in the Miller loop must give it the grades the line function was graded with
    pf = cx.fn('gm_sm9::points::sm9_u256_pairing', rule)
    if pf is not None and pre_grades:
        g = Grader(F, pf, D, point_fns=ALL_POINT_FN_NAMES + ('sm9_u256_eval_g_line_no_pre', 'sm9_u256_eval_g_line', 'sm9_u256_eval_g_tangent', 'point_pi1', 'point_neg_pi2'))
        init = {}
        for i in range(1, pf.arg_count + 1):
            sh = shape_of_ty(pf.local_ty(i))
            if isinstance(sh, tuple) and sh[0] == 'pt' and sh[1] == 'Fp2':
                init[i] = [g.mk('Fp2', D.vec(0, w, 0)) for w in (2, 3, 1)]     # Q plays the role of the second operand of the line function
            else:
                init[i] = U
        g.point_affine = True
        g.run(init, cap=4)
        ls = [i for i, l in enumerate(pf.locals) if l.get('name') == 'pre']
        got = None
        for st in g.final_states:
            t = st.get(ls[0]) if ls else None
            if isinstance(t, list) and len(t) == 5:
                got = [g.grade('Fp2', x) for x in t]
        def dim1(v):
            return [None if (x in (Z, U) or is_T(x)) else x[1] for x in v]
        sq_ok = False
        for st in g.final_states:
            v0 = (st.get('#vn') or {}).get((ls[0], (('i', 0),))) if ls else None
            sq_ok = sq_ok or (v0 is not None and g.sq_of.get(v0) == ('proj', ('local', 1), (('f', 1),)))
        cx.add(rule, 'pairing/pre0', sq_ok, 'pre[0] handed to the chord-line function is the square of Q.y (the line function cancels it against (y + z)^2)', pf.loc())
        ok = got is not None and dim1(got) == dim1(pre_grades) and None not in dim1(got)
        cx.add(rule, 'pairing/pre', ok, 'the Miller loop precomputes pre[0..5] with weights %s in the coordinates of Q; the chord-line function is graded with %s' % (dim1(got) if got else None, dim1(pre_grades)), pf.loc())
        n += 1
    cx.floor(rule, 'line-functions', n, 4, 'pairing line functions graded')


# ---------------------------------------------------------------------------------------------------------------------
# ExprFlow: field-sensitive composition of straight-line code.  The same forward dataflow as the grader, but the
# leaves are canonical expression texts: `r.c1 = a.c1.conjugate(); r.c1 = r.c1.fp_mul_fp(&K);` and
# `Fp4 { c0: .., c1: a.c1.conjugate().fp_mul_fp(&K) }` both give  c1 = fp_mul_fp(conjugate($self.c1), K).
# Statement order, temporaries, zero-initialised builders and chained calls do not matter; what each coordinate of the
# result IS does.

class ExprFlow(Grader):
    def __init__(self, F, fn, commut=()):
        Grader.__init__(self, F, fn, TOWER)
        self.commut = set(commut)

    def nfields(self, ty):
        sh = shape_of_ty(ty)
        if sh in ('Fp2', 'Fp4'):
            return ['c0', 'c1']
        if sh == 'Fp12':
            return ['c0', 'c1', 'c2']
        if isinstance(sh, tuple) and sh[0] == 'pt':
            return ['x', 'y', 'z']
        if isinstance(sh, tuple) and sh[0] == 'arr':
            return [str(i) for i in range(sh[2])]
        return None

    def show(self, v):
        if isinstance(v, list):
            return '{' + ', '.join(self.show(x) for x in v) + '}'
        return str(v)

    def join(self, a, b):
        if a is None:
            return b
        if b is None:
            return a
        if a == b:
            return a
        if isinstance(a, list) and isinstance(b, list) and len(a) == len(b):
            return [self.join(x, y) for x, y in zip(a, b)]
        return 'phi(%s)' % ' | '.join(sorted({self.show(a), self.show(b)}))

    def const_tree(self, c, shape):
        it = c.get('item') or c.get('static')
        if it:
            return last(it)
        if 'promoted' in c and c['promoted'] < len(self.fn.promoted):
            # `&CONST` is a reference to a promoted temporary that holds the constant
            for bl in self.fn.promoted[c['promoted']]['blocks']:
                for st in bl['stmts']:
                    rv = st.get('rv') or {}
                    op = rv.get('op') if rv.get('k') == 'use' else None
                    if op and op.get('k') == 'const':
                        cc = op['c']
                        if cc.get('item') or cc.get('static'):
                            return last(cc.get('item') or cc.get('static'))
                        if cc.get('bytes'):
                            return 'bytes:' + cc['bytes']
        if c.get('k') == 'int':
            return str(c.get('bits'))
        if c.get('bytes'):
            return 'bytes:' + c['bytes']
        return 'const'

    def read(self, st, pl):
        t = st.get(pl['l'])
        if t is None:
            t = '?' + self.fn.local_name(pl['l'])
        if isinstance(t, tuple) and t and t[0] in ('REF', 'VIEW') and pl['p'] and pl['p'][0] == 'deref':
            under = st.get(t[1])
            t = (under[t[2]:t[3]] if isinstance(under, list) else under) if t[0] == 'VIEW' else under
        for p in pl['p']:
            if p == 'deref':
                continue
            nm = None
            i = None
            if isinstance(p, dict) and 'f' in p:
                i, nm = p['f'], p.get('name', str(p['f']))
            elif isinstance(p, dict) and 'cidx' in p:
                i, nm = p['cidx'], str(p['cidx'])
            elif isinstance(p, dict) and 'idx' in p:
                ci = st.get('#const', {}).get(p['idx'])
                if ci is None:
                    return '%s[?]' % self.show(t)
                i, nm = ci, str(ci)
            else:
                return '%s.?' % self.show(t)
            if isinstance(t, list) and i < len(t):
                t = t[i]
            else:
                t = '%s.%s' % (self.show(t), nm)
        return t

    def write(self, st, pl, val):
        projs = [p for p in pl['p'] if p != 'deref']
        if not projs:
            st[pl['l']] = val
            return
        base = st.get(pl['l'])

        def explode(v, ty):
            names = self.nfields(ty)
            if isinstance(v, list) or names is None:
                return v
            return ['%s.%s' % (v, n_) for n_ in names] if v is not None else [None] * len(names)

        def put(t, ps, ty):
            p = ps[0]
            i = p.get('f', p.get('cidx')) if isinstance(p, dict) else None
            if i is None and isinstance(p, dict) and 'idx' in p:
                i = st.get('#const', {}).get(p['idx'])
            t = explode(t, ty)
            if i is None or not isinstance(t, list) or i >= len(t):
                return '?'
            t = list(t)
            sub_ty = p.get('ty') if isinstance(p, dict) else None
            t[i] = val if len(ps) == 1 else put(t[i], ps[1:], sub_ty)
            return t
        st[pl['l']] = put(base, projs, self.fn.local_ty(pl['l']))

    def operand(self, st, op, hint=None):
        if op['k'] in ('copy', 'move'):
            return self.read(st, op['pl'])
        if op['k'] == 'const':
            return self.const_tree(op['c'], None)
        return '?'

    def rvalue(self, st, rv, b, dest_ty):
        k = rv['k']
        if k == 'use':
            return self.operand(st, rv['op'])
        if k == 'ref':
            r_ = self.ref_of(st, rv)
            if r_ is not None:
                return r_
            return self.read(st, rv['pl'])
        if k == 'aggr' and rv.get('akind') in ('adt', 'array', 'tuple'):
            return [self.operand(st, o) for o in rv['ops']]
        if k == 'repeat':
            import re as _re
            v = self.operand(st, rv['op'])
            m_ = _re.match(r'^\[.*; (\d+)\]$', (dest_ty or '').strip())
            if m_ and int(m_.group(1)) <= 64:
                return [v for _ in range(int(m_.group(1)))]
            return 'repeat(%s)' % self.show(v)
        if k == 'cast' and 'op' in rv:
            v = self.operand(st, rv['op'])
            if (rv.get('kind') or '').startswith('IntToInt') and rv.get('ty') != rv.get('from_ty'):
                return '(%s as %s)' % (self.show(v), rv.get('ty'))
            return v
        if k == 'binop':
            a_, b_ = self.show(self.operand(st, rv['a'])), self.show(self.operand(st, rv['b']))
            op_ = rv['op']
            if a_.isdigit() and b_.isdigit() and getattr(self, 'fold_consts', False):
                x, y = int(a_), int(b_)
                base = op_.replace('WithOverflow', '')
                val = {'Add': x + y, 'Sub': x - y, 'Mul': x * y}.get(base)
                if val is not None and 0 <= val < 1 << 64:
                    return [str(val), '0'] if op_.endswith('WithOverflow') else str(val)
                cmp_ = {'Lt': x < y, 'Le': x <= y, 'Gt': x > y, 'Ge': x >= y, 'Eq': x == y, 'Ne': x != y}.get(base)
                if cmp_ is not None:
                    return '1' if cmp_ else '0'
            return '%s(%s, %s)' % (op_.replace('WithOverflow', ''), a_, b_)
        if k == 'unop' and 'op' in rv and isinstance(rv.get('a') or rv.get('operand') or rv.get('arg'), dict):
            v_ = self.show(self.operand(st, rv.get('a') or rv.get('operand') or rv.get('arg')))
            if rv['op'] == 'Not' and v_ in ('0', '1') and getattr(self, 'fold_consts', False):
                return '1' if v_ == '0' else '0'
            return '%s(%s)' % (rv['op'], v_)
        return '?'

    # a mutable borrow of a whole local keeps its identity, so that slice views and in-place copies can be modelled
    def ref_of(self, st, rv):
        pl = rv['pl']
        projs = [p for p in pl['p'] if p != 'deref']
        if rv.get('mut') and not projs:
            cur = st.get(pl['l'])
            if pl['p'] == ['deref'] and isinstance(cur, tuple) and cur and cur[0] in ('REF', 'VIEW'):
                return cur                      # reborrow
            if not pl['p']:
                return ('REF', pl['l'])
        return None

    def call(self, st, t, b):
        c = t['fn']
        if c['k'] != 'def':
            return '?'
        ln = last(c['name'])
        args = [self.operand(st, a) for a in t['args']]
        r_ = self.mutation(st, ln, args, t)
        if r_ is not None:
            return r_
        args = [(st.get(a[1]) if isinstance(a, tuple) and a and a[0] == 'REF' else a) for a in args]
        self.call_log = getattr(self, 'call_log', [])
        self.call_log.append((b, c['name'], args))      # argument VALUES at every call (for rules about what is handed over)
        if ln in ('clone', 'deref', 'borrow', 'as_ref', 'from', 'into') and args:
            return args[0]
        if ln == 'zero' and not args:
            return 'zero()'
        sa = [self.show(a) for a in args]
        if ln in self.commut:
            sa = sorted(sa)
        return '%s(%s)' % (ln, ', '.join(sa))

    def const_range(self, v):
        """(start, end) of a Range / RangeTo / RangeFrom aggregate value with constant bounds (end None = open)"""
        if isinstance(v, list) and all(isinstance(x, str) and x.isdigit() for x in v):
            if len(v) == 2:
                return int(v[0]), int(v[1])
            if len(v) == 1:
                return int(v[0]), None
        return None

    def mutation(self, st, ln, args, t):
        """in-place updates of byte arrays through &mut borrows: x[a..b] views, copy_from_slice, copy_within, fill"""
        if not args or not (isinstance(args[0], tuple) and args[0] and args[0][0] in ('REF', 'VIEW')):
            return None
        tgt = args[0]
        l = tgt[1]
        arr = st.get(l)
        if not isinstance(arr, list):
            return None
        lo, hi = (tgt[2], tgt[3]) if tgt[0] == 'VIEW' else (0, len(arr))
        if ln in ('index_mut', 'index') and len(args) == 2:
            kind = None
            a1 = t['args'][1]
            ty1 = self.fn.local_ty(a1['pl']['l']) if a1['k'] in ('copy', 'move') else (a1.get('c') or {}).get('ty', '')
            r = self.const_range(args[1])
            if r is None:
                return None
            if 'RangeTo<' in ty1:
                a_, b_ = 0, r[0]
            elif 'RangeFrom<' in ty1:
                a_, b_ = r[0], hi - lo
            elif 'RangeFull' in ty1:
                a_, b_ = 0, hi - lo
            else:
                a_, b_ = r[0], (r[1] if r[1] is not None else hi - lo)
            return ('VIEW', l, lo + a_, lo + b_)
        if ln in ('copy_from_slice', 'clone_from_slice') and len(args) == 2:
            src = args[1]
            n = hi - lo
            if isinstance(src, tuple) and src and src[0] in ('REF', 'VIEW'):
                sa = st.get(src[1])
                src = sa[src[2]:src[3]] if src[0] == 'VIEW' and isinstance(sa, list) else sa
            if isinstance(src, list) and len(src) == n:
                vals = list(src)
            elif isinstance(src, str) and src.startswith('to_be_bytes(') and src.endswith(')') and n in (2, 4, 8, 16):
                x = src[len('to_be_bytes('):-1]
                vals = ['(Shr(%s, %d) as u8)' % (x, 8 * (n - 1 - k)) if k < n - 1 else '(%s as u8)' % x for k in range(n)]
            else:
                vals = ['%s[%d]' % (self.show(src), k) for k in range(n)]
            new = list(arr)
            new[lo:hi] = vals
            st[l] = new
            return '()'
        if ln == 'copy_within' and len(args) == 3:
            r = self.const_range(args[1])
            d = args[2]
            if r is None or not (isinstance(d, str) and d.isdigit()):
                return None
            a_, b_ = r[0], (r[1] if r[1] is not None else hi - lo)
            new = list(arr)
            seg = arr[lo + a_:lo + b_]
            new[lo + int(d):lo + int(d) + len(seg)] = seg
            st[l] = new
            return '()'
        if ln == 'fill' and len(args) == 2:
            new = list(arr)
            for k in range(lo, hi):
                new[k] = args[1]
            st[l] = new
            return '()'
        return None

    def result(self):
        """flattened {path: expression} of the returned value(s), joined over the return paths"""
        init = {}
        for i in range(1, self.fn.arg_count + 1):
            init[i] = '$' + self.fn.local_name(i)
        out = self.run(init)
        flat = {}

        def walk(v, path, ty):
            names = self.nfields(ty) if ty else None
            if isinstance(v, list):
                for i, x in enumerate(v):
                    nm = names[i] if names and i < len(names) else str(i)
                    sub = None
                    if ty:
                        ad = self.F.adts.get('gm_sm9::' + strip_ref(ty)) or self.F.adts.get(strip_ref(ty))
                        if ad and ad.get('variants'):
                            fs = ad['variants'][0]['fields']
                            if i < len(fs):
                                sub = fs[i]['ty']
                    walk(x, path + [nm], sub)
            else:
                flat['.'.join(path) or 'ret'] = v
        walk(out, [], self.fn.local_ty(0))
        return flat
