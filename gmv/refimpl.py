"""Independent reference implementations (pure Python) of SM3, SM4 and ZUC built
ONLY from the derived tables of paramalg.  They are used for one purpose:
validating spec/params.json against published test vectors (oracle
self-validation, `./check --selftest` and at the start of K rules).  They never
execute or import repository code.
"""
from . import paramalg as pa

M32 = 0xffffffff


def rotl(x, n):
    n %= 32
    return ((x << n) | (x >> (32 - n))) & M32


# ---------------------------------------------------------------- SM3
def sm3(msg: bytes) -> bytes:
    P = pa.sm3()
    v = list(P.iv)
    l = len(msg) * 8
    m = msg + b'\x80'
    while len(m) % 64 != 56:
        m += b'\0'
    m += l.to_bytes(8, 'big')
    p0 = lambda x: x ^ rotl(x, 9) ^ rotl(x, 17)
    p1 = lambda x: x ^ rotl(x, 15) ^ rotl(x, 23)
    for off in range(0, len(m), 64):
        w = [int.from_bytes(m[off + 4 * i:off + 4 * i + 4], 'big') for i in range(16)]
        for j in range(16, 68):
            w.append(p1(w[j - 16] ^ w[j - 9] ^ rotl(w[j - 3], 15)) ^ rotl(w[j - 13], 7) ^ w[j - 6])
        w1 = [w[j] ^ w[j + 4] for j in range(64)]
        a, b, c, d, e, f, g, hh = v
        for j in range(64):
            t = P.t0 if j < 16 else P.t16
            ss1 = rotl((rotl(a, 12) + e + rotl(t, j)) & M32, 7)
            ss2 = ss1 ^ rotl(a, 12)
            if j < 16:
                ff = a ^ b ^ c; gg = e ^ f ^ g
            else:
                ff = (a & b) | (a & c) | (b & c); gg = (e & f) | (~e & g & M32)
            tt1 = (ff + d + ss2 + w1[j]) & M32
            tt2 = (gg + hh + ss1 + w[j]) & M32
            d = c; c = rotl(b, 9); b = a; a = tt1
            hh = g; g = rotl(f, 19); f = e; e = p0(tt2)
        v = [x ^ y for x, y in zip(v, [a, b, c, d, e, f, g, hh])]
    return b''.join(x.to_bytes(4, 'big') for x in v)


# ---------------------------------------------------------------- SM4
def _tau(x):
    S = pa.sm4().sbox
    return (S[x >> 24] << 24) | (S[(x >> 16) & 255] << 16) | (S[(x >> 8) & 255] << 8) | S[x & 255]


def sm4_rk(key: bytes):
    P = pa.sm4()
    k = [int.from_bytes(key[4 * i:4 * i + 4], 'big') ^ P.fk[i] for i in range(4)]
    rk = []
    for i in range(32):
        b = _tau(k[i + 1] ^ k[i + 2] ^ k[i + 3] ^ P.ck[i])
        k.append(k[i] ^ b ^ rotl(b, 13) ^ rotl(b, 23))
        rk.append(k[-1])
    return rk


def sm4_block(rk, block: bytes, decrypt=False):
    x = [int.from_bytes(block[4 * i:4 * i + 4], 'big') for i in range(4)]
    ks = rk[::-1] if decrypt else rk
    for i in range(32):
        b = _tau(x[i + 1] ^ x[i + 2] ^ x[i + 3] ^ ks[i])
        x.append(x[i] ^ b ^ rotl(b, 2) ^ rotl(b, 10) ^ rotl(b, 18) ^ rotl(b, 24))
    return b''.join(v.to_bytes(4, 'big') for v in x[35:31:-1])


# ---------------------------------------------------------------- ZUC
class Zuc:
    def __init__(self, key: bytes, iv: bytes):
        P = pa.zuc()
        self.S0, self.S1 = P.s0, P.s1
        self.s = [(key[i] << 23) | (P.d[i] << 8) | iv[i] for i in range(16)]
        self.r1 = self.r2 = 0
        for _ in range(32):
            x = self._br()
            w = self._f(x)
            self._lfsr(w >> 1)
        x = self._br(); self._f(x); self._lfsr(None)

    @staticmethod
    def _add31(a, b):
        c = a + b
        return (c & 0x7fffffff) + (c >> 31)

    @staticmethod
    def _rot31(a, k):
        return ((a << k) | (a >> (31 - k))) & 0x7fffffff

    def _br(self):
        s = self.s
        return [((s[15] & 0x7fff8000) << 1) | (s[14] & 0xffff), ((s[11] & 0xffff) << 16) | (s[9] >> 15),
                ((s[7] & 0xffff) << 16) | (s[5] >> 15), ((s[2] & 0xffff) << 16) | (s[0] >> 15)]

    def _sbox(self, x):
        return (self.S0[x >> 24] << 24) | (self.S1[(x >> 16) & 255] << 16) | (self.S0[(x >> 8) & 255] << 8) | self.S1[x & 255]

    def _f(self, x):
        w = ((x[0] ^ self.r1) + self.r2) & M32
        w1 = (self.r1 + x[1]) & M32
        w2 = self.r2 ^ x[2]
        u = ((w1 << 16) | (w2 >> 16)) & M32
        v = ((w2 << 16) | (w1 >> 16)) & M32
        l1 = u ^ rotl(u, 2) ^ rotl(u, 10) ^ rotl(u, 18) ^ rotl(u, 24)
        l2 = v ^ rotl(v, 8) ^ rotl(v, 14) ^ rotl(v, 22) ^ rotl(v, 30)
        self.r1 = self._sbox(l1); self.r2 = self._sbox(l2)
        return w

    def _lfsr(self, u):
        s = self.s
        v = s[0]
        for (i, k) in ((0, 8), (4, 20), (10, 21), (13, 17), (15, 15)):
            v = self._add31(v, self._rot31(s[i], k))
        if u is not None:
            v = self._add31(v, u)
        if v == 0:
            v = 0x7fffffff
        self.s = s[1:] + [v]

    def words(self, n):
        out = []
        for _ in range(n):
            x = self._br()
            z = self._f(x) ^ x[3]
            self._lfsr(None)
            out.append(z)
        return out


def selftest():
    """published vectors: GB/T 32905 A.1/A.2, GB/T 32907 A.1, ZUC spec test set 1-3"""
    res = []
    res.append(('sm3 abc', sm3(b'abc').hex() == '66c7f0f462eeedd9d1f2d46bdc10e4e24167c4875cf2f7a2297da02b8f4ba8e0'))
    res.append(('sm3 abcd*16', sm3(b'abcd' * 16).hex() == 'debe9ff92275b8a138604889c18e5a4d6fdb70e5387e5765293dcba39c0c5732'))
    k = bytes.fromhex('0123456789abcdeffedcba9876543210')
    rk = sm4_rk(k)
    c = sm4_block(rk, k)
    res.append(('sm4 A.1', c.hex() == '681edf34d206965e86b3e94f536e4246'))
    res.append(('sm4 A.1 dec', sm4_block(rk, c, True) == k))
    res.append(('zuc zero', Zuc(bytes(16), bytes(16)).words(2) == [0x27bede74, 0x018082da]))
    res.append(('zuc ff', Zuc(b'\xff' * 16, b'\xff' * 16).words(2) == [0x0657cfa0, 0x7096398b]))
    res.append(('zuc rnd', Zuc(bytes.fromhex('3d4c4be96a82fdaeb58f641db17b455b'),
                               bytes.fromhex('84319aa8de6915ca1f6bda6bfbd8c766')).words(2) == [0x14f1c272, 0x3279c419]))
    return res


if __name__ == '__main__':
    for n, ok in selftest():
        print(n, ok)
