"""Reviewed table for the L (panic-site) rule: sites the interval/lemma engine cannot discharge and that were
confirmed by reading.  Key = '<function short name>#<site description>' or '<function>#*<kind>' (all sites of that
kind in that one function).  One line of reason each.  Entries are matched by exact key only."""

R = {
    # ---- SM3
    'sm3_hash#*overflow': 'block loop: pad() returns a length that is a multiple of 64 (C01 L-LEN64 and pad\'s own check), count*64 takes the values 0,64,..,len and the loop stops at equality; all products/sums are <= len',
    'sm3_hash#*index': 'same loop: i ranges over count*64 .. count*64+64 <= len of the padded message',
    'sm3_hash#*bounds': 'same loop: i - count*64 ranges over 0..64 = len(b_i)',
    # ---- SM2 helpers on fixed limbs
    'p256_ecc::<impl p256_ecc::Point>::scalar_mul#*overflow': 'scalar is a 4-limb U256 at every workspace call site (&[u64;4] unsized): i < 4 so 3 - i and i + 1 cannot wrap; not a byte-consuming entry point',
    'p256_ecc::<impl p256_ecc::Point>::scalar_mul#*bounds': 'same: 3 - i in 0..4 = len(scalar) for a 4-limb scalar',
    'p256_ecc::to_jacobi#*copy_from_slice': 'all operands are [u64; 4] (fields of Point and &U256 parameters)',
    'util::mul_raw#*bounds': 'legacy helper outside every entry-point closure; ret_idx >= a_idx by its loop structure',
    'util::mul_raw_u64#*bounds': 'legacy helper outside every entry-point closure; ret_idx >= a_idx by its loop structure',
    'util::compute_za#*overflow': 'len(id) * 8 wraps only for an id of 2^61 bytes, which cannot exist in memory; the following check rejects > 65535 bits',
    'util::kdf#*overflow': 'ct is incremented bound-1 times from 1 and bound is a u32, so ct <= u32::MAX',
    'key::kdf#*overflow': 'ct is incremented bound-1 times from 1 and bound is a u32, so ct <= u32::MAX',
    'util::xor_bytes#*panic': 'assert_eq!(a.len(), b.len()): both workspace callers pass (M, KDF(.., |M|)) with |M| >= 1 enforced by the callers (L-ENTRY obligations on encrypt/decrypt), so the lengths agree',
    'util::xor_bytes#*bounds': 'b[i] with i < len(a) = len(b) after the assertion above',
    'key::<impl key::Sm2PrivateKey>::decrypt#*insert': 'dead code: xor_bytes returns exactly kelen bytes, so `mb.len() < kelen` is never true',
    # ---- SM2 key exchange protocol state
    'exchange::<impl exchange::Exchange>::exchange_2#*unwrap': 'self.r was set to Some two statements earlier in the same call',
    'exchange::<impl exchange::Exchange>::exchange_3#*unwrap': 'protocol state written by exchange_1 of the same object; calling the steps out of order is caller misuse, not externally supplied bytes',
    'exchange::<impl exchange::Exchange>::exchange_4#*unwrap': 'protocol state written by exchange_2 of the same object; calling the steps out of order is caller misuse, not externally supplied bytes',
    'exchange::build_ex_pair#*unwrap': 'gen_keypair / Exchange::new fail only if [d]G is off the curve, which cannot happen for a sampled d',
    # ---- SM4 modes
    '<impl Sm4CipherMode>::cbc_decrypt#*index': 'out has exactly len(data) bytes (one 16-byte block per input block, len % 16 == 0 and len >= 16 guarded): out[len - 1] exists',
    '<impl Sm4CipherMode>::cbc_encrypt#*precond': 'vec_buf is a 16-byte Vec initialised from the 16-byte IV and then replaced by the 16-byte output of Sm4Cipher::encrypt',
    # ---- SM9
    'fields::fp12::<impl fields::fp12::Fp12>::pow#*panic': 'assert!(e <= N-1): callers pass h range-checked in verify_sign (C09 G-SM9V-RANGE), sampler outputs in [1, N-2] (C14), the constants 6t+5, 6t^2+1, 9, or the caller\'s own ephemeral scalar (exch_step_2a)',
    'key::exch_step_1b::is_zero#*index': 'x = kdf(.., klen) has exactly klen bytes for klen >= 1 and the loop is empty for klen = 0',
    'key::exch_step_2a::is_zero#*index': 'x = kdf(.., klen) has exactly klen bytes for klen >= 1 and the loop is empty for klen = 0',
    'key::<impl key::Sm9EncKey>::decrypt#*precond': 'sm3_hmac(key = K[mlen..], klen = 32): K has 287 bytes and mlen <= 255 is guarded (C10 L-SM9D-LEN), so the key slice has >= 32 bytes',
    'key::sm3_hmac#*index': 'key[0..klen] with klen = 32 at both call sites and key slices of >= 32 bytes (see the decrypt/encrypt entries)',
    'points::<impl points::Point>::point_mul#*index': 'Booth digits of a 5-bit window lie in [-16, 16]; the table has 16 entries; the leading non-zero digit of a non-negative scalar is positive (the lower digits sum to less than half a window unit), so (booth - 1) is in 0..16 in the r_infinity branch too',
    'points::<impl points::Point>::point_mul#*overflow': '-booth - 1 with booth in [-16, -1]',
    'points::<impl points::Point>::g_mul#*index': 'Booth digits of a 7-bit window lie in [-64, 64]; each of the 37 rows has 64 points; row index i < 37; leading non-zero digit is positive',
    'points::<impl points::Point>::g_mul#*bounds': 'j*2 and j*2+1 with j < 128/2 index a 128-element row',
    'points::<impl points::Point>::g_mul#*overflow': '-booth - 1 with booth in [-64, -1]',
    'u256::sm9_u256_get_booth#*bounds': 'n = (i*w - 1)/64 <= 3 for i*w <= 259 (w in {5,7}, i < ceil(256/w)); a has 4 limbs at every call site',
    'u256::sm9_u256_get_booth#*overflow': 'difference of two values masked to at most 7 bits, as i32',
    'u256::u256_to_bits#*bounds': 'index counts the 4 x 64 iterations of two constant loops: 0..256 = len(bits)',
    'u256::u256_to_bits#*overflow': 'index <= 256',
    'u256::xor#*bounds': 'k[i], data[i] for i < len: encrypt passes (K[0..|M|], M, |M|); decrypt passes (C2, K[0..|C2|], |C2|): both slices have exactly len elements',
    # ---- ZUC
    'rot31#*overflow': 'k is one of the literal tap rotations 8, 20, 21, 17, 15 at every call site (pinned by C08 I-ZUC), so 31 - k and both shifts are in range',
    'eea::<impl eea::EEA>::encrypt#*bounds': 'msg[i], keys[i] for i < ceil(LENGTH/32): keys has exactly that many words; msg is required by the function\'s contract (property C18: message of at least ceil(LENGTH/32) words)',
    'eea::<impl eea::EEA>::encrypt#*overflow': 'keylength - 1 inside the branch LENGTH % 32 != 0, which implies LENGTH >= 1 and therefore keylength >= 1',
    'eea::<impl eea::EEA>::encrypt#*index_mut': 'rs has keylength words and the mask branch is taken only for LENGTH % 32 != 0, i.e. keylength >= 1',
    'eia::<impl eia::EIA>::gen_mac#*bounds': 'm[i >> 5] for i < LENGTH: required by the function\'s contract (property C18: message of at least ceil(LENGTH/32) words)',
    'eia::find_word#*bounds': 'keys has L = ceil(LENGTH/32) + 2 words; the largest index used is 32*(L-1), word L-1, and j+1 is read only when i % 32 != 0, i.e. i <= LENGTH < 32*(L-2)+32',
}
