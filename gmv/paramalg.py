"""Parameter algebra: exact big-integer derivations of every constant the
repository hard-codes, from the handful of defining parameters in
spec/params.json.  Nothing in here reads /repo; the K rules compare these
values with the bytes of the repository's evaluated initialisers.
"""
import json, os
from functools import lru_cache

HERE = os.path.dirname(os.path.abspath(__file__))
SPEC = os.path.join(os.path.dirname(HERE), 'spec', 'params.json')
R = 1 << 256


@lru_cache(None)
def params():
    return json.load(open(SPEC))


def h(x):
    return int(x, 16)


# ------------------------------------------------------------------ generic EC (short Weierstrass, affine)
def ec_add(P, Q, a, p):
    if P is None:
        return Q
    if Q is None:
        return P
    x1, y1 = P
    x2, y2 = Q
    if x1 == x2:
        if (y1 + y2) % p == 0:
            return None
        lam = (3 * x1 * x1 + a) * pow(2 * y1, -1, p) % p
    else:
        lam = (y2 - y1) * pow(x2 - x1, -1, p) % p
    x3 = (lam * lam - x1 - x2) % p
    y3 = (lam * (x1 - x3) - y1) % p
    return (x3, y3)


def ec_mul(k, P, a, p):
    Rr = None
    Q = P
    while k:
        if k & 1:
            Rr = ec_add(Rr, Q, a, p)
        Q = ec_add(Q, Q, a, p)
        k >>= 1
    return Rr


# ------------------------------------------------------------------ SM2
class SM2:
    def __init__(self):
        P = params()['sm2']
        self.p = h(P['p']); self.a = h(P['a']); self.b = h(P['b']); self.n = h(P['n'])
        self.G = (h(P['gx']), h(P['gy']))
        p, n = self.p, self.n
        assert self.a == p - 3
        assert (self.G[1] ** 2 - (self.G[0] ** 3 + self.a * self.G[0] + self.b)) % p == 0
        assert ec_mul(n, self.G, self.a, p) is None
        self.consts = {
            'SM2_P': p,
            'SM2_P_MINUS_ONE': p - 1,
            'SM2_P_MINUS_TWO': p - 2,
            'SM2_P_PRIME': (-pow(p, -1, R)) % R,
            'SM2_MODP_2E512': pow(2, 512, p),
            'SM2_SQRT_EXP': (p + 1) // 4,
            'SM2_MODP_MONT_ONE': R % p,
            'SM2_MODP_MONT_B': self.b * R % p,
            'SM2_MODP_MONT_A': self.a * R % p,
            'SM2_G_X': self.G[0],
            'SM2_G_Y': self.G[1],
            'SM2_N': n,
            'SM2_N_NEG': R - n,
            'SM2_N_MINUS_TWO': n - 2,
            'SM2_N_PRIME': (-pow(n, -1, R)) % R,
            'SM2_MOD_N_2E512': pow(2, 512, n),
            'SM2_ZERO': 0,
            'SM2_ONE': 1,
        }

    def mont(self, x):
        return x * R % self.p

    def table(self):
        """expected SM2P256_PRECOMPUTED: 32 rows x 510 field elements (Montgomery form)"""
        rows = []
        base = self.G
        for w in range(32):
            row = []
            acc = None
            for j in range(1, 256):
                acc = ec_add(acc, base, self.a, self.p)
                row.append(self.mont(acc[0]))
                row.append(self.mont(acc[1]))
            rows.append(row)
            # base <- 256 * base = acc (255*base) + base
            base = ec_add(acc, base, self.a, self.p)
        return rows


# ------------------------------------------------------------------ SM9
class Fp2:
    """a0 + a1*u, u^2 = -2 (mod p)"""
    __slots__ = ('a', 'b', 'p')

    def __init__(self, a, b, p):
        self.a = a % p; self.b = b % p; self.p = p

    def __add__(s, o): return Fp2(s.a + o.a, s.b + o.b, s.p)
    def __sub__(s, o): return Fp2(s.a - o.a, s.b - o.b, s.p)
    def __neg__(s): return Fp2(-s.a, -s.b, s.p)
    def __mul__(s, o):
        if isinstance(o, int):
            return Fp2(s.a * o, s.b * o, s.p)
        return Fp2(s.a * o.a - 2 * s.b * o.b, s.a * o.b + s.b * o.a, s.p)
    def __eq__(s, o): return s.a == o.a and s.b == o.b
    def is_zero(s): return s.a == 0 and s.b == 0
    def inv(s):
        d = pow(s.a * s.a + 2 * s.b * s.b, -1, s.p)
        return Fp2(s.a * d, -s.b * d, s.p)
    def __repr__(s): return 'Fp2(%x,%x)' % (s.a, s.b)


class SM9:
    def __init__(self):
        P = params()['sm9']
        t = h(P['t'])
        self.t = t
        self.p = p = 36 * t ** 4 + 36 * t ** 3 + 24 * t ** 2 + 6 * t + 1
        self.n = n = 36 * t ** 4 + 36 * t ** 3 + 18 * t ** 2 + 6 * t + 1
        self.b = P['b']
        self.P1 = (h(P['p1x']), h(P['p1y']))
        self.P2 = (Fp2(h(P['p2x0']), h(P['p2x1']), p), Fp2(h(P['p2y0']), h(P['p2y1']), p))
        # sanity: published p, N
        assert p == 0xB640000002A3A6F1D603AB4FF58EC74521F2934B1A7AEEDBE56F9B27E351457D
        assert n == 0xB640000002A3A6F1D603AB4FF58EC74449F2934B18EA8BEEE56EE19CD69ECF25
        x, y = self.P1
        assert (y * y - x ** 3 - self.b) % p == 0
        assert ec_mul(n, self.P1, 0, p) is None
        # twist: y^2 = x^3 + b*u
        X, Y = self.P2
        bu = Fp2(0, self.b, p)
        assert (Y * Y - (X * X * X + bu)).is_zero()
        mont = lambda v: v * R % p
        self.mont = mont
        # Frobenius constants: alpha_k = ((-2)^((p-1)/12))^k
        al1 = pow(p - 2, (p - 1) // 12, p)
        al = [pow(al1, k, p) for k in range(6)]
        self.alpha = al
        self.consts = {
            'SM9_P': p, 'SM9_P_MINUS_ONE': p - 1, 'SM9_P_MINUS_TWO': p - 2,
            'SM9_P_PRIME': (-pow(p, -1, R)) % R,
            'SM9_MODP_MU': pow(p, -1, 1 << 64),
            'SM9_MODP_2E512': pow(2, 512, p),
            'SM9_MODP_MONT_ONE': mont(1),
            'SM9_MODP_MONT_FIVE': mont(5),
            'SM9_MONT_ALPHA1': mont(al[1]), 'SM9_MONT_ALPHA2': mont(al[2]), 'SM9_MONT_ALPHA3': mont(al[3]),
            'SM9_MONT_ALPHA4': mont(al[4]), 'SM9_MONT_ALPHA5': mont(al[5]),
            'SM9_N': n, 'SM9_N_NEG': R - n, 'SM9_N_MINUS_ONE': n - 1, 'SM9_N_MINUS_TWO': n - 2,
            'SM9_N_BARRETT_MU': (1 << 512) // n,
            'SM9_U256_N_MINUS_ONE_BARRETT_MU': (1 << 512) // (n - 1) - R,
            'SM9_ZERO': 0, 'SM9_ONE': 1,
            'SM9_HID_SIGN': P['hid_sign'], 'SM9_HID_EXCH': P['hid_exch'], 'SM9_HID_ENC': P['hid_enc'],
            'SM9_HASH1_PREFIX': P['h1_prefix'], 'SM9_HASH2_PREFIX': P['h2_prefix'],
        }
        # structured constants: dict name -> nested dict of ints keyed by field path
        self.struct_consts = {
            'SM9_MONT_BETA': {'c0': mont(al[3]), 'c1': 0},
            'SM9_POINT_MONT_P1': {'x': mont(x), 'y': mont(y), 'z': mont(1)},
            'SM9_TWIST_POINT_MONT_P2': {'x.c0': mont(X.a), 'x.c1': mont(X.b), 'y.c0': mont(Y.a), 'y.c1': mont(Y.b),
                                        'z.c0': mont(1), 'z.c1': 0},
            'SM9_U256_MONT_G2': {'x.c0': mont(X.a), 'x.c1': mont(X.b), 'y.c0': mont(Y.a), 'y.c1': mont(Y.b),
                                 'z.c0': mont(1), 'z.c1': 0},
            'G1': {'x': x, 'y': y, 'z': 1},
            'G2': {'x.c0': X.a, 'x.c1': X.b, 'y.c0': Y.a, 'y.c1': Y.b, 'z.c0': 1, 'z.c1': 0},
        }
        # Miller loop parameter and final-exponent pieces
        self.miller = 6 * t + 2
        self.a3 = 6 * t + 5
        self.a2 = 6 * t * t + 1
        # pi1 / pi2 z-multipliers used by point_pi1 / point_neg_pi2 (Montgomery form)
        self.pi1_c = mont(al[1])   # z * alpha1  (conjugated coordinates)
        self.pi2_c = mont(al[2])

    def table(self):
        """expected SM9_P256_PRECOMPUTED: 37 rows x 128 field elements, row w col 2(j-1),2(j-1)+1 =
        mont(affine(j * 2^(7w) * P1)), j = 1..64"""
        rows = []
        base = self.P1
        for w in range(37):
            row = []
            acc = None
            for j in range(1, 65):
                acc = ec_add(acc, base, 0, self.p)
                row.append(self.mont(acc[0]))
                row.append(self.mont(acc[1]))
            rows.append(row)
            # base <- 128*base = 2*(64*base)
            base = ec_add(acc, acc, 0, self.p)
        return rows


# ------------------------------------------------------------------ SM3
class SM3:
    def __init__(self):
        P = params()['sm3']
        self.iv = [h(x) for x in P['iv']]
        self.t0 = h(P['t0']); self.t16 = h(P['t16'])


# ------------------------------------------------------------------ SM4
def gf_mul(a, b, poly):
    r = 0
    while b:
        if b & 1:
            r ^= a
        a <<= 1
        if a & 0x100:
            a ^= poly
        b >>= 1
    return r


def gf_inv(a, poly):
    if a == 0:
        return 0
    # a^254
    r = 1
    for _ in range(254):
        r = gf_mul(r, a, poly)
    return r


def rotl8(x, i):
    i %= 8
    return ((x << i) | (x >> (8 - i))) & 0xff


def parity(x):
    return bin(x).count('1') & 1


class SM4:
    def __init__(self):
        P = params()['sm4']
        self.fk = [h(x) for x in P['fk']]
        poly = h(P['sbox_poly']); row = h(P['sbox_row']); c = h(P['sbox_const'])

        def affine(x):
            y = 0
            for i in range(8):
                if parity(rotl8(row, i) & x):
                    y |= 1 << i
            return y ^ c
        # S(x) = A(inv(A(x)))  with A(x) = M x ^ c
        self.sbox = [affine(gf_inv(affine(x), poly)) for x in range(256)]
        assert sorted(self.sbox) == list(range(256))
        self.ck = []
        for i in range(32):
            w = 0
            for j in range(4):
                w = (w << 8) | (((4 * i + j) * 7) & 0xff)
            self.ck.append(w)


# ------------------------------------------------------------------ ZUC
class ZUC:
    def __init__(self):
        P = params()['zuc']
        self.d = [h(x) for x in P['d']]
        p1, p2, p3 = P['s0_p1'], P['s0_p2'], P['s0_p3']
        rot = P['s0_rot']
        s0 = []
        for x in range(256):
            x1, x2 = x >> 4, x & 15
            q = x1 ^ p1[x2]
            r = x2 ^ p2[q]
            q2 = q ^ p3[r]
            y = (q2 << 4) | r
            s0.append(rotl8(y, rot))
        self.s0 = s0
        poly = h(P['s1_poly']); c = h(P['s1_const'])
        m = P.get('s1_matrix_cols')
        self.s1 = None
        if m:
            s1 = []
            for x in range(256):
                v = gf_inv(x, poly)
                y = 0
                for i in range(8):
                    if (v >> i) & 1:
                        y ^= m[i]
                s1.append(y ^ c)
            self.s1 = s1


@lru_cache(None)
def sm2(): return SM2()
@lru_cache(None)
def sm9(): return SM9()
@lru_cache(None)
def sm3(): return SM3()
@lru_cache(None)
def sm4(): return SM4()
@lru_cache(None)
def zuc(): return ZUC()
