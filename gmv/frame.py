"""helpers for F (framing) obligations: compare canonical element lists with expected layouts"""
from .builder import Canon, preimage
from .prov import Prov, norm, last, fn_is
from . import rules_g as G


def calls_of(fn, suffix):
    return [b for b, t in fn.calls() if t['fn']['k'] == 'def' and (fn_is(t['fn']['name'], suffix) or last(t['fn']['name']) == suffix)]


def check_seq(cx, rule, inst, fn, got, expected, what, block=None):
    where = G.where(fn, block) if block is not None else fn.loc()
    if got is None:
        cx.violate(rule, inst, '%s: argument is not a locally built byte vector' % what, where)
        return False
    ok = list(got) == list(expected)
    if ok:
        cx.hold(rule, inst, '%s: [%s]' % (what, ', '.join(short(x) for x in got)), where, {'elements': got})
    else:
        # first difference
        i = 0
        while i < min(len(got), len(expected)) and got[i] == expected[i]:
            i += 1
        cx.violate(rule, inst, '%s: element %d differs (got %s, expected %s); got %d element(s), expected %d' % (
            what, i, short(got[i]) if i < len(got) else '<none>', short(expected[i]) if i < len(expected) else '<none>', len(got), len(expected)),
            where, {'got': got, 'expected': expected})
    return ok


def short(s, n=160):
    return s if len(s) <= n else s[:n] + '...'


def arg_canon(fn, P, cn, block, argi):
    t = fn.blocks[block]['term']
    return cn.c(norm(P.operand(t['args'][argi], block, len(fn.blocks[block]['stmts']))))


def ret_exprs(fn, P, variant='Result::Ok'):
    """normalised payload expressions of `_0 = Ok(x)` / Some(x) statements: list of (block, expr)"""
    out = []
    from .rules_g import ret_def_sites
    for b, i in ret_def_sites(fn):
        if i == -1:
            continue
        st = fn.blocks[b]['stmts'][i]
        if True:
            rv = st['rv']
            if rv['k'] == 'aggr' and rv.get('akind') == 'adt' and '%s::%s' % (last(rv['adt']), rv['variant']) == variant and rv['ops']:
                out.append((b, i, rv['ops'][0]))
    return out


def slice_sites(fn, P, cn, pname, detail=False):
    """every place where a sub-slice of parameter `pname` is formed — x[a..b], x.split_at(k), slices of such slices —
    as (block, [normalised `index($p, range)` expressions]).  split_at yields two.  The expressions are normalised, so
    `x.split_at(65).1.split_at(32).0` and `x[65..97]` are the same site value."""
    from .prov import strip
    out = []
    for b, t in fn.calls():
        if t['fn']['k'] != 'def' or last(t['fn']['name']) not in ('index', 'index_mut', 'split_at', 'split_at_mut') or not t['args']:
            continue
        if t['target'] is None or t['dest']['p']:
            continue
        n = len(fn.blocks[b]['stmts'])
        a0 = strip(norm(P.operand(t['args'][0], b, n)))
        root = a0
        while root.k == 'call' and last(root.name) in ('index', 'index_mut') and root.args:
            root = strip(root.args[0])
        if not (root.k == 'param' and root.name == pname):
            continue
        dest = norm(P.local(t['dest']['l'], t['target'], 0))
        if last(t['fn']['name']).startswith('split_at'):
            from .prov import E, simplify_slices
            parts = [simplify_slices(norm(E('field', str(i), [dest], c={'fidx': i}))) for i in (0, 1)]
        else:
            parts = [dest]
        out.append((b, parts, last(t['fn']['name']), a0) if detail else (b, parts))
    return out
