"""Parser for the canonical expression text produced by builder.Canon, and evaluation of its integer (index) part.

Rules that decide a *recurrence over a finite, constant trip count* (SM4 rounds and key schedule) do not compare the
text of the index arithmetic: they evaluate it for every iteration (constant propagation over the finite domain of the
loop counter) and follow which word of the recurrence every array cell holds.  Values stay symbolic; only indices are
numbers.

node forms
  ('int', v)
  ('sym', name)                         $p, var:x@in, CK, names with dots
  ('call', name, [args], sel)           name(args) optionally followed by .0 / .1 (checked-arithmetic pairs)
  ('aggr', name, [args])                Range::Range{a, b}
  ('idx', base, index, version)         base[index] with optional #{...} memory version (string or None)
  ('cast', expr, type)                  (expr as T)
  ('phi', [alts])                       phi(a | b)
"""
import re


class ParseError(Exception):
    pass


def parse(s):
    pos = [0]
    n = len(s)

    def peek(k=1):
        return s[pos[0]:pos[0] + k]

    def eat(t):
        if not s.startswith(t, pos[0]):
            raise ParseError('expected %r at %d in %r' % (t, pos[0], s[:120]))
        pos[0] += len(t)

    def name():
        m = re.compile(r"[$A-Za-z_<][\w:$.<>@=' &;*-]*").match(s, pos[0])
        if not m:
            raise ParseError('name expected at %d in %r' % (pos[0], s[:120]))
        t = m.group(0)
        # a name never ends in a space, and never swallows ' as ' / ' | '
        for stop in (' as ', ' | '):
            k = t.find(stop)
            if k >= 0:
                t = t[:k]
        t = t.rstrip(' ')
        # `.0` / `.1` selectors after a call are handled by the caller; here a trailing '.<digit>' belongs to a field path
        pos[0] += len(t)
        return t

    def args(close):
        out = []
        if peek() == close:
            pos[0] += 1
            return out
        while True:
            out.append(alt())
            if peek(2) == ', ':
                pos[0] += 2
                continue
            eat(close)
            return out

    def alt():
        e = expr()
        return e

    def postfix(e):
        while pos[0] < n:
            if peek() == '[':
                pos[0] += 1
                i = expr()
                eat(']')
                v = None
                if peek(2) == '#{':
                    j = s.index('}', pos[0])
                    # versions may contain nested braces of ranges: balance them
                    d, j = 0, pos[0] + 1
                    while j < n:
                        if s[j] == '{':
                            d += 1
                        elif s[j] == '}':
                            d -= 1
                            if d == 0:
                                break
                        j += 1
                    v = s[pos[0]:j + 1]
                    pos[0] = j + 1
                e = ('idx', e, i, v)
                continue
            if peek(2) == '#{':
                # a memory version on a whole object (`k#{E|[0]}`)
                d, j = 0, pos[0] + 1
                while j < n:
                    if s[j] == '{':
                        d += 1
                    elif s[j] == '}':
                        d -= 1
                        if d == 0:
                            break
                    j += 1
                e = ('ver', e, s[pos[0]:j + 1])
                pos[0] = j + 1
                continue
            if peek(2) in ('.0', '.1') and not (pos[0] + 2 < n and (s[pos[0] + 2].isalnum() or s[pos[0] + 2] == '_')):
                e = ('call', 'sel' + peek(2), [e], None)
                pos[0] += 2
                continue
            if peek() == '.' and pos[0] + 1 < n and (s[pos[0] + 1].isalpha() or s[pos[0] + 1] == '_'):
                pos[0] += 1
                f = re.compile(r'\w+').match(s, pos[0]).group(0)
                pos[0] += len(f)
                e = ('call', 'field.' + f, [e], None)
                continue
            break
        return e

    def expr():
        if pos[0] >= n:
            raise ParseError('unexpected end in %r' % s[:120])
        c = peek()
        if c == '(':
            pos[0] += 1
            e = expr()
            if peek(4) == ' as ':
                pos[0] += 4
                m = re.compile(r'[\w:<>\[\]; &*]+').match(s, pos[0])
                ty = m.group(0)
                pos[0] += len(ty)
                eat(')')
                return postfix(('cast', e, ty.strip()))
            eat(')')
            return postfix(e)
        if c == '[':
            # a literal list: [a, b]
            pos[0] += 1
            a = args(']')
            return postfix(('aggr', 'list', a))
        if c.isdigit() or (c == '-' and peek(2)[1:].isdigit()):
            m = re.compile(r'-?(0x[0-9a-fA-F]+|\d+)').match(s, pos[0])
            pos[0] += len(m.group(0))
            t = m.group(0)
            return postfix(('int', int(t, 16) if 'x' in t else int(t)))
        nm = name()
        if peek() == '(':
            pos[0] += 1
            if nm == 'phi':
                alts = [expr()]
                while peek(3) == ' | ':
                    pos[0] += 3
                    alts.append(expr())
                eat(')')
                return postfix(('phi', alts))
            a = args(')')
            return postfix(('call', nm, a, None))
        if peek() == '{':
            pos[0] += 1
            a = args('}')
            return postfix(('aggr', nm, a))
        return postfix(('sym', nm))

    e = expr()
    if pos[0] != n:
        raise ParseError('trailing text at %d in %r' % (pos[0], s[:160]))
    return e


def show(e):
    k = e[0]
    if k == 'int':
        return str(e[1])
    if k == 'sym':
        return e[1]
    if k == 'call':
        if e[1] in ('sel.0', 'sel.1'):
            return show(e[2][0]) + e[1][3:]
        if e[1].startswith('field.'):
            return show(e[2][0]) + '.' + e[1][6:]
        return '%s(%s)' % (e[1], ', '.join(show(a) for a in e[2]))
    if k == 'aggr':
        if e[1] == 'list':
            return '[%s]' % ', '.join(show(a) for a in e[2])
        return '%s{%s}' % (e[1], ', '.join(show(a) for a in e[2]))
    if k == 'idx':
        return '%s[%s]%s' % (show(e[1]), show(e[2]), e[3] or '')
    if k == 'cast':
        return '(%s as %s)' % (show(e[1]), e[2])
    if k == 'phi':
        return 'phi(%s)' % ' | '.join(show(a) for a in e[1])
    if k == 'ver':
        return show(e[1]) + e[2]
    return '?'


def ev(e, env, lens=None):
    """integer value of an index expression; env maps the text of loop-counter nodes (`each(..)`) to their value in the
    current iteration, lens the text of fixed-size collections to their length.  None when it is not an integer
    expression over those."""
    k = e[0]
    if k == 'int':
        return e[1]
    t = show(e)
    if t in env:
        return env[t]
    if k == 'cast':
        return ev(e[1], env, lens)
    if k == 'call':
        nm, a = e[1], e[2]
        if nm == 'sel.0':
            return ev(a[0], env, lens)
        if nm == 'len' and len(a) == 1 and lens and show(a[0]) in lens:
            return lens[show(a[0])]
        b = nm.replace('WithOverflow', '')
        if b in ('Add', 'Sub', 'Mul', 'Div', 'Rem', 'BitAnd', 'Shr', 'Shl') and len(a) == 2:
            x, y = ev(a[0], env, lens), ev(a[1], env, lens)
            if x is None or y is None:
                return None
            if b == 'Add':
                return x + y
            if b == 'Sub':
                return x - y if x >= y else None      # would panic (debug) / wrap: not an index
            if b == 'Mul':
                return x * y
            if b == 'Div':
                return x // y if y else None
            if b == 'Rem':
                return x % y if y else None
            if b == 'BitAnd':
                return x & y
            if b == 'Shr':
                return x >> y
            if b == 'Shl':
                return x << y
    return None


def counters(e, out=None):
    """texts of all `each(..)` nodes in e"""
    out = set() if out is None else out
    k = e[0]
    if k == 'call' and e[1] == 'each':
        out.add(show(e))
        return out
    for a in (e[2] if k in ('call', 'aggr') else [e[1], e[2]] if k == 'idx' else [e[1]] if k in ('cast', 'ver') else e[1] if k == 'phi' else []):
        counters(a, out)
    return out


def counter_domain(text, lens=None):
    """the values a loop counter `each(Range::Range{a, b})` / `each(rev(Range::Range{a, b}))` takes, in iteration order"""
    try:
        e = parse(text)
    except ParseError:
        return None
    if not (e[0] == 'call' and e[1] == 'each' and len(e[2]) == 1):
        return None
    r = e[2][0]
    rev = False
    while r[0] == 'call' and r[1] == 'rev' and len(r[2]) == 1:
        rev = not rev
        r = r[2][0]
    if not (r[0] == 'aggr' and r[1] == 'Range::Range' and len(r[2]) == 2):
        return None
    a, b = ev(r[2][0], {}, lens), ev(r[2][1], {}, lens)
    if a is None or b is None or b - a > 4096:
        return None
    dom = list(range(a, b))
    return dom[::-1] if rev else dom


def flatten_xor(e):
    if e[0] == 'call' and e[1] == 'BitXor' and len(e[2]) == 2:
        return flatten_xor(e[2][0]) + flatten_xor(e[2][1])
    return [e]


def fold(e):
    """the expression with every constant integer sub-expression replaced by its value (`MulWithOverflow(1, 4).0` -> 4)"""
    k = e[0]
    if k in ('int', 'sym'):
        return e
    v = ev(e, {})
    if v is not None and k in ('call', 'cast'):
        return ('int', v)
    if k == 'call':
        return ('call', e[1], [fold(a) for a in e[2]], e[3])
    if k == 'aggr':
        return ('aggr', e[1], [fold(a) for a in e[2]])
    if k == 'idx':
        return ('idx', fold(e[1]), fold(e[2]), e[3])
    if k == 'cast':
        return ('cast', fold(e[1]), e[2])
    if k == 'phi':
        return ('phi', [fold(a) for a in e[1]])
    if k == 'ver':
        return ('ver', fold(e[1]), e[2])
    return e
