"""P — effects: purity of a call closure, immutability of a type"""
from .prov import last

DENY_PREFIX = ('std::time', 'std::env', 'std::fs', 'std::net', 'std::thread', 'std::sync', 'std::process', 'std::io::stdio',
               'core::cell', 'std::cell', 'core::sync::atomic', 'std::sys', 'rand', 'getrandom', 'std::collections::hash::map::RandomState',
               'std::thread::local', 'core::ptr::write_volatile', 'core::ptr::read_volatile')
ALLOW_CRATES = ('core', 'alloc', 'std', 'byteorder', 'hex', 'const_oid', 'compiler_builtins')


def p_pure(cx, rule, inst, roots, extra_allow_crates=(), stop=()):
    """the result of `roots` is a function of their arguments: no unsafe, no mutable/interior-mutable static,
    no pointer->integer cast, no callee with ambient effects in the workspace call closure.  `stop`: last names of
    functions that are not entered (the random samplers: the rest of a randomised operation must still be stateless)"""
    seen, ext = cx.F.closure(roots)
    if not stop:
        # resolve calls through workspace traits (generic helpers) to all their implementations
        more = [i_ for e_ in list(ext) for i_ in _trait_impls(cx.F, e_)]
        while more:
            ext -= {e_ for e_ in ext if _trait_impls(cx.F, e_)}
            s2, e2 = cx.F.closure(more)
            seen |= s2
            ext |= e2
            more = [i_ for e_ in list(ext) for i_ in _trait_impls(cx.F, e_) if i_ not in seen]
            if not more:
                ext -= {e_ for e_ in ext if _trait_impls(cx.F, e_)}
    if stop:
        seen, ext = set(), set()
        work = list(roots)
        while work:
            n = work.pop()
            if n in seen or last(n) in stop:
                continue
            f = cx.F.fns.get(n)
            if f is None:
                impls = _trait_impls(cx.F, n)
                if impls:
                    work += impls          # an unresolved call of a workspace trait method: every implementation may run
                else:
                    ext.add(n)
                continue
            seen.add(n)
            for b, t in f.calls():
                if t['fn']['k'] == 'def':
                    work.append(t['fn']['name'])
            for _, _, stt in f.stmts():
                rv = stt.get('rv')
                if rv and rv['k'] == 'aggr' and rv.get('akind') == 'closure':
                    work.append(rv['closure'])
    problems = []
    for n in sorted(seen):
        f = cx.F.fns[n]
        if f.unsafe:
            problems.append('%s is an unsafe fn' % n)
        for b, i, st in f.stmts():
            rv = st.get('rv')
            if rv and rv['k'] == 'cast' and 'ExposeProvenance' in rv['kind'] and not st['span'].get('exp'):
                problems.append('%s casts a pointer to an integer (%s)' % (n, f.loc(st['span'])))
            # statics referenced
        for b, i, st in f.stmts():
            rv = st.get('rv')
            if not rv:
                continue
            for c in consts_in(rv):
                if c.get('k') == 'static_ref':
                    it = cx.F.items.get(c['static'])
                    if it is not None and (it.get('mutable') or not it.get('freeze', True)):
                        problems.append('%s reads mutable/interior-mutable static %s' % (n, c['static']))
                    if it is None:
                        problems.append('%s references foreign static %s' % (n, c['static']))
    for e in sorted(ext):
        krate = e.split('::')[0]
        if any(e.startswith(d) for d in DENY_PREFIX) or 'thread::local' in e or '::Cell<' in e or 'RefCell' in e or 'OnceLock' in e or 'OnceCell' in e or 'Mutex' in e or 'Atomic' in e:
            problems.append('calls %s (ambient or interior-mutable state)' % e)
        elif krate not in ALLOW_CRATES + tuple(extra_allow_crates):
            problems.append('calls %s (crate %s is not on the pure allow-list)' % (e, krate))
    cx.add(rule, inst, not problems, 'call closure of %s (%d workspace functions, %d external callees) is effect-free: %s' % (
        [r.split('::', 1)[1] for r in roots], len(seen), len(ext), '; '.join(problems[:4]) or 'no unsafe, no mutable static, no ambient callee'),
        cx.F.fns[roots[0]].loc() if roots and roots[0] in cx.F.fns else '', {'closure': sorted(seen), 'external': sorted(ext)})
    cx.stat(inst + '_closure_fns', len(seen))
    return seen, ext


def _trait_impls(F, name):
    """workspace functions that implement the trait method `krate::path::Trait::method` (a call the compiler could not resolve
    to one implementation because the receiver type is a generic parameter)"""
    if not name.startswith('gm_'):
        return []
    parts = name.split('::')
    if len(parts) < 3:
        return []
    trait, meth = parts[-2], parts[-1]
    return [n for n in F.fns if n.endswith('::' + meth) and ('::%s for ' % trait) in n]


def consts_in(rv):
    out = []
    def op(o):
        if o and o.get('k') == 'const':
            out.append(o['c'])
    k = rv['k']
    if k in ('use', 'cast', 'repeat'):
        op(rv.get('op'))
    elif k == 'binop':
        op(rv['a']); op(rv['b'])
    elif k == 'unop':
        op(rv['a'])
    elif k == 'aggr':
        for o in rv['ops']:
            op(o)
    return out


def p_immut(cx, rule, adt_name, methods):
    """type is Freeze (no interior mutability), all fields private, anchored methods take &self"""
    a = cx.F.adts.get(adt_name)
    if a is None:
        cx.lost(rule, adt_name, 'type not found')
        return
    pub_fields = [f['name'] for v in a['variants'] for f in v['fields'] if f['public']]
    cx.add(rule, adt_name + '/freeze', a.get('freeze') is True, '%s has no interior mutability (Freeze)' % adt_name, '%s:%d' % (a['span']['file'].replace('/repo/', ''), a['span']['line']))
    cx.add(rule, adt_name + '/private', not pub_fields, '%s has no public field (state cannot be altered from outside): %s' % (adt_name, pub_fields or 'all private'))
    for m in methods:
        fs = cx.F.find_fns(m)
        if len(fs) != 1:
            cx.lost(rule, m, 'method not found')
            continue
        f = fs[0]
        self_ty = f.local_ty(1) if f.arg_count >= 1 else ''
        cx.add(rule, m + '/&self', self_ty.startswith('&') and not self_ty.startswith('&mut'), '%s takes %s' % (f.short, self_ty), f.loc())
