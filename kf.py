#!/usr/bin/env python3
"""maintain known_findings.json (authoring-time helper; checks never write this file)
usage: kf.py fixed  <prop> <key> <commit> <what>
       kf.py open   <prop> <key> <what>"""
import json, sys
p = '/verif/known_findings.json'
j = json.load(open(p))
mode, prop, key = sys.argv[1:4]
if mode == 'fixed':
    commit, what = sys.argv[4], sys.argv[5]
    e = {'property': prop, 'key': key, 'status': 'fixed', 'commit': commit, 'what': what,
         'line': 'fixed: property=%s %s %s' % (prop, commit, what)}
else:
    what = sys.argv[4]
    e = {'property': prop, 'key': key, 'status': 'open', 'what': what}
j['findings'] = [x for x in j['findings'] if not (x['property'] == prop and x['key'] == key)] + [e]
json.dump(j, open(p, 'w'), indent=1)
print(e)
