#!/usr/bin/env python3
"""Apply a seeded change to /repo, run checks, undo.  usage: seedrun.py <patch.diff> [props...]
Prints which properties' checks report a NEW violation (exit 1)."""
import subprocess, sys, os, json
patch = sys.argv[1]
props = sys.argv[2:] or ['C%02d' % i for i in range(1, 21)]
def sh(c):
    return subprocess.run(c, shell=True, stdout=subprocess.PIPE, stderr=subprocess.STDOUT, text=True)
st = sh('git -C /repo status --porcelain')
assert st.stdout.strip() == '', 'repo dirty: ' + st.stdout
r = sh('git -C /repo apply %s' % patch)
mode = 'apply'
if r.returncode != 0:
    r = sh('git -C /repo apply --3way %s' % patch)
    mode = '3way'
    if r.returncode != 0:
        print('PATCH-FAILED', r.stdout[-500:])
        sh('git -C /repo reset -q --hard HEAD')
        sys.exit(3)
try:
    res = {}
    for p in props:
        if not os.path.exists('/verif/gmv/props/%s.py' % p):
            continue
        o = sh('cd /verif && ./check %s' % p)
        viol = [l for l in o.stdout.splitlines() if l.startswith(('VIOLATED', 'ANCHOR-LOST', 'ERROR'))]
        res[p] = (o.returncode, viol)
    for p, (rc, viol) in res.items():
        if rc != 0:
            print('%s rc=%d' % (p, rc))
            for v in viol[:6]:
                print('    ' + v[:260])
    caught = [p for p, (rc, v) in res.items() if rc == 1]
    print('CAUGHT-BY:', ' '.join(caught) or 'none', '(mode %s)' % mode)
finally:
    sh('git -C /repo reset -q --hard HEAD')
    sh('git -C /repo clean -fdq -e target')
